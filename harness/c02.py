"""C02 - every defined position is encoded at, and parsed from, its own index.

Obligations: kernel-checked well-formedness of every table row of every version (Oblig/WfAll.v:
contiguous NAME_1..NAME_n, resolvable datatypes) and the position theorems of Properties/C02.v.
Implementation side: EXHAUSTIVE sweep over versions x segments x field indices and versions x
complex datatypes x components x subcomponents (assign by name, encode, count separators, parse
back, read by name), instantiability of every declared segment/field/component, open-ended
segments for many indices.  Correspondence: the model parses/encodes the same position texts.
"""
import os
import sys

sys.path.insert(0, os.path.dirname(__file__))
from common import Run, COQ, theorems_of
import segcorr as S
import hl7apy
from hl7apy.core import Segment, Field, Component
from hl7apy.parser import parse_segment

VAL = {'DT': '20200101', 'DTM': '20200101', 'TM': '1200', 'NM': '7', 'SI': '7', 'TN': '555-1234'}


def leaf_value(dt):
    return VAL.get(dt, 'x')


def first_leaf_dt(ref):
    """datatype of the leaf that a plain text assigned to this reference lands in"""
    while ref is not None and ref[0] == 'sequence' and ref[1]:
        ref = ref[1][0][1]
    return ref[2] if ref is not None and len(ref) > 2 else 'ST'


ALT = {'FIELD': '!', 'COMPONENT': '@', 'SUBCOMPONENT': '%', 'REPETITION': '$', 'ESCAPE': '/'}


def alt_ec(ec):
    """delimiters that differ from the element's own in every role (asked for through to_er7's argument)"""
    out = dict(ec)
    out.update(ALT)
    return out


def alt_check(run, seg, ec, expected, value, path, **where):
    """the position holds whatever delimiters the caller asks for: the same tree encoded with other delimiters has the
    value after the same number of (other) separators, and parses back under the same names"""
    a = alt_ec(ec)
    exp = expected.translate({ord(ec[k]): ALT[k] for k in ALT})
    try:
        out = seg.to_er7(a)
        if out != exp:
            run.fail('position-wrong-with-requested-delimiters', 'encoding with delimiters given to to_er7() does not put the '
                     'value after the same number of separators', output=out, expected=exp, delimiters=''.join(ALT.values()),
                     **where)
            return
        node = parse_segment(out, version=seg.version, encoding_chars=a)
        for name in path:
            node = getattr(node, name)
        val = node[0].to_er7(a) if len(node) else None
        if val != value:
            run.fail('parse-back-wrong-with-requested-delimiters', 'parsing the text encoded with the requested delimiters '
                     'does not yield the value under the same name', text=out, got=val, delimiters=''.join(ALT.values()),
                     **where)
    except Exception as ex:  # noqa
        run.fail('position-raises-with-requested-delimiters', 'encoding/parsing with requested delimiters raises',
                 exc=repr(ex), **where)


def main(argv=None):
    run = Run('C02', argv)
    targets = ['Oblig/WfAll.vo']
    obl = ['Oblig/WfAll.v'] + ['Oblig/Wf_v%s.v' % v.replace('.', '_') for v in S.VERSIONS]
    if os.path.exists(os.path.join(COQ, 'Properties', 'C02.v')):
        targets.append('Properties/C02.vo')
        obl.append('Properties/C02.v')
    ok = run.build(targets, gen=('params', 'tables'), obligation_files=obl)
    if ok and 'Properties/C02.v' in obl:
        run.print_assumptions('Properties.C02', [n for n, _ in theorems_of('Properties/C02.v')])
    rng = run.rng
    stats = {'field_positions': 0, 'component_positions': 0, 'subcomponent_positions': 0, 'instantiations': 0,
             'open_ended_positions': 0}
    cases = []
    model_versions = set(S.VERSIONS if run.thorough else rng.sample(S.VERSIONS, 3))
    for v in S.VERSIONS:
        lib = hl7apy.load_library(v)
        ec = S.default_ec(v)
        F, C, SC = ec['FIELD'], ec['COMPONENT'], ec['SUBCOMPONENT']
        seen_dt = set()
        for sname in sorted(lib.SEGMENTS):
            if sname == 'ANYHL7SEGMENT':
                continue      # a structure wildcard, not a segment
            stats['instantiations'] += 1
            try:
                Segment(sname, version=v)
            except Exception as ex:  # noqa
                run.fail('not-instantiable', 'a declared segment cannot be instantiated', version=v, cls='Segment',
                         name=sname, exc=repr(ex))
                continue
            rows = lib.SEGMENTS[sname][1]
            for idx, row in enumerate(rows):
                fname, fref = row[0], row[1]
                try:
                    i = int(fname.split('_')[1])
                except Exception:  # noqa
                    i = idx + 1
                if sname == 'MSH' and i <= 2:
                    continue
                x = leaf_value(first_leaf_dt(fref))
                nsep = i if sname != 'MSH' else i - 1
                expected = sname + F * nsep + x if sname != 'MSH' else None
                stats['field_positions'] += 1
                try:
                    seg = Segment(sname, version=v)
                    setattr(seg, fname, x)
                    out = seg.to_er7(ec)
                    if sname == 'MSH':
                        expected = 'MSH' + F + '^~\\&' + F * (i - 2) + x
                        seg2 = Segment(sname, version=v)
                        seg2.msh_1 = F
                        seg2.msh_2 = '^~\\&'
                        setattr(seg2, fname, x)
                        out = seg2.to_er7(ec)
                    if out != expected:
                        run.fail('field-position-wrong', 'a value assigned by name is not encoded after exactly i field '
                                 'separators', version=v, segment=sname, field=fname, index=i, output=out,
                                 expected=expected)
                        continue
                    back = parse_segment(out, version=v, encoding_chars=ec)
                    got = getattr(back, fname)
                    val = got[0].to_er7(ec) if len(got) else None
                    if val != x or [f.name for f in back.children if f.name not in ('MSH_1', 'MSH_2')] != [fname]:
                        run.fail('field-parse-back-wrong', 'parsing the encoded text does not yield the value under the '
                                 'same name', version=v, segment=sname, field=fname, text=out, got=val,
                                 children=[f.name for f in back.children])
                    if v in model_versions and sname != 'MSH':
                        cases.append(S.case_of(out, v, S.TOLERANT, ec))
                    if sname != 'MSH' and (run.thorough or idx % 4 == 0):
                        alt_check(run, seg, ec, expected, x, [fname], version=v, segment=sname, field=fname)
                except Exception as ex:  # noqa
                    run.fail('field-position-raises', 'assigning/encoding/parsing a defined field position raises',
                             version=v, segment=sname, field=fname, exc=repr(ex))
                    continue
                # components / subcomponents: once per (version, datatype)
                if fref[0] == 'sequence' and fref[2] not in seen_dt and sname != 'MSH':
                    seen_dt.add(fref[2])
                    for j, crow in enumerate(fref[1]):
                        cname, cref = crow[0], crow[1]
                        cx = leaf_value(first_leaf_dt(cref))
                        stats['component_positions'] += 1
                        exp = sname + F * i + C * j + cx
                        try:
                            seg = Segment(sname, version=v)
                            setattr(getattr(seg, fname), cname, cx)
                            out = seg.to_er7(ec)
                            if out != exp:
                                run.fail('component-position-wrong', 'a component assigned by name is not encoded after '
                                         'exactly j-1 component separators', version=v, field=fname, component=cname,
                                         output=out, expected=exp)
                            else:
                                back = parse_segment(out, version=v, encoding_chars=ec)
                                val = getattr(getattr(back, fname), cname)[0].to_er7(ec)
                                if val != cx:
                                    run.fail('component-parse-back-wrong', 'component not found under its name after '
                                             'parsing', version=v, field=fname, component=cname, text=out, got=val)
                                # positional path
                                val2 = getattr(getattr(back, fname), '%s_%d' % (fname, j + 1))[0].to_er7(ec)
                                if val2 != cx:
                                    run.fail('component-parse-back-wrong', 'component not found under its positional path',
                                             version=v, field=fname, component=cname, text=out, got=val2)
                                if v in model_versions:
                                    cases.append(S.case_of(out, v, S.TOLERANT, ec))
                                alt_check(run, seg, ec, exp, cx, [fname, cname], version=v, field=fname, component=cname)
                        except Exception as ex:  # noqa
                            run.fail('component-position-raises', 'assigning/encoding/parsing a defined component position '
                                     'raises', version=v, field=fname, component=cname, exc=repr(ex))
                            continue
                        if cref[0] == 'sequence':
                            for k, srow in enumerate(cref[1]):
                                sn = srow[0]
                                sx = leaf_value(first_leaf_dt(srow[1]))
                                stats['subcomponent_positions'] += 1
                                exp = sname + F * i + C * j + SC * k + sx
                                try:
                                    seg = Segment(sname, version=v)
                                    setattr(getattr(getattr(seg, fname), cname), sn, sx)
                                    out = seg.to_er7(ec)
                                    if out != exp:
                                        run.fail('subcomponent-position-wrong', 'a subcomponent assigned by name is not '
                                                 'encoded after exactly k-1 subcomponent separators', version=v,
                                                 field=fname, component=cname, subcomponent=sn, output=out, expected=exp)
                                    else:
                                        back = parse_segment(out, version=v, encoding_chars=ec)
                                        val = getattr(getattr(getattr(back, fname), cname), sn)[0].to_er7(ec)
                                        if val != sx:
                                            run.fail('subcomponent-parse-back-wrong', 'subcomponent not found under its '
                                                     'name after parsing', version=v, field=fname, component=cname,
                                                     subcomponent=sn, text=out, got=val)
                                        if v in model_versions and k % 3 == 0:
                                            cases.append(S.case_of(out, v, S.TOLERANT, ec))
                                        alt_check(run, seg, ec, exp, sx, [fname, cname, sn], version=v, field=fname,
                                                  component=cname, subcomponent=sn)
                                except Exception as ex:  # noqa
                                    run.fail('subcomponent-position-raises', 'assigning/encoding/parsing a defined '
                                             'subcomponent position raises', version=v, field=fname, component=cname,
                                             subcomponent=sn, exc=repr(ex))
        # every declared field / component row can be instantiated on its own
        for fname in sorted(lib.FIELDS):
            stats['instantiations'] += 1
            try:
                Field(fname, version=v)
            except Exception as ex:  # noqa
                run.fail('not-instantiable', 'a declared field cannot be instantiated', version=v, cls='Field',
                         name=fname, exc=repr(ex))
        for cname in sorted(lib.DATATYPES):
            stats['instantiations'] += 1
            try:
                Component(cname, version=v)
            except Exception as ex:  # noqa
                run.fail('not-instantiable', 'a declared component cannot be instantiated', version=v, cls='Component',
                         name=cname, exc=repr(ex))
        # open-ended segments: Z-segments and segments whose last field is varies, any index
        open_segs = ['ZXX', 'Z9A'] + [s for s in sorted(lib.SEGMENTS) if s != 'ANYHL7SEGMENT' and lib.SEGMENTS[s][1]
                                      and lib.SEGMENTS[s][1][-1][1][2] == 'varies']
        for sname in open_segs:
            n = len(lib.SEGMENTS[sname][1]) if sname in lib.SEGMENTS else 0
            idxs = list(range(1, 41)) + [n + 1, n + 2, 200, 1000] + ([10000] if run.thorough else [])
            for i in sorted(set(idxs)):
                if i <= n and sname in lib.SEGMENTS:
                    continue   # defined positions were covered above
                stats['open_ended_positions'] += 1
                fname = '%s_%d' % (sname, i)
                try:
                    seg = Segment(sname, version=v)
                    setattr(seg, fname, 'x')
                    out = seg.to_er7(ec)
                    if out != sname + F * i + 'x':
                        run.fail('open-ended-position-wrong', 'open-ended segment: value not at its index', version=v,
                                 segment=sname, index=i, output=out[:200] + '...' + out[-20:])
                        continue
                    back = parse_segment(out, version=v, encoding_chars=ec)
                    val = getattr(back, fname)[0].to_er7(ec)
                    if val != 'x' or back.to_er7(ec) != out:
                        run.fail('open-ended-parse-back-wrong', 'open-ended segment: value not parsed back at its index',
                                 version=v, segment=sname, index=i, got=val)
                    if v in model_versions and i <= 200:
                        cases.append(S.case_of(out, v, S.TOLERANT, ec))
                except Exception as ex:  # noqa
                    run.fail('open-ended-position-raises', 'open-ended segment: assigning/encoding/parsing raises',
                             version=v, segment=sname, index=i, exc=repr(ex))
        # components of varies fields and of fields the tables give no datatype: component k of the text is VARIES_k and is
        # encoded at position k, for any k (ten and more, gaps included)
        vfields = [(sn, row[0]) for sn in sorted(lib.SEGMENTS) if S.ok_segment(lib, sn) for row in lib.SEGMENTS[sn][1]
                   if row[1][0] == 'leaf' and row[1][2] in ('varies', None)]
        for sn, fname in vfields[:4] + [x for x in vfields if x[1] in ('OBX_5', 'MSA_5', 'OBX_20')]:
            i = int(fname.split('_')[1])
            for parts in (['c%d' % k for k in range(1, 13)], ['A', '', 'C'], [''] * 10 + ['K'], ['a', '', '', 'd', '', 'f', '', '', '', 'j', 'k']):
                stats['varies_component_texts'] = stats.get('varies_component_texts', 0) + 1
                text = sn + F * i + C.join(parts)
                try:
                    back = parse_segment(text, version=v, encoding_chars=ec)
                    out = back.to_er7(ec)
                    kids = [(c.name, c.to_er7(ec)) for c in getattr(back, fname)[0].children]
                    want = [('VARIES_%d' % (k + 1), p) for k, p in enumerate(parts)]
                    named = [k for k in kids if k[0] is not None]
                    if out != text or (named and [k for k in named if k[1]] != [w for w in want if w[1]]):
                        run.fail('component-position-wrong', 'a component of a varies / untyped field is not kept at its position',
                                 version=v, field=fname, component='VARIES_k', output=out, expected=text, children=kids[:14])
                except Exception as ex:  # noqa
                    run.fail('component-position-raises', 'parsing/encoding components of a varies / untyped field raises',
                             version=v, field=fname, component='VARIES_k', exc=repr(ex))
        # a declared base-datatype field that lost its datatype to a multi-component value (TOLERANT) and is valued again
        for sn, fn in (('PID', 'PID_1'), ('EVN', 'EVN_1')):
            if sn in lib.SEGMENTS:
                stats['revalued_fields'] = stats.get('revalued_fields', 0) + 1
                try:
                    seg = Segment(sn, version=v)
                    setattr(seg, fn, '1' + C + 'B')
                    getattr(seg, fn)[0].value = '1' + C + C + 'Z'
                    out = seg.to_er7(ec)
                    if out != sn + F + '1' + C + C + 'Z':
                        run.fail('component-position-wrong', 'a component of a field valued a second time is not kept at its position',
                                 version=v, field=fn, component='3rd of 1^^Z', output=out, expected=sn + F + '1' + C + C + 'Z')
                except Exception as ex:  # noqa
                    run.fail('component-position-raises', 'valuing a field a second time raises', version=v, field=fn,
                             component='3rd of 1^^Z', exc=repr(ex))
        # several positions of one segment assigned in ANY order each land at their own index
        import itertools
        for sname in open_segs[:6] + [s for s in ('PID', 'OBX', 'EVN') if s in lib.SEGMENTS]:
            n = len(lib.SEGMENTS[sname][1]) if sname in lib.SEGMENTS else 0
            is_open = sname in open_segs
            idx_pool = [2, 7, 120] if is_open and n < 7 else ([2, min(n, 5), n] if n >= 3 else [1])
            if is_open and n >= 7:
                idx_pool = [2, n + 3, n + 40]
            idx_pool = sorted(set(i for i in idx_pool if i >= 1))
            for perm in itertools.permutations(idx_pool):
                stats['multi_assign_orders'] = stats.get('multi_assign_orders', 0) + 1
                try:
                    seg = Segment(sname, version=v)
                    for i in perm:
                        setattr(seg, '%s_%d' % (sname, i), 'v%d' % i)
                    out = seg.to_er7(ec)
                    parts = out.split(F)
                    got = {i: (parts[i] if i < len(parts) else None) for i in idx_pool}
                    want = {i: 'v%d' % i for i in idx_pool}
                    others = [p for j, p in enumerate(parts[1:], 1) if j not in idx_pool and p]
                    if got != want or others:
                        run.fail('multi-assign-position-wrong', 'values assigned to several positions of one segment (in '
                                 'the order given) are not all encoded at their own indices', version=v, segment=sname,
                                 order=list(perm), output=out[:300], open_ended=is_open)
                except Exception as ex:  # noqa
                    if not (isinstance(ex, Exception) and sname in ('PID', 'OBX', 'EVN') and False):
                        run.fail('multi-assign-raises', 'assigning several positions of one segment raises', version=v,
                                 segment=sname, order=list(perm), exc=repr(ex))
    run.log('implementation sweep done: %s, %d failures' % (stats, len(run.failures)))
    evaluated = S.run_model(run, cases, 'c02', per_file=700)
    run.log('model evaluated %d position texts (%s), %d disagreements'
            % (evaluated, sorted(model_versions), len(run.disagreements)))
    total = sum(stats.values())
    samples = [{'version': c['v'], 'text': c['text'][:120], 'dump': c['dump'][:200]}
               for c in cases[:: max(1, len(cases) // 5)][:5]]
    run.finish({
        'evaluations': total,
        'distinct_nontrivial': stats['field_positions'] + stats['component_positions'] + stats['subcomponent_positions'],
        'rule': 'exhaustive on the implementation: every field index of every segment of every version; every component '
                'and subcomponent of every complex datatype (once per version and datatype); instantiation of every '
                'declared segment, field and component; open-ended segments at indices 1..40, n+1, n+2, 200, 1000; '
                'non-trivial/distinct = distinct defined positions; the Coq model re-parses the position texts of %s'
                % ('all versions' if run.thorough else 'three seed-chosen versions'),
        'samples': samples,
        'exhaustive': True,
        'traces_validated_against_impl': evaluated,
        'input_distribution': stats,
        'model_versions': sorted(model_versions),
    }, assumptions=['TOLERANT level; default delimiters; MSH-1/MSH-2 positions are fixed by the header and are C07\'s'])


if __name__ == '__main__':
    from common import run_guarded
    run_guarded('C02', main)
