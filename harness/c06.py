"""C06 - escaping is delimiter-safe and idempotent for every delimiter set.

Obligations: coq/Properties/C06.v (general theorems about Model/Escape.v + parameter obligations
over the regenerated Gen/Params.v).  Correspondence: the model's `escape` is evaluated inside coqc
on the same (class family, delimiter set, string) cases as every textual datatype class of every
version.  Oracle: the property's own clauses evaluated on the implementation.
"""
import itertools
import os
import string
import sys

sys.path.insert(0, os.path.dirname(__file__))
from common import Run, use_repo, coq_eval_many, parse_nat_lists, shard
from coqgen import coq_str, coq_byte, coq_opt

use_repo()

PUNCT = [c for c in string.punctuation if c not in '.']   # '.' is needed by version strings / fractions
SPEC_LETTERS = 'HNFSTRE'


def textual_classes():
    """(version, name, cls, family) for every textual base datatype class of every version; the
    family id is recomputed exactly as harness/gen_params.py does, so it indexes Params.esc_families."""
    import hl7apy
    from hl7apy.base_datatypes import TextualDataType
    import gen_params
    fams = {}
    out = []
    versions = sorted(hl7apy.SUPPORTED_LIBRARIES.keys(), key=lambda v: [int(x) for x in v.split('.')])
    for v in versions:
        bdt = hl7apy.load_library(v).get_base_datatypes()
        for name in sorted(bdt):
            cls = bdt[name]
            if isinstance(cls, type) and issubclass(cls, TextualDataType):
                fam = gen_params.esc_family(cls)
                fid = fams.setdefault(fam, len(fams))
                out.append((v, name, cls, fid))
    return out, fams


def ec_dict(ec):
    f, c, r, e, s, t = ec
    d = {'FIELD': f, 'COMPONENT': c, 'REPETITION': r, 'ESCAPE': e, 'SUBCOMPONENT': s,
         'SEGMENT': '\r', 'GROUP': '\r'}
    if t is not None:
        d['TRUNCATION'] = t
    return d


def ec_term(ec):
    f, c, r, e, s, t = ec
    return '(mk_ec %s %s %s %s %s %s)' % (coq_byte(f), coq_byte(c), coq_byte(r), coq_byte(e), coq_byte(s),
                                          coq_opt(t, coq_byte))


def tokens_ok(out, esc, letters):
    i = 0
    while i < len(out):
        if out[i] == esc:
            if i + 2 < len(out) and out[i + 1] in letters and out[i + 2] == esc:
                i += 3
                continue
            return False
        i += 1
    return True


def random_ec(rng, with_trunc):
    chars = rng.sample(PUNCT, 6)
    return tuple(chars[:5]) + ((chars[5],) if with_trunc else (None,))


def gen_inputs(run, ec):
    """Strings for one delimiter set: exhaustive short strings over an adversarial alphabet, plus
    random longer ones."""
    f, c, r, e, s, t = ec
    # without a truncation character '#' is an ordinary character (it is the default truncation character of v2.7+)
    alpha = [f, c, s, r, e, 'H', 'E', 'a'] + ([t, 'L'] if t else (['#', 'L'] if '#' not in ec else ['x']))
    n = 4 if not run.thorough else 5
    outs = ['']
    for k in range(1, n + 1):
        for tup in itertools.product(alpha, repeat=k):
            outs.append(''.join(tup))
    return outs


def gen_random_inputs(run, ec, count):
    f, c, r, e, s, t = ec
    alpha = [f, c, s, r, e, e, 'H', 'N', 'F', 'S', 'T', 'R', 'E', 'L', 'a', 'b', ' ', '1', 'X'] + ([t] if t else [])
    # characters that delimit in other sets but are ordinary text under this one
    alpha += [x for x in ('#', '|', '^', '&', '~') if x not in ec][:2]
    outs = []
    for _ in range(count):
        k = run.rng.randint(5, 14)
        outs.append(''.join(run.rng.choice(alpha) for _ in range(k)))
    # well-formed escaped texts: ordinary characters and tokens
    for _ in range(count // 4):
        parts = []
        for _ in range(run.rng.randint(1, 6)):
            if run.rng.random() < 0.5:
                parts.append(e + run.rng.choice(SPEC_LETTERS) + e)
            else:
                parts.append(run.rng.choice(['a', 'bc', ' ', '12']))
        outs.append(''.join(parts))
    return outs


def check_case(run, classes_of_family, fid, ec, s):
    """Run one (family, delimiter set, string) case through every class of the family; return the
    common output (or None when the classes disagree) and evaluate the property's clauses."""
    d = ec_dict(ec)
    f, c, r, e, sb, t = ec
    outs = set()
    for (v, name, cls) in classes_of_family[fid]:
        if name == 'TN':
            continue
        try:
            o = cls(s).to_er7(d)
        except Exception as ex:   # noqa
            run.fail('escape-raises', 'to_er7 of a textual datatype raised', version=v, cls=name, ec=ec, input=s,
                     exc=repr(ex))
            continue
        outs.add(o)
        letters = SPEC_LETTERS + ('L' if v >= '2.7' else '')
        delims = [f, c, sb, r] + ([t] if (t is not None and v >= '2.7') else [])
        leak = [x for x in delims if x in o]
        if leak:
            run.fail('delimiter-leak', 'encoded textual leaf contains an unescaped delimiter',
                     version=v, cls=name, ec=ec, input=s, output=o, leaked=leak)
        try:
            o2 = cls(o).to_er7(d)
        except Exception as ex:  # noqa
            o2 = repr(ex)
        if o2 != o:
            run.fail('not-idempotent', 'already escaped text is changed when encoded again',
                     version=v, cls=name, ec=ec, input=s, output=o, output2=o2)
        if tokens_ok(s, e, letters) and not any(x in s for x in delims) and o != s:
            run.fail('escaped-text-changed', 'text consisting of ordinary characters and escape sequences is not '
                     'emitted unchanged', version=v, cls=name, ec=ec, input=s, output=o)
        if v < '2.7' and (e + 'L' + e) in s:
            rest = s.replace(e + 'L' + e, '')
            if e not in rest and not any(x in s for x in delims):
                # before v2.7 <esc>L<esc> is no escape sequence: both escape characters are escaped
                want = s.replace(e + 'L' + e, e + 'E' + e + 'L' + e + 'E' + e)
                if o != want:
                    run.fail('pre27-L-sequence-kept', 'before v2.7 the characters <esc>L<esc> are ordinary text whose escape '
                             'characters must be escaped', version=v, cls=name, ec=ec, input=s, output=o, expected=want)
        if not tokens_ok(o, e, letters):
            run.fail('esc-outside-token', 'an escape character of the output is outside any escape sequence',
                     version=v, cls=name, ec=ec, input=s, output=o, input_has_escape=(e in s))
    if len(outs) == 1:
        return outs.pop()
    if len(outs) > 1:
        run.disagree('escape-family', why='classes of one escape family give different outputs',
                     family=fid, ec=ec, input=s, outputs=sorted(outs))
    return None


def factory_fallback_oracle(run):
    """Under TOLERANT a value that is invalid for a non-textual datatype is kept as text: that text is escaped like any
    other textual leaf of the version (same output as the version's ST)."""
    import hl7apy
    from hl7apy.factories import datatype_factory
    n = 0
    for v in sorted(hl7apy.SUPPORTED_LIBRARIES, key=lambda x: [int(y) for y in x.split('.')]):
        lib = hl7apy.load_library(v)
        bdt = lib.get_base_datatypes()
        ecs = [('|', '^', '~', '\\', '&', '#' if v >= '2.7' else None), random_ec(run.rng, v >= '2.7')]
        for ec in ecs:
            d = ec_dict(ec)
            f, c, r, e, sb, t = ec
            for dt in ('NM', 'SI', 'DT', 'TM', 'DTM'):
                if dt not in bdt:
                    continue
                for text in ['n' + (t or '#') + 'a', 'a' + f + 'b', 'x' + c + 'y' + sb + 'z', 'q' + e + 'L' + e + 'r', r + 'w',
                             'p' + e + 'q']:
                    n += 1
                    try:
                        want = bdt['ST'](text).to_er7(d)
                        got = datatype_factory(dt, text, v, 2).to_er7(d)
                    except Exception as ex:  # noqa
                        run.fail('escape-raises', 'the TOLERANT fall-back of datatype_factory raised', version=v, cls=dt, ec=ec,
                                 input=text, exc=repr(ex))
                        continue
                    if got != want:
                        run.fail('fallback-encoded-differently', 'an invalid value kept as text by datatype_factory (TOLERANT) is '
                                 'not escaped like a textual leaf of its version', version=v, cls=dt, ec=ec, input=text,
                                 output=got, as_st=want)
    return n


def element_level_oracle(run):
    """Clauses that involve the element tree: a value assigned through a datatype object never
    changes the number of fields/components/subcomponents/repetitions, and a leaf read from a
    parsed segment re-encodes to the text it came from."""
    import hl7apy
    from hl7apy.core import Segment
    from hl7apy.parser import parse_segment
    n = 0
    for v in ('2.3', '2.5', '2.7', '2.8.2'):
        lib = hl7apy.load_library(v)
        ST = lib.get_base_datatypes()['ST']
        for k in range(6 if not run.thorough else 40):
            ec = random_ec(run.rng, v >= '2.7' and k % 2 == 0) if k else \
                (('|', '^', '~', '\\', '&', '#') if v >= '2.7' else ('|', '^', '~', '\\', '&', None))
            d = ec_dict(ec)
            f, c, r, e, sb, t = ec
            for s in gen_random_inputs(run, ec, 12):
                if not s.strip():
                    continue
                n += 1
                def build(val):
                    seg = Segment('PID', version=v)
                    seg.pid_1 = '1'
                    seg.pid_23 = ST(val)
                    seg.pid_24 = 'Y'
                    return seg.to_er7(d)
                out, base = build(s), build('x')
                cnt = (out.count(f), out.count(c), out.count(sb), out.count(r))
                cnt0 = (base.count(f), base.count(c), base.count(sb), base.count(r))
                if cnt != cnt0:
                    run.fail('count-changed', 'a value assigned through a datatype object changed the number of '
                             'fields/components/subcomponents/repetitions', version=v, ec=ec, input=s, output=out,
                             counts=cnt)
                # the same through a datatype object assigned INSIDE a message that carries its own delimiters
                from hl7apy.core import Message
                if v >= '2.3.1' and k:
                    try:
                        m = Message('ADT_A01', version=v, encoding_chars=d)
                        m.msh.msh_7 = '20200101'
                        base_m = m.to_er7()
                        m.msh.msh_10 = ST(s)
                        out_m = m.to_er7()
                        m2 = Message('ADT_A01', version=v, encoding_chars=d)
                        m2.msh.msh_7 = '20200101'
                        m2.msh.msh_10 = ST('x')
                        ref_m = m2.to_er7()
                        cm = tuple(out_m.count(ch) for ch in (f, c, sb, r))
                        c0 = tuple(ref_m.count(ch) for ch in (f, c, sb, r))
                        if cm != c0:
                            run.fail('count-changed', 'a value assigned through a datatype object inside a message with '
                                     'its own delimiters changed the number of fields/components/subcomponents/'
                                     'repetitions', version=v, ec=ec, input=s, output=out_m, counts=cm, baseline=c0)
                        elif ST(s).to_er7(d) not in out_m:
                            run.fail('datatype-object-encoded-differently', 'a datatype object assigned inside a message '
                                     'is not encoded with the message delimiters', version=v, ec=ec, input=s,
                                     output=out_m, expected_leaf=ST(s).to_er7(d))
                    except Exception as ex:  # noqa
                        run.fail('escape-raises', 'assigning a textual datatype object inside a message raised',
                                 version=v, cls='ST', ec=ec, input=s, exc=repr(ex))
                # delimiters changed AFTER construction (MSH-1/MSH-2 assigned directly): leaves are escaped with
                # the set the message declares now
                # (the two assignments pass through an intermediate set - new MSH-1 with the old MSH-2 - which the library
                #  rightly refuses when it holds a character twice: only sets whose field separator is none of the default
                #  MSH-2 characters are taken through this history)
                if v >= '2.3.1' and k and k % 3 == 0 and f not in '^~\\&#':
                    try:
                        m3 = Message('ADT_A01', version=v)
                        m3.msh.msh_7 = '20200101'
                        _ = m3.to_er7()
                        m3.msh.msh_1 = f
                        m3.msh.msh_2 = c + r + e + sb + (t if (t and v >= '2.7') else '')
                        m3.msh.msh_10 = ST(s)
                        out3 = m3.to_er7()
                        leaf3 = ST(s).to_er7(d if (t and v >= '2.7') or not t else {kk: vv for kk, vv in d.items() if kk != 'TRUNCATION'})
                        if leaf3 and leaf3 not in out3:
                            run.fail('datatype-object-encoded-differently', 'after MSH-1/MSH-2 were assigned new delimiters '
                                     'a textual leaf is not escaped with the set the message declares', version=v, ec=ec,
                                     input=s, output=out3, expected_leaf=leaf3)
                    except Exception as ex:  # noqa
                        run.fail('escape-raises', 'changing MSH-1/MSH-2 and encoding raised', version=v, cls='ST', ec=ec,
                                 input=s, exc=repr(ex))
                leaf = ST(s).to_er7(d)
                if leaf == leaf.strip() and leaf:
                    text = 'ZZZ' + f + leaf
                    try:
                        back = parse_segment(text, version=v, encoding_chars=d).to_er7(d)
                    except Exception as ex:  # noqa
                        back = repr(ex)
                    if back != text:
                        run.fail('reencode-differs', 'a leaf read from a parsed segment re-encodes to different text',
                                 version=v, ec=ec, input=text, output=back)
    return n


def main(argv=None):
    run = Run('C06', argv)
    if run.replay:
        return replay(run)
    ok = run.build(['Properties/C06.vo'], gen=('params',), obligation_files=['Properties/C06.v'])
    if ok:
        run.print_assumptions('Properties.C06', [n for n, _ in __import__('common').theorems_of('Properties/C06.v')])
    classes, fams = textual_classes()
    classes_of_family = {}
    seen = set()
    for v, name, cls, fid in classes:
        # a class is checked once per era: from v2.7 on the truncation character must be escaped as well,
        # so a class shared with older versions is judged again with the >= 2.7 expectations
        key = (id(cls), v >= '2.7')
        if key in seen:
            continue
        seen.add(key)
        classes_of_family.setdefault(fid, []).append((v, name, cls))
    # ---- cases
    cases = []   # (fid, ec, input, expected)
    dist = {'exhaustive_short': 0, 'random_long': 0, 'delimiter_sets': 0}
    for fid in sorted(classes_of_family):
        ecs = [('|', '^', '~', '\\', '&', None), ('|', '^', '~', '\\', '&', '#')]
        nrand = 6 if not run.thorough else 60
        for i in range(nrand):
            ecs.append(random_ec(run.rng, i % 2 == 0))
        for j, ec in enumerate(ecs):
            dist['delimiter_sets'] += 1
            ins = gen_inputs(run, ec) if j < 2 or (run.thorough and j < 6) else []
            dist['exhaustive_short'] += len(ins)
            rnd = gen_random_inputs(run, ec, 150 if not run.thorough else 600)
            dist['random_long'] += len(rnd)
            for s in ins + rnd:
                exp = check_case(run, classes_of_family, fid, ec, s)
                if exp is not None:
                    cases.append((fid, ec, s, exp))
    run.log('implementation side: %d cases, %d oracle failures so far' % (len(cases), len(run.failures)))
    n_elem = element_level_oracle(run)
    n_elem += factory_fallback_oracle(run)
    # ---- model side
    files = []
    shards = shard(cases, 1500)
    for k, sh in enumerate(shards):
        L = ['From Coq Require Import List NArith Init.Byte.',
             'From HL7 Require Import Lib.Str Model.Ec Model.Escape Gen.Params.',
             'Import ListNotations.', 'Open Scope bs_scope.',
             'Definition dflt := esc_family_0.',
             'Definition run1 (c : nat * ec * str * str) : bool :=',
             '  match c with (f, e, i, o) => streqb (escape (nth f esc_families dflt) e i) o end.',
             'Fixpoint failing (n : nat) (l : list (nat * ec * str * str)) : list nat :=',
             '  match l with [] => [] | c :: r => (if run1 c then [] else [n]) ++ failing (S n) r end.',
             'Definition cases : list (nat * ec * str * str) := [']
        rows = []
        for fid, ec, s, exp in sh:
            rows.append('(%d%%nat, %s, %s, %s)' % (fid, ec_term(ec), coq_str(s), coq_str(exp)))
        L.append(';\n'.join(rows))
        L.append('].')
        L.append('Eval vm_compute in failing 0 cases.')
        files.append(('c06_%d_%d' % (os.getpid(), k), '\n'.join(L) + '\n'))
    results = coq_eval_many(files)
    evaluated = 0
    for k, (rc, out) in enumerate(results):
        lists = parse_nat_lists(out)
        if rc != 0 or len(lists) != 1:
            run.disagree('escape', why='case file did not evaluate', shard=k, output=out[-800:])
            continue
        evaluated += len(shards[k])
        for idx in lists[0]:
            fid, ec, s, exp = shards[k][idx]
            run.disagree('escape', family=fid, ec=ec, input=s, implementation=exp)
    run.log('model side: %d cases evaluated by vm_compute, %d disagreements' % (evaluated, len(run.disagreements)))
    nontrivial = len({(fid, ec, s) for fid, ec, s, _ in cases if any(ch in s for ch in ec if ch)})
    samples = [{'family': fid, 'ec': ec, 'input': s, 'output': exp} for fid, ec, s, exp in
               (cases[:: max(1, len(cases) // 6)][:6])]
    run.finish({
        'evaluations': len(cases) + n_elem,
        'distinct_nontrivial': nontrivial,
        'rule': 'cases = (escape family, delimiter set, string); exhaustive strings of length <= %d over '
                '{delimiters, escape, H, E, a, (truncation, L)} for the default sets, random strings of length '
                '5-14 and random token texts for random punctuation sets; non-trivial = contains a delimiter or '
                'the escape character; every case is run through every textual class of the family '
                '(all versions) and through the Coq model' % (5 if run.thorough else 4),
        'samples': samples,
        'traces_validated_against_impl': evaluated,
        'input_distribution': dist,
        'classes': {str(fid): ['%s/%s' % (v, n) for v, n, _ in cl] for fid, cl in classes_of_family.items()},
        'element_level_cases': n_elem,
    }, assumptions=[
        'model fidelity is claimed for ASCII text; delimiters are punctuation characters other than "."',
        'highlights (constructor argument) are not modelled',
    ])


def replay(run):
    import json
    r = json.load(open(run.replay))
    inp = r.get('input', {})
    classes, _ = textual_classes()
    if 'ec' in inp and 'input' in inp and 'cls' in inp:
        ec = tuple(inp['ec'])
        for v, name, cls, fid in classes:
            if v == inp.get('version') and name == inp.get('cls'):
                check_case(run, {fid: [(v, name, cls)]}, fid, ec, inp['input'])
    for f in run.failures:
        print('replayed failure:', f['kind'], f['data'])
    run.finish({'evaluations': 1, 'distinct_nontrivial': 2, 'rule': 'replay of one stored case', 'samples': [inp]})


if __name__ == '__main__':
    from common import run_guarded
    run_guarded('C06', main)
