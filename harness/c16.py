"""C16 - MLLP: one framed request in, exactly one correctly routed reply out.

Obligations: coq/Properties/C16.v (theorems about Model/Mllp.v; the three block characters are the
regenerated Gen/Params.v).
Implementation side: real hl7apy.mllp.MLLPServer instances on 127.0.0.1 (ephemeral ports, background
threads) with logging handler classes; clients send frames split into TCP writes at chosen cut
positions with small delays, 1..N simultaneously behind a barrier.
Oracle: the property statement evaluated on what each connection observed (handler log attributed by a
per-connection token, reply bytes, closed) and on Message.to_mllp() of real Message objects.
Correspondence: the same (chunks, k0 in {1,2,3}, handler keys, has_err) cases with the observed outcome
are written into Coq case files and compared with Model.Mllp.serve by vm_compute; the frame regex of
the request handler is compared with Model.Mllp.extract on all short strings over {SB, EB, CR, a}.
Infrastructure trouble (connect refused, bind errors) is retried and never reported; a failure or a
disagreement is reported only when it shows again when the same connections are run a second time.
"""
import errno
import itertools
import json
import os
import re
import socket
import sys
import threading
import time

sys.path.insert(0, os.path.dirname(__file__))
from common import Run, use_repo, coq_eval_many, parse_nat_lists, shard, theorems_of
from coqgen import coq_str, coq_list, coq_opt, coq_bool

use_repo()

# the MLLP block characters as the PROPERTY names them (not read from hl7apy)
SB, EB, CR = b'\x0b', b'\x1c', b'\x0d'
HOST = '127.0.0.1'
SERVER_TIMEOUT = 2.0
SHARD = 300
TOKEN_RE = re.compile(r'Tk\d{6}X')

# Python exception class -> Model.Result.exn_code
EXC_CODE = {'ParserError': 1, 'InvalidEncodingChars': 2, 'InvalidName': 3, 'ChildNotFound': 4, 'ChildNotValid': 5,
            'MaxChildLimitReached': 6, 'OperationNotAllowed': 7, 'MaxLengthReached': 8, 'InvalidDateFormat': 9,
            'InvalidDateOffset': 10, 'InvalidMicrosecondsPrecision': 11, 'UnsupportedVersion': 12,
            'UnknownValidationLevel': 13, 'MessageProfileNotFound': 14, 'LegacyMessageProfile': 15,
            'InvalidHighlightRange': 16, 'ValidationError': 17, 'UnsupportedMessageType': 18,
            'InvalidHL7Message': 19, 'ValueError': 30, 'IndexError': 40, 'KeyError': 41, 'TypeError': 42,
            'AttributeError': 43}

# server configurations: (name, registered keys, keys whose reply() raises, has ERR handler)
CONFIGS = [
    ('A', ['ADT^A01', 'ORU^R01', 'RAI^SE', 'ADT^A01^ADT_A01'], ['RAI^SE'], True),
    ('B', ['ADT^A01', 'RAI^SE'], ['RAI^SE'], False),
]
CFG_INDEX = {c[0]: i for i, c in enumerate(CONFIGS)}


def exc_code(name):
    return EXC_CODE.get(name, 99)


def reply_text(key, code, payload):
    return 'ACK|%s|%d|%s' % (key, code, payload)


# ----------------------------------------------------------------------------------------------
# servers


class Srv(object):
    def __init__(self, name, keys, raising, has_err):
        self.name, self.keys, self.raising, self.has_err = name, keys, raising, has_err
        self.log = []        # (is_err, key, code, payload) appended by handler constructors
        self.escaped = []    # exception class names that escaped handle()
        self.server = None
        self.thread = None
        self.port = None

    def handlers(self):
        from hl7apy.mllp import AbstractHandler, AbstractErrorHandler
        log = self.log

        class LogHandler(AbstractHandler):
            def __init__(self, message, key):
                super(LogHandler, self).__init__(message)
                self.key = key
                log.append((False, key, 0, message))

            def reply(self):
                return reply_text(self.key, 0, self.incoming_message)

        class RaisingHandler(LogHandler):
            def reply(self):
                raise ValueError('handler failure')

        class LogErrHandler(AbstractErrorHandler):
            def __init__(self, exc, message):
                super(LogErrHandler, self).__init__(exc, message)
                log.append((True, 'ERR', exc_code(type(exc).__name__), message))

            def reply(self):
                return reply_text('ERR', exc_code(type(self.exc).__name__), self.incoming_message)

        h = {}
        for k in self.keys:
            h[k] = (RaisingHandler if k in self.raising else LogHandler, k)
        if self.has_err:
            h['ERR'] = (LogErrHandler,)
        return h

    def start(self):
        from hl7apy.mllp import MLLPServer
        last = None
        for attempt in range(8):
            try:
                srv = MLLPServer(HOST, 0, self.handlers(), timeout=SERVER_TIMEOUT)
                break
            except OSError as e:        # infrastructure: retry, never a violation
                last = e
                time.sleep(0.2 * (attempt + 1))
        else:
            raise RuntimeError('cannot start an MLLP server on loopback: %r' % (last,))
        srv.daemon_threads = True
        escaped = self.escaped

        def handle_error(request, client_address):     # socketserver's hook: keep stderr quiet, record
            escaped.append(sys.exc_info()[0].__name__ if sys.exc_info()[0] else '?')
        srv.handle_error = handle_error
        try:
            srv.socket.listen(256)      # many simultaneous clients: a larger accept backlog
        except OSError:
            pass
        self.server = srv
        self.port = srv.server_address[1]
        self.thread = threading.Thread(target=srv.serve_forever, kwargs={'poll_interval': 0.05})
        self.thread.daemon = True
        self.thread.start()
        # wait until it accepts
        for attempt in range(50):
            try:
                s = socket.create_connection((HOST, self.port), timeout=2)
                s.close()
                return
            except OSError:
                time.sleep(0.1)
        raise RuntimeError('MLLP server does not accept connections')

    def stop(self):
        try:
            self.server.shutdown()
            self.server.server_close()
        except Exception:   # noqa
            pass


def start_servers():
    out = {}
    for name, keys, raising, has_err in CONFIGS:
        s = Srv(name, keys, raising, has_err)
        s.start()
        out[name] = s
    return out


# ----------------------------------------------------------------------------------------------
# connections


class Spec(object):
    __slots__ = ('token', 'server', 'family', 'stream', 'cuts', 'delays', 'mode', 'expect', 'in_model')

    def __init__(self, token, server, family, stream, cuts=(), delays=(), mode='wait', expect=None, in_model=True):
        self.token, self.server, self.family, self.stream = token, server, family, stream
        self.cuts, self.delays, self.mode, self.expect, self.in_model = tuple(cuts), tuple(delays), mode, expect, in_model

    def chunks(self):
        pos = [0] + list(self.cuts) + [len(self.stream)]
        return [self.stream[a:b] for a, b in zip(pos, pos[1:]) if b > a]

    def data(self):
        d = {'server': self.server, 'family': self.family, 'token': self.token,
             'stream_hex': self.stream.hex(), 'stream': self.stream.decode('latin-1'),
             'cuts': list(self.cuts), 'delays_ms': list(self.delays), 'mode': self.mode,
             'expect': list(self.expect) if self.expect else None, 'in_model': self.in_model}
        if d['expect']:
            d['expect'] = [x.decode('latin-1') if isinstance(x, bytes) else x for x in d['expect']]
        return d

    @staticmethod
    def from_data(d):
        exp = d.get('expect')
        if exp:
            exp = tuple(exp[:2]) + tuple(x.encode('latin-1') for x in exp[2:])
        return Spec(d['token'], d['server'], d['family'], bytes.fromhex(d['stream_hex']), d['cuts'], d['delays_ms'],
                    d['mode'], exp, d.get('in_model', True))


class Tokens(object):
    def __init__(self):
        self.n = 0

    def new(self):
        self.n += 1
        return 'Tk%06dX' % self.n


def retoken(spec, tokens):
    t = tokens.new()
    old, new = spec.token.encode(), t.encode()
    exp = spec.expect
    if exp:
        exp = tuple(x.replace(old, new) if isinstance(x, bytes) else x for x in exp)
    return Spec(t, spec.server, spec.family, spec.stream.replace(old, new), spec.cuts, spec.delays, spec.mode, exp,
                spec.in_model)


CLOSED_ERRNOS = (errno.ECONNRESET, errno.EPIPE, errno.ECONNABORTED, errno.ESHUTDOWN, errno.ENOTCONN)


def run_conn(port, spec, barrier, out):
    """One client connection.  out: reply (bytes), closed (True / False / None = not observable),
    infra (str or None: the connection could not be made - never a finding)."""
    out.update({'reply': b'', 'closed': False, 'infra': None, 'send_error': None})
    s, last = None, None
    for attempt in range(6):
        try:
            s = socket.create_connection((HOST, port), timeout=5)
            break
        except OSError as e:
            last = e
            time.sleep(0.1 * (attempt + 1))
    try:
        barrier.wait(timeout=20)
    except threading.BrokenBarrierError:
        pass
    if s is None:
        out['infra'] = 'connect: %r' % (last,)
        return
    try:
        s.setsockopt(socket.IPPROTO_TCP, socket.TCP_NODELAY, 1)
        try:
            for i, ch in enumerate(spec.chunks()):
                if i and i - 1 < len(spec.delays) and spec.delays[i - 1]:
                    time.sleep(spec.delays[i - 1] / 1000.0)
                s.sendall(ch)
            if spec.mode == 'halfclose':
                s.shutdown(socket.SHUT_WR)
            elif spec.mode == 'abort':
                out['closed'] = None
                return
        except OSError as e:
            if e.errno in CLOSED_ERRNOS:
                out['send_error'] = errno.errorcode.get(e.errno)   # the server had already closed
            else:
                out['infra'] = 'send: %r' % (e,)
                return
        deadline = time.time() + SERVER_TIMEOUT + 12
        buf = []
        while True:
            rem = deadline - time.time()
            if rem <= 0:
                break
            s.settimeout(rem)
            try:
                d = s.recv(65536)
            except socket.timeout:
                break
            except OSError as e:
                if e.errno in CLOSED_ERRNOS:
                    out['closed'] = True        # RST counts as closed
                else:
                    out['infra'] = 'recv: %r' % (e,)
                break
            if not d:
                out['closed'] = True
                break
            buf.append(d)
        out['reply'] = b''.join(buf)
    finally:
        try:
            s.close()
        except OSError:
            pass


def run_groups(servers, groups, progress=None):
    """Run groups one after the other; the connections of a group run simultaneously (barrier after
    connect).  Returns {token: out}."""
    outs = {}
    for gi, g in enumerate(groups):
        barrier = threading.Barrier(len(g))
        ths = []
        for spec in g:
            o = {}
            outs[spec.token] = o
            t = threading.Thread(target=run_conn, args=(servers[spec.server].port, spec, barrier, o))
            t.daemon = True
            ths.append(t)
        for t in ths:
            t.start()
        for t in ths:
            t.join(SERVER_TIMEOUT + 60)
        if progress and gi % 200 == 0:
            progress(gi, len(groups))
    return outs


def attribute(servers, grace=0.4):
    """handler log entries by connection token; entries without a known token are returned apart"""
    time.sleep(grace)
    by_token, stray = {}, []
    for name, srv in servers.items():
        for ent in list(srv.log):
            toks = set(TOKEN_RE.findall(ent[3])) if isinstance(ent[3], str) else set()
            if len(toks) == 1:
                by_token.setdefault(toks.pop(), []).append(ent)
            else:
                stray.append((name,) + tuple(ent))
    return by_token, stray


def observation(spec, out, by_token):
    if out.get('infra') or 'reply' not in out:
        return None
    calls = [tuple(e) for e in by_token.get(spec.token, [])]
    return {'calls': calls, 'reply': out['reply'], 'closed': out['closed'], 'send_error': out.get('send_error')}


# ----------------------------------------------------------------------------------------------
# the oracle: the property statement on one connection's observation


def judge(spec, obs):
    """list of (kind, what).  Only what the property text states is flagged; spec.expect is None for
    inputs the property says nothing about (those are compared with the model only)."""
    if obs is None or spec.expect is None:
        return []
    fails = []
    exp = spec.expect
    calls, reply, closed = obs['calls'], obs['reply'], obs['closed']

    def text(b):
        return b.decode('utf-8', 'replace')
    foreign = [t for t in TOKEN_RE.findall(text(reply)) if t != spec.token]
    if foreign:
        fails.append(('foreign-reply', 'a client received bytes of a reply that belongs to another client'))
    if closed is False:
        fails.append(('not-closed', 'the server did not close the connection'))
    if exp[0] == 'handler':
        key, payload = exp[1], text(exp[2])
        if len(calls) != 1:
            fails.append(('handler-count', 'a well-framed message with a registered MSH-9 caused %d handler '
                          'invocations instead of exactly one' % len(calls)))
        elif calls[0][0] or calls[0][1] != key:
            fails.append(('wrong-handler', 'the message was not routed to the handler registered for its MSH-9'))
        elif calls[0][3] != payload:
            fails.append(('payload-differs', 'the handler did not receive exactly the text that was framed'))
        if reply != reply_text(key, 0, payload).encode('utf-8') and not foreign:
            fails.append(('reply-differs', 'the client did not receive exactly the reply of the handler registered '
                          'for its message'))
    elif exp[0] == 'err':
        cls, payload = exp[1], text(exp[2])
        if len(calls) != 1:
            fails.append(('handler-count', 'a well-framed message without a registered handler caused %d handler '
                          'invocations instead of exactly one (ERR)' % len(calls)))
        elif not calls[0][0]:
            fails.append(('wrong-handler', 'a message without registered handler was not routed to the ERR handler'))
        elif calls[0][2] != exc_code(cls):
            fails.append(('wrong-exception', 'the ERR handler did not receive %s' % cls))
        elif calls[0][3] != payload:
            fails.append(('payload-differs', 'the ERR handler did not receive exactly the text that was framed'))
        if reply != reply_text('ERR', exc_code(cls), payload).encode('utf-8') and not foreign:
            fails.append(('reply-differs', 'the client did not receive exactly the reply of the ERR handler'))
    elif exp[0] == 'silent':      # unroutable message, no ERR handler registered
        if calls:
            fails.append(('handler-count', 'a message without registered handler caused a handler invocation although '
                          'no ERR handler is registered'))
        if reply:
            fails.append(('reply-differs', 'bytes were written although no handler exists for the message'))
    elif exp[0] == 'reject':
        if calls:
            fails.append(('handler-on-malformed', 'malformed input (%s) caused a handler invocation' % spec.family))
        if reply:
            fails.append(('reply-on-malformed', 'malformed input (%s) got a reply' % spec.family))
    return fails


# ----------------------------------------------------------------------------------------------
# inputs


LONG_TPL = ('MSH|^~\\&|REC APP|REC FAC|SENDING APP|SENTING FAC|20110708163513||%s|%s|D|2.5|||||ITA||EN\r'
            'QPD|IHE PDQ Query|111069|@PID.3.1^1||||\rRCP|I|')
LONG2_TPL = ('MSH|^~\\&|SENDING APP|SENDING FAC|REC APP|REC FAC|20110708163514||%s|%s|D|2.5|||||ITA||EN\r'
             'MSA|AA|26775702551812240|\rQAK|1|OK||1|1|0\r'
             'PID|1||1^^^lis||MOUSE^MICKEY^^^^^A||19690113|M|||VIA VIA^^CAGLIARI^^^100^H^^|||||||MOSMCK|||||CAGLIARI|||||')


def frame(p, cr=True):
    return SB + p + (CR if cr else b'') + EB + CR


def payload_templates():
    """(family, payload maker token->bytes, routing class) ; routing class in
    registered:<key> | unregistered | nonhl7 | silent-model (property silent: model comparison only)"""
    def b(s):
        return s.encode('ascii')
    T = []
    T.append(('registered-short', lambda t: b('MSH|^~\\&|||||||ADT^A01|' + t), 'registered:ADT^A01'))
    T.append(('registered-long', lambda t: b(LONG_TPL % ('ORU^R01', t)), 'registered:ORU^R01'))
    T.append(('registered-long2', lambda t: b(LONG2_TPL % ('ADT^A01', t)), 'registered:ADT^A01'))
    T.append(('registered-othersep', lambda t: b('MSH#^~\\&#a#b#c#d#e##ADT^A01#' + t + '#P#2.5'), 'registered:ADT^A01'))
    T.append(('registered-padded', lambda t: b('MSH|^~\\&|' + t + '||||||  ADT^A01 |1|P|2.5\rEVN|A01'), 'registered:ADT^A01'))
    T.append(('registered-27', lambda t: b('MSH|^~\\&#|a|b|c|d|e||ADT^A01|' + t + '|P|2.7'), 'registered:ADT^A01'))
    # line feeds are ordinary payload bytes (multi-line NTE text, CR LF terminated senders)
    T.append(('registered-linefeed', lambda t: b('MSH|^~\\&|a|b|c|d|e||ADT^A01|' + t + '|P|2.5\rNTE|1||line one\nline two\r\nPID|1'), 'registered:ADT^A01'))
    T.append(('unregistered-short', lambda t: b('MSH|^~\\&|||||||ACK^A99|' + t), 'unregistered'))
    T.append(('unregistered-long', lambda t: b(LONG_TPL % ('QBP^Q22^QBP_Q21', t)), 'unregistered'))
    T.append(('unregistered-nomsh9', lambda t: b('MSH|^~\\&|' + t), 'unregistered'))
    T.append(('unregistered-case', lambda t: b('MSH|^~\\&|||||||adt^a01|' + t), 'unregistered'))
    T.append(('nonhl7-text', lambda t: b('hello world ' + t), 'nonhl7'))
    T.append(('nonhl7-segment', lambda t: b('PID|1||' + t + '\rPV1|1'), 'nonhl7'))
    T.append(('nonhl7-mshspace', lambda t: b('MSH ^~\\&|||||||ADT^A01|' + t), 'nonhl7'))
    T.append(('nonhl7-lower', lambda t: b('msh|^~\\&|||||||ADT^A01|' + t), 'nonhl7'))
    # the property names no exception class for these: compared with the model only
    T.append(('badmsh-duplicate', lambda t: b('MSH|^^\\&|||||||ADT^A01|' + t), 'silent-model'))
    T.append(('badmsh-short', lambda t: b('MSH|^~|||||||ADT^A01|' + t), 'silent-model'))
    T.append(('badmsh-5-before-27', lambda t: b('MSH|^~\\&#|a|b|c|d|e||ADT^A01|' + t + '|P|2.5'), 'silent-model'))
    T.append(('handler-raises', lambda t: b('MSH|^~\\&|||||||RAI^SE|' + t), 'silent-model'))
    return T


def expect_for(routing, server_has_err, payload_in_frame, server_keys=None):
    if routing.startswith('registered:') and (server_keys is None or routing.split(':', 1)[1] in server_keys):
        return ('handler', routing.split(':', 1)[1], payload_in_frame)
    if routing.startswith('registered:'):
        routing = 'unregistered'
    if routing == 'silent-model':
        return None
    cls = 'UnsupportedMessageType' if routing == 'unregistered' else 'InvalidHL7Message'
    if server_has_err:
        return ('err', cls, payload_in_frame)
    return ('silent',)


def all_cuts(n, k):
    return itertools.combinations(range(1, n), k)


def random_cuts(rng, n, k):
    k = min(k, n - 1)
    return tuple(sorted(rng.sample(range(1, n), k))) if k > 0 else ()


def delays_for(rng, cuts, fast=False):
    ds = []
    for i, c in enumerate(cuts):
        if i == 0 and c <= 3:
            ds.append(rng.choice([5, 10]))        # let the first recv(3) really see 1, 2 or 3 bytes
        elif fast:
            ds.append(rng.choice([0, 0, 0, 0, 0, 1]))
        else:
            ds.append(rng.choice([0, 0, 0, 1, 1, 2, 5, 10]))
    return tuple(ds)


def build_specs(run, tokens):
    rng = run.rng
    th = run.thorough
    specs = []
    stats = {}

    def add(family, server, stream, cuts, expect, mode='wait', token=None, in_model=True, fast=False):
        stats[family] = stats.get(family, 0) + 1
        specs.append(Spec(token, server, family, stream, cuts, delays_for(rng, cuts, fast), mode, expect, in_model))

    has_err = {c[0]: c[3] for c in CONFIGS}
    keys_of = {c[0]: c[1] for c in CONFIGS}
    for fam, mk, routing in payload_templates():
        for server in ('A', 'B'):
            probe = frame(mk('Tk000000X'))
            n = len(probe)
            plans = []
            short = n <= 40
            if fam == 'registered-short' and server == 'A':
                plans += [c for c in all_cuts(n, 1)] + [c for c in all_cuts(n, 2)]
                if th:
                    plans += [c for c in all_cuts(n, 3)]
                else:
                    plans += [random_cuts(rng, n, 3) for _ in range(500)]
            elif short:
                plans += [c for c in all_cuts(n, 1)]
                if th:
                    plans += [c for c in all_cuts(n, 2)]
                    if server == 'A' and fam in ('unregistered-short', 'nonhl7-text'):
                        plans += [c for c in all_cuts(n, 3)]
                    else:
                        plans += [random_cuts(rng, n, 3) for _ in range(200)]
                else:
                    plans += [random_cuts(rng, n, rng.choice([2, 3])) for _ in range(100 if server == 'A' else 15)]
            else:
                cnt = (500 if th else 30) if server == 'A' else (100 if th else 8)
                plans += [()] + [random_cuts(rng, n, rng.randint(1, 8)) for _ in range(cnt)]
                plans += [(1,), (2,), (3,), (1, 2), (1, 2, 3), (n - 1,), (n - 2,), (n - 3, n - 1)]
            plans.append(())
            for cuts in plans:
                t = tokens.new()
                p = mk(t)
                cr = rng.random() < 0.85 or fam == 'registered-short'
                st = frame(p, cr)
                if not cr:
                    cuts = tuple(c for c in cuts if c < len(st))
                body = st[1:-2]
                mode = 'halfclose' if rng.random() < 0.3 else 'wait'
                add(fam + ('' if cr else '-nocr'), server, st, cuts, expect_for(routing, has_err[server], body, keys_of[server]),
                    mode, token=t, fast=len(plans) > 300)

    # ---- malformed input: the property says "no handler, closed"
    def short_frame(t):
        return frame(('MSH|^~\\&|||||||ADT^A01|' + t).encode())

    def long_frame(t):
        return frame((LONG_TPL % ('ORU^R01', t)).encode())
    for server in ('A', 'B'):
        reps = (6 if th else 2) if server == 'A' else 1
        # no start block first
        for _ in range(reps):
            for variant in range(7):
                t = tokens.new()
                f = short_frame(t)
                st = [f[1:], b'x' + f, EB + CR + f, CR + f, b'MSH|' + t.encode() + b'\r', b' ' + f, b'\x0c' + f][variant]
                for cuts in [(), (1,), (2,), (3,), random_cuts(rng, len(st), 3)]:
                    add('no-start-block', server, st.replace(t.encode(), (t2 := tokens.new()).encode()), cuts,
                        ('reject',), rng.choice(['wait', 'halfclose']), token=t2)
        add('empty-input', server, b'', (), ('reject',), 'halfclose', token=tokens.new())
        # truncated frames, the client closes its sending side: every proper prefix of a short frame
        n = len(short_frame('Tk000000X'))
        for L in range(1, n):
            t = tokens.new()
            st = short_frame(t)[:L]
            cutsets = [()] + ([random_cuts(rng, L, 2)] if L > 3 else []) + ([(1,)] if L > 1 else [])
            for cuts in (cutsets if (th or server == 'A') else cutsets[:1]):
                t2 = tokens.new()
                add('truncated-eof', server, st.replace(t.encode(), t2.encode()), cuts, ('reject',), 'halfclose', token=t2)
        for _ in range((40 if th else 10) if server == 'A' else 3):
            t = tokens.new()
            f = long_frame(t)
            L = rng.choice([len(f) - 1, len(f) - 2, len(f) - 3, rng.randint(1, len(f) - 1)])
            add('truncated-eof', server, f[:L], random_cuts(rng, L, rng.randint(0, 4)), ('reject',), 'halfclose', token=t)
        # truncated frame, the client stalls (keeps the socket open): the server's time-out must end it
        for _ in range((12 if th else 4) if server == 'A' else 2):
            t = tokens.new()
            f = rng.choice([short_frame, long_frame])(t)
            L = rng.choice([1, 2, 3, len(f) - 1, len(f) - 2, rng.randint(1, len(f) - 1)])
            add('truncated-stall', server, f[:L], random_cuts(rng, L, rng.randint(0, 2)), ('reject',), 'wait', token=t)
        add('empty-stall', server, b'', (), ('reject',), 'wait', token=tokens.new())
        # truncated frame, the client closes abruptly (closing of the server side is not observable)
        for _ in range((12 if th else 4) if server == 'A' else 2):
            t = tokens.new()
            f = short_frame(t)
            L = rng.randint(1, len(f) - 1)
            add('truncated-abort', server, f[:L], random_cuts(rng, L, 1), ('reject',), 'abort', token=t)
        # bytes that are not UTF-8
        for _ in range((30 if th else 8) if server == 'A' else 3):
            t = tokens.new()
            p = ('MSH|^~\\&|||||||ADT^A01|' + t).encode()
            i = rng.randint(0, len(p))
            bad = rng.choice([b'\xff', b'\xff', b'\x80', b'\xfe', b'\xc0', b'\xf5'])
            st = frame(p[:i] + bad + p[i:])
            add('undecodable', server, st, random_cuts(rng, len(st), rng.randint(0, 3)), ('reject',),
                rng.choice(['wait', 'halfclose']), token=t)
        t = tokens.new()
        add('undecodable', server, frame(b'\xc3|' + t.encode()), (), ('reject',), 'wait', token=t)
        t = tokens.new()
        add('undecodable', server, frame(('MSH|^~\\&|||||||ADT^A01|' + t).encode() + b'\xc3'), (2,), ('reject',), 'wait', token=t)

        # ---- inputs the property text does not speak about: model comparison only
        for _ in range((10 if th else 3) if server == 'A' else 1):
            for variant in range(9):
                t = tokens.new()
                p = ('MSH|^~\\&|||||||ADT^A01|' + t).encode()
                q = ('MSH|^~\\&|||||||ORU^R01|' + t).encode()
                st = [SB + EB + CR + t.encode(),                      # empty body
                      SB + EB + CR + frame(p),                         # empty frame, then a frame
                      SB + CR + p + CR + EB + CR,                      # leading empty line
                      SB + p + CR + CR + EB + CR,                      # trailing empty line
                      SB + p + CR + CR + q + CR + EB + CR,             # empty line inside
                      frame(p) + frame(q),                             # two frames back to back: only the first
                      frame(p) + b'trailing ' + t.encode(),            # bytes after the frame
                      frame(p + b'\rZZZ|a' + EB),                      # EB CR inside the payload: cut short
                      frame(p + b'\rZZZ|a' + EB + b'b'),               # a lone EB inside the payload: kept
                      ][variant]
                fam = ['empty-body', 'empty-then-frame', 'leading-empty-line', 'trailing-empty-line', 'inner-empty-line',
                       'two-frames', 'trailing-bytes', 'eb-cr-in-payload', 'eb-in-payload'][variant]
                if variant in (5, 6, 7):
                    # everything after the first frame travels with its last byte (else the server may
                    # answer the late bytes with RST, which is not what is being observed here)
                    first = len(frame(p)) if variant != 7 else len(st) - 2
                    cutsets = [(), (1,), (2, first - 2), random_cuts(rng, first, 2)]
                else:
                    cutsets = [(), (1,), (2,), (3,), random_cuts(rng, len(st), 2)]
                for cuts in cutsets:
                    t2 = tokens.new()
                    add(fam, server, st.replace(t.encode(), t2.encode()), cuts, None,
                        'wait' if variant in (5, 6, 7) else rng.choice(['wait', 'halfclose']), token=t2)
        # MSH-9 equal to the reserved key 'ERR': what happens depends on the error handler's constructor
        # (it is constructed like a message handler, with one argument); recorded, not judged
        t = tokens.new()
        add('msh9-is-ERR', server, frame(('MSH|^~\\&|||||||ERR|' + t).encode()), (), None, 'wait', token=t, in_model=False)
        # valid UTF-8 beyond ASCII: outside the model's domain, the property still applies
        for _ in range(6 if th else 2):
            t = tokens.new()
            p = ('MSH|^~\\&|||||||ADT^A01|' + t + '|P|2.5\rPID|||1||Jérôme^Müller €').encode('utf-8')
            st = frame(p)
            add('utf8-registered', server, st, random_cuts(rng, len(st), rng.randint(0, 4)),
                ('handler', 'ADT^A01', st[1:-2]), 'wait', token=t, in_model=False)
    return specs, stats


def pack_groups(run, specs):
    """simultaneous clients: groups of 1..N connections with distinct messages; stalled clients are put
    together (each costs the server time-out)"""
    rng = run.rng
    nmax = 32 if run.thorough else 8
    slow = [s for s in specs if s.family.endswith('-stall')]
    fast = [s for s in specs if not s.family.endswith('-stall')]
    rng.shuffle(fast)
    groups = []
    sizes = [1, 2, 3, nmax // 2, nmax, nmax, nmax, nmax]
    i = 0
    while i < len(fast):
        k = rng.choice(sizes)
        groups.append(fast[i:i + k])
        i += k
    for j in range(0, len(slow), nmax):
        groups.append(slow[j:j + nmax])
    return groups


# ----------------------------------------------------------------------------------------------
# to_mllp on real Message objects


def framing_cases(run):
    """(er7 text, kwargs description, observed to_mllp) for real messages; oracle on the spot"""
    from hl7apy.parser import parse_message
    from hl7apy.core import Message
    from hl7apy.consts import VALIDATION_LEVEL
    texts = [LONG_TPL % ('QBP^Q22^QBP_Q21', '1'), LONG2_TPL % ('RSP^K22^RSP_K21', '2'),
             'MSH|^~\\&|SEND|FAC|REC|FAC|20240101||ADT^A01^ADT_A01|42|P|2.5\rEVN|A01|20240101\rPID|1||123^^^HOSP||DOE^JOHN',
             'MSH|^~\\&|A|B|C|D|20240101||ORU^R01^ORU_R01|7|P|2.4\rPID|1||9\rOBR|1\rOBX|1|ST|X||value',
             'MSH|^~\\&#|A|B|C|D|20240101||ADT^A01^ADT_A01|8|P|2.7\rEVN||20240101\rPID|1||5||X^Y',
             'MSH|^~\\&|A|B|C|D|20240101||ACK|9|P|2.3\rMSA|AA|9',
             # messages that carry their own (non-default) delimiters
             'MSH$%~\\&$SEND$FAC$REC$FAC$20240101$$QBP%Q22%QBP_Q21$43$P$2.5\rQPD$IHE PDQ Query$111069$@PID.5.1%SMITH\rRCP$I',
             'MSH!@*?:!A!B!C!D!20240101!!ADT@A01@ADT_A01!44!P!2.6\rEVN!!20240101\rPID!1!!5@@@H:1:I!!X@Y*Z@W',
             'MSH!@*?:+!A!B!C!D!20240101!!ADT@A01@ADT_A01!45!P!2.7\rEVN!!20240101\rPID!1!!5!!X@Y']
    cases = []
    objs = []
    n = 0
    for txt in texts:
        for fg in (False, True):
            try:
                m = parse_message(txt, find_groups=fg)
            except Exception as ex:   # noqa  (not this property's business)
                run.note('framing: parse_message failed on a sample: %r' % (ex,))
                continue
            kws = [{}, {'trailing_children': True}]
            if '2.7' not in txt:
                kws.append({'encoding_chars': {'FIELD': '!', 'COMPONENT': '@', 'SUBCOMPONENT': '%', 'REPETITION': '*',
                                               'ESCAPE': '$', 'SEGMENT': '\r', 'GROUP': '\r'}})
            for kw in kws:
                try:
                    er7 = m.to_er7(**kw)
                    got = m.to_mllp(**kw)
                except Exception as ex:  # noqa
                    run.note('framing: to_er7/to_mllp raised on a sample: %r' % (ex,))
                    continue
                n += 1
                want = '\x0b' + er7 + '\r' + '\x1c' + '\r'
                if got != want:
                    run.fail('to-mllp-shape', 'to_mllp() is not start-block + to_er7() + CR + end-block + CR',
                             text=txt, find_groups=fg, kwargs=sorted(kw), er7=er7, observed=got)
                cases.append((er7, got))
                objs.append((m, kw))
    # built, not parsed
    try:
        m = Message('ADT_A01', version='2.5', validation_level=VALIDATION_LEVEL.TOLERANT)
        m.msh.msh_9 = 'ADT^A01^ADT_A01'
        m.msh.msh_10 = '77'
        m.add_segment('PID').pid_5 = 'DOE^JANE'
        er7, got = m.to_er7(), m.to_mllp()
        n += 1
        if got != '\x0b' + er7 + '\r\x1c\r':
            run.fail('to-mllp-shape', 'to_mllp() is not start-block + to_er7() + CR + end-block + CR',
                     text='(built ADT_A01)', find_groups=False, kwargs=[], er7=er7, observed=got)
        cases.append((er7, got))
        objs.append((m, {}))
        # built with its own delimiters
        ecs = {'FIELD': '#', 'COMPONENT': ':', 'SUBCOMPONENT': '=', 'REPETITION': ';', 'ESCAPE': '?', 'SEGMENT': '\r',
               'GROUP': '\r'}
        m = Message('ADT_A01', version='2.5', validation_level=VALIDATION_LEVEL.TOLERANT, encoding_chars=ecs)
        m.msh.msh_9 = 'ADT:A01:ADT_A01'
        m.msh.msh_10 = '78'
        m.add_segment('PID').pid_5 = 'DOE:JANE;ROE:J'
        er7, got = m.to_er7(), m.to_mllp()
        n += 1
        if got != '\x0b' + er7 + '\r\x1c\r' or not er7.startswith('MSH#:;?=#'):
            run.fail('to-mllp-shape', 'to_mllp() is not start-block + to_er7() + CR + end-block + CR',
                     text='(built ADT_A01 with its own delimiters)', find_groups=False, kwargs=[], er7=er7, observed=got)
        cases.append((er7, got))
        objs.append((m, {}))
    except Exception as ex:  # noqa
        run.note('framing: building a message failed: %r' % (ex,))
    return cases, n, objs


def msh9_of(er7):
    """MSH-9 of an ER7 text, computed here (not by hl7apy): first line, split at the 4th character"""
    line = er7.split('\r', 1)[0]
    if len(line) < 4 or not line.startswith('MSH'):
        return None
    f = line.split(line[3])
    return f[8].strip() if len(f) > 8 else None


def framed_message_specs(run, tokens, objs):
    """frames produced by to_mllp() itself (token in MSH-10), sent to the servers: the handler must
    receive the bytes between start block and end block, i.e. to_er7() + CR"""
    specs = []
    for m, kw in objs:
        for server, keys, has_err in (('A', CONFIGS[0][1], True), ('B', CONFIGS[1][1], False)):
            t = tokens.new()
            try:
                m.msh.msh_10 = t
                got, er7 = m.to_mllp(**kw), m.to_er7(**kw)
                st = got.encode('ascii')
            except Exception:   # noqa
                continue
            if not st.startswith(SB) or not st.endswith(EB + CR) or EB + CR in st[:-2] or t not in er7:
                continue       # a wrong shape is reported by the framing oracle
            mt = msh9_of(er7)
            routing = ('registered:' + mt) if (mt in keys and mt != 'RAI^SE') else 'unregistered'
            cuts = random_cuts(run.rng, len(st), run.rng.randint(0, 5))
            specs.append(Spec(t, server, 'to-mllp-frame', st, cuts, delays_for(run.rng, cuts), 'wait',
                              expect_for(routing, has_err, st[1:-2])))
    return specs


# ----------------------------------------------------------------------------------------------
# the request handler's frame regex against Model.Mllp.extract


def regex_cases(run):
    """every string over {SB, EB, CR, a} up to a length; observed = _extract_hl7_message"""
    from hl7apy.mllp import MLLPRequestHandler
    import types
    a, b = socket.socketpair()
    try:
        h = MLLPRequestHandler.__new__(MLLPRequestHandler)
        h.request, h.client_address = a, ('127.0.0.1', 0)
        h.server = types.SimpleNamespace(handlers={}, timeout=None)
        h.setup()
        n = 7 if run.thorough else 6
        out = []
        alpha = '\x0b\x1c\ra'
        for k in range(0, n + 1):
            for tup in itertools.product(alpha, repeat=k):
                s = ''.join(tup)
                out.append((s, h._extract_hl7_message(s)))
        for _ in range(400 if run.thorough else 100):
            s = '\x0b' + ''.join(run.rng.choice('\x0b\x1c\r\rab|') for _ in range(run.rng.randint(5, 24)))
            out.append((s, h._extract_hl7_message(s)))
        return out
    except Exception as ex:   # noqa   the request handler's internals are not where they were
        run.note('regex comparison skipped: %r' % (ex,))
        return []
    finally:
        a.close()
        b.close()


# ----------------------------------------------------------------------------------------------
# Coq case files


PRELUDE = r'''From Coq Require Import List Bool Arith NArith Init.Byte.
From HL7 Require Import Lib.Str Model.Result Model.Header Model.Mllp Gen.Params.
Import ListNotations.
Open Scope bs_scope.
Definition ocall := (bool * str * nat * str)%type.
Definition canon (c : call str) : ocall :=
  match c with CallH k h p => (false, k, 0, p) | CallErr h e p => (true, h, exn_code e, p) end.
Definition ocall_eqb (a b : ocall) : bool :=
  match a, b with (e1, k1, c1, p1), (e2, k2, c2, p2) =>
    Bool.eqb e1 e2 && streqb k1 k2 && Nat.eqb c1 c2 && streqb p1 p2 end.
Fixpoint list_eqb {A} (f : A -> A -> bool) (x y : list A) : bool :=
  match x, y with [], [] => true | a :: x', b :: y' => f a b && list_eqb f x' y' | _, _ => false end.
Definition opt_eqb {A} (f : A -> A -> bool) (x y : option A) : bool :=
  match x, y with None, None => true | Some a, Some b => f a b | _, _ => false end.
Definition handlers_of (keys : list str) (has_err : bool) : list (str * str) :=
  map (fun k => (k, k)) keys ++ (if has_err then [(err_key, err_key)] else []).
Definition code_of (e : option exn) : nat := match e with Some x => exn_code x | None => 0 end.
Definition hbf (raising : list str) (h : str) (e : option exn) (p : str) : result str :=
  if smem h raising then Err PyValueError
  else Ok (("ACK|" : str) ++ h ++ ("|" : str) ++ nat_to_str (code_of e) ++ ("|" : str) ++ p).
Definition cfg := (list str * list str * bool)%type.
Definition ccase := (nat * list str * list ocall * option str * bool)%type.
Definition run1 (cfgs : list cfg) (c : ccase) : bool :=
  match c with (ci, chunks, ocalls, orep, ocl) =>
    match nth_error cfgs ci with
    | None => false
    | Some (keys, raising, he) =>
        forallb (fun k0 =>
          let o := serve (handlers_of keys he) (hbf raising) k0 chunks in
          list_eqb ocall_eqb (map canon (calls o)) ocalls && opt_eqb streqb (reply o) orep
          && Bool.eqb (closed o) ocl) [1; 2; 3]
    end
  end.
Fixpoint failing {A} (f : A -> bool) (n : nat) (l : list A) : list nat :=
  match l with [] => [] | c :: r => (if f c then [] else [n]) ++ failing f (S n) r end.
'''


RUN = [None]


def eval_files(files):
    """coq_eval_many; a file that does not evaluate (e.g. a dependency was rebuilt by someone else in the
    meantime: "inconsistent assumptions") is evaluated once more after rebuilding this property's targets"""
    results = coq_eval_many(files)
    bad = [i for i, (rc, out) in enumerate(results) if rc != 0 or len(parse_nat_lists(out)) != 1]
    if bad and RUN[0] is not None:
        from common import BuildLock, make
        with BuildLock():
            make(['Properties/C16.vo'])
        again = coq_eval_many([files[i] for i in bad])
        for i, r in zip(bad, again):
            results[i] = r
    return results


def coq_cfgs():
    return 'Definition cfgs : list cfg := %s.' % coq_list(
        CONFIGS, lambda c: '(%s, %s, %s)' % (coq_list(c[1], coq_str), coq_list(c[2], coq_str), coq_bool(c[3])))


def serve_case_row(spec, obs):
    calls = coq_list(obs['calls'], lambda c: '(%s, %s, %d%%nat, %s)' % (coq_bool(c[0]), coq_str(c[1]), c[2],
                                                                       coq_str(c[3])))
    rep = coq_opt(obs['reply'] if obs['reply'] else None, coq_str)
    closed = True if obs['closed'] is None else obs['closed']     # abort mode: not observable
    return '(%d%%nat, %s, %s, %s, %s)' % (CFG_INDEX[spec.server], coq_list(spec.chunks(), coq_str), calls, rep,
                                          coq_bool(closed))


def serve_case_file(name, rows):
    return (name, PRELUDE + coq_cfgs() + '\nDefinition cases : list ccase := [\n' + ';\n'.join(rows) +
            '\n].\nEval vm_compute in failing (run1 cfgs) 0 cases.\n')


def in_model_domain(spec, obs):
    if not spec.in_model or obs is None:
        return False
    try:
        obs['reply'].decode('ascii')
        for c in obs['calls']:
            c[3].encode('ascii')
    except (UnicodeDecodeError, UnicodeEncodeError):
        return False
    return True


def coq_compare_serve(pairs, tag):
    """pairs: [(spec, obs)] -> (indices of disagreeing pairs, number evaluated, errors)"""
    shards = shard(pairs, SHARD)
    files = [serve_case_file('c16_%s_%d_%d' % (tag, os.getpid(), k), [serve_case_row(s, o) for s, o in sh])
             for k, sh in enumerate(shards)]
    results = eval_files(files)
    bad, evaluated, errors = [], 0, []
    for k, (rc, out) in enumerate(results):
        lists = parse_nat_lists(out)
        if rc != 0 or len(lists) != 1:
            errors.append((k, out[-800:]))
            continue
        evaluated += len(shards[k])
        bad += [k * SHARD + i for i in lists[0]]
    return bad, evaluated, errors


def coq_compare_simple(kind, cases):
    """kind 'extract': (s, option str);  kind 'frame': (er7, observed to_mllp)"""
    if not cases:
        return [], 0, []
    shards = shard(cases, 1000)
    files = []
    for k, sh in enumerate(shards):
        if kind == 'extract':
            body = ('Definition run2 (c : str * option str) : bool := opt_eqb streqb (extract (fst c)) (snd c).\n'
                    'Definition cases2 : list (str * option str) := [\n' +
                    ';\n'.join('(%s, %s)' % (coq_str(s), coq_opt(o, coq_str)) for s, o in sh) + '\n].\n')
        else:
            body = ('Definition run2 (c : str * str) : bool := streqb (to_mllp (fst c)) (snd c).\n'
                    'Definition cases2 : list (str * str) := [\n' +
                    ';\n'.join('(%s, %s)' % (coq_str(s), coq_str(o)) for s, o in sh) + '\n].\n')
        files.append(('c16_%s_%d_%d' % (kind, os.getpid(), k), PRELUDE + body + 'Eval vm_compute in failing run2 0 cases2.\n'))
    results = eval_files(files)
    bad, evaluated, errors = [], 0, []
    for k, (rc, out) in enumerate(results):
        lists = parse_nat_lists(out)
        if rc != 0 or len(lists) != 1:
            errors.append((k, out[-800:]))
            continue
        evaluated += len(shards[k])
        bad += [k * 1000 + i for i in lists[0]]
    return bad, evaluated, errors


def ascii_only(s):
    try:
        s.encode('ascii')
        return True
    except UnicodeEncodeError:
        return False


# ----------------------------------------------------------------------------------------------


def obs_json(obs):
    if obs is None:
        return None
    return {'calls': [list(c) for c in obs['calls']], 'reply': obs['reply'].decode('latin-1'),
            'closed': obs['closed'], 'send_error': obs.get('send_error')}


def large_reply_probe(run, sizes=(200000, 6000000, 24000000)):
    """The client receives the handler's reply - all of it, whatever its size and however late the client starts to read."""
    from hl7apy.mllp import MLLPServer, AbstractHandler
    done = 0
    for size in sizes:
        body = 'ACK|%d|' % size + 'x' * size

        class Big(AbstractHandler):
            def reply(self):
                return body
        try:
            srv = MLLPServer(HOST, 0, {'ADT^A01': (Big,)}, timeout=SERVER_TIMEOUT)
        except OSError as e:
            run.note('large reply probe: no server (%r)' % (e,))
            return done
        srv.daemon_threads = True
        srv.handle_error = lambda request, client_address: None
        th = threading.Thread(target=srv.serve_forever, kwargs={'poll_interval': 0.05})
        th.daemon = True
        th.start()
        got, closed, infra = b'', False, None
        try:
            c = socket.create_connection((HOST, srv.server_address[1]), timeout=5)
            c.sendall(b'\x0bMSH|^~\\&|A|B|C|D|20200101||ADT^A01|1|P|2.5\r\x1c\r')
            time.sleep(0.4)        # a peer that does not drain at once
            c.settimeout(20)
            buf = []
            while True:
                d = c.recv(1 << 20)
                if not d:
                    closed = True
                    break
                buf.append(d)
            got = b''.join(buf)
            c.close()
        except OSError as e:
            infra = repr(e)
        finally:
            srv.shutdown()
            srv.server_close()
        if infra is not None and not got:
            run.note('large reply probe (%d bytes): infrastructure (%s), not judged' % (size, infra))
            continue
        done += 1
        if got != body.encode('utf-8') or not closed:
            run.fail('reply-truncated', 'the client did not receive the whole reply of the handler', reply_bytes=len(body),
                     received_bytes=len(got), closed=closed, family='large-reply', infra=infra)
    return done


def main(argv=None):
    run = Run('C16', argv)
    RUN[0] = run
    if run.replay:
        return replay(run)
    ok = run.build(['Properties/C16.vo'], gen=('params',), obligation_files=['Properties/C16.v'])
    if ok:
        run.print_assumptions('Properties.C16', [n for n, _ in theorems_of('Properties/C16.v')])
    run.log('obligations: %d/%d' % (run.discharged, run.obligations))

    # ---- to_mllp on real messages
    fr_cases, n_framing, fr_objs = framing_cases(run)
    # ---- the live servers
    servers = start_servers()
    tokens = Tokens()
    specs, fam_stats = build_specs(run, tokens)
    fm = framed_message_specs(run, tokens, fr_objs)
    fam_stats['to-mllp-frame'] = len(fm)
    specs += fm
    groups = pack_groups(run, specs)
    run.log('implementation side: %d connections in %d groups of up to %d simultaneous clients'
            % (len(specs), len(groups), max(len(g) for g in groups)))
    outs = run_groups(servers, groups, lambda i, n: run.log('  group %d/%d' % (i, n)))
    by_token, stray = attribute(servers)
    observed = []      # (spec, obs)
    infra_why = {}
    infra = 0
    for s in specs:
        o = observation(s, outs.get(s.token, {}), by_token)
        if o is None:
            infra += 1
            infra_why.setdefault(str(outs.get(s.token, {}).get('infra'))[:80], []).append(s.family)
            continue
        observed.append((s, o))
    run.log('observed %d connections (%d skipped for infrastructure reasons), %d stray handler calls'
            % (len(observed), infra, len(stray)))
    for why, fams in infra_why.items():
        run.log('  infrastructure: %s x%d (%s)' % (why, len(fams), ', '.join(sorted(set(fams)))[:200]))

    # ---- oracle, with confirmation on a second execution
    group_of = {}
    for g in groups:
        for s in g:
            group_of[s.token] = g
    suspects = [(s, o, judge(s, o)) for s, o in observed]
    suspects = [x for x in suspects if x[2]]
    unconfirmed = 0
    if suspects:
        run.log('%d connections fail the oracle; running their groups again' % len(suspects))
        done_groups = set()
        regroups, back = [], {}
        for s, o, f in suspects[:60]:
            g = group_of[s.token]
            if id(g) in done_groups:
                continue
            done_groups.add(id(g))
            ng = []
            for x in g:
                y = retoken(x, tokens)
                back[x.token] = y
                ng.append(y)
            regroups.append(ng)
        outs2 = run_groups(servers, regroups)
        by_token2, stray2 = attribute(servers)
        for s, o, f in suspects[:60]:
            y = back[s.token]
            o2 = observation(y, outs2.get(y.token, {}), by_token2)
            f2 = judge(y, o2)
            kinds2 = {k for k, _ in f2}
            confirmed = [(k, w) for k, w in f if k in kinds2]
            if not confirmed:
                unconfirmed += 1
                continue
            others = [back[x.token].data() for x in group_of[s.token] if x is not s]
            for k, w in confirmed:
                run.fail(k, w, simultaneous_clients=len(group_of[s.token]), observed=obs_json(o2),
                         simultaneous_with=others, **y.data())
        if unconfirmed:
            run.note('%d oracle failures did not show again when their group was run a second time (not reported)'
                     % unconfirmed)
    no_msg = [e for e in stray if not isinstance(e[4], str)]
    if no_msg:
        run.fail('handler-on-malformed', 'a handler was invoked with no message at all: a frame the reader refused (malformed or '
                 'truncated input) still reached the router', family='(unattributable: the call carries no text)',
                 entries=[[str(x)[:80] for x in e] for e in no_msg[:5]], count=len(no_msg))
    stray = [e for e in stray if isinstance(e[4], str)]
    if stray:
        # a handler was invoked with a payload that carries no (or more than one) connection token: the
        # model never does that (a payload is the text between SB and EB CR of its own connection).  The
        # connection that lost its call, if any, already fails the oracle above.
        run.disagree('stray-handler-call', why='a handler was invoked with a payload that is not the framed text of '
                     'exactly one connection', entries=[list(e) for e in stray[:5]], count=len(stray))

    # ---- correspondence
    pairs = [(s, o) for s, o in observed if in_model_domain(s, o)]
    bad, evaluated, errors = coq_compare_serve(pairs, 'serve')
    for k, tail in errors:
        run.disagree('serve', why='case file did not evaluate', shard=k, output=tail)
    persistent = 0
    if bad:
        run.log('%d connections disagree with the model; running them again' % len(bad))
        again = [retoken(pairs[i][0], tokens) for i in bad[:80]]
        outs3 = run_groups(servers, [[s] for s in again])
        by_token3, _ = attribute(servers)
        pairs3 = []
        for s in again:
            o = observation(s, outs3.get(s.token, {}), by_token3)
            if o is not None:
                pairs3.append((s, o))
        bad3, _, errors3 = coq_compare_serve(pairs3, 'again')
        for i in bad3:
            s, o = pairs3[i]
            persistent += 1
            run.disagree('serve', observed=obs_json(o), **s.data())
        if len(bad) > len(bad3):
            run.note('%d model disagreements did not show again on a second execution (not reported)'
                     % (len(bad) - len(bad3)))
    rx = regex_cases(run)
    bad_rx, ev_rx, err_rx = coq_compare_simple('extract', rx)
    for i in bad_rx[:20]:
        run.disagree('extract', input=rx[i][0], implementation=rx[i][1])
    fr_ascii = [(a, b) for a, b in fr_cases if ascii_only(a) and ascii_only(b)]
    bad_fr, ev_fr, err_fr = coq_compare_simple('frame', fr_ascii)
    for i in bad_fr[:20]:
        run.disagree('to_mllp', er7=fr_ascii[i][0], implementation=fr_ascii[i][1])
    for k, tail in err_rx + err_fr:
        run.disagree('extract/to_mllp', why='case file did not evaluate', shard=k, output=tail)
    run.log('model side: %d connections, %d regex strings, %d framings evaluated by vm_compute; %d disagreements'
            % (evaluated, ev_rx, ev_fr, len(run.disagreements)))
    for s in servers.values():
        s.stop()
    n_large = large_reply_probe(run)
    run.log('large replies (0.2, 6 and 24 MB to a client that starts reading late): %d judged' % n_large)

    # ---- coverage
    nontrivial = len({(s.family, s.server, s.cuts, len(s.stream), s.mode) for s, o in observed
                      if s.cuts or o['calls']})
    sizes = {}
    for g in groups:
        sizes[len(g)] = sizes.get(len(g), 0) + 1
    k0_seen = sorted({min(3, s.cuts[0]) if s.cuts else 3 for s, _ in observed if len(s.stream) >= 3})
    samples = []
    for s, o in observed[:: max(1, len(observed) // 8)][:8]:
        d = s.data()
        d.pop('stream_hex')
        d['observed'] = obs_json(o)
        samples.append(d)
    escaped = {}
    for srv in servers.values():
        for e in srv.escaped:
            escaped[e] = escaped.get(e, 0) + 1
    run.finish({
        'evaluations': len(observed) + len(rx) + n_framing,
        'distinct_nontrivial': nontrivial,
        'rule': 'a case = one TCP connection to a live MLLPServer: (server configuration, byte stream, cut positions '
                'of the client writes, inter-write delays 0-10 ms, how the client ends: waits / half-closes / stalls / '
                'aborts), run in groups of 1..%d simultaneous clients with distinct messages behind a barrier; frames '
                'of <= 40 bytes are split at every 1- and 2-cut position (%s 3-cut positions), longer ones at random '
                '<= 8 cuts; non-trivial = the stream is split or a handler is invoked, distinct by (family, server, '
                'cuts, length, ending); every ASCII/undecodable case is also evaluated by the Coq model for k0 = 1, 2, 3'
                % (32 if run.thorough else 8, 'all' if run.thorough else 'random'),
        'samples': samples,
        'traces_validated_against_impl': evaluated + ev_rx + ev_fr,
        'connections': len(observed),
        'families': fam_stats,
        'group_sizes': {str(k): v for k, v in sorted(sizes.items())},
        'first_write_sizes_sent': k0_seen,
        'infrastructure_skips': infra,
        'oracle_failures_not_confirmed': unconfirmed,
        'regex_strings_compared': ev_rx,
        'to_mllp_messages_checked': n_framing,
        'exceptions_escaping_handle': escaped,
        'msh9_is_ERR_probe': [{'server': s.server, 'has_err_handler': s.server == 'A', 'observed': obs_json(o)}
                              for s, o in observed if s.family == 'msh9-is-ERR'],
        'server_timeout_s': SERVER_TIMEOUT,
    }, assumptions=[
        'model domain: ASCII byte streams; a line with a byte >= 128 is treated as undecodable, which the '
        'implementation does only for invalid UTF-8 (tested with 0xff 0xfe 0xc0 0xf5, lone 0x80, cut 0xc3)',
        'handlers are abstract (constructor + reply() = a total function or an exception); message type "ERR" excluded',
        'isolation between simultaneous clients is observed (1..N clients), not proved: the model is per connection',
        'the size of the first recv(3) is not controlled, only provoked (first write of 1, 2, >= 3 bytes followed by '
        'a 5-10 ms pause); the model is evaluated for k0 = 1, 2, 3 and proved independent of it',
        'EOF and silence after the client bytes are not distinguished by the model (both: no handler call, closed)',
    ])


def replay(run):
    r = json.load(open(run.replay))
    run.build(['Properties/C16.vo'], gen=('params',), obligation_files=['Properties/C16.v'])
    inp = r.get('input') or {}
    if not inp and r.get('disagreements'):
        inp = r['disagreements'][0].get('data', {})
    if 'stream_hex' in inp:
        servers = start_servers()
        tokens = Tokens()
        tokens.n = 900000
        spec = retoken(Spec.from_data(inp), tokens)
        group = [spec] + [retoken(Spec.from_data(d), tokens) for d in inp.get('simultaneous_with', [])]
        outs = run_groups(servers, [group])
        by_token, stray = attribute(servers)
        o = observation(spec, outs.get(spec.token, {}), by_token)
        print('replayed connection (with %d simultaneous others):' % (len(group) - 1),
              json.dumps(spec.data(), default=str)[:600])
        print('observed:', json.dumps(obs_json(o), default=str)[:600])
        for x in group:
            ox = observation(x, outs.get(x.token, {}), by_token)
            for k, w in judge(x, ox):
                run.fail(k, w, observed=obs_json(ox), **x.data())
        if o is not None and in_model_domain(spec, o):
            bad, ev, errors = coq_compare_serve([(spec, o)], 'replay')
            if bad or errors:
                run.disagree('serve', observed=obs_json(o), **spec.data())
        for s in servers.values():
            s.stop()
    elif inp.get('family') == 'large-reply':
        large_reply_probe(run, sizes=(int(inp['reply_bytes']),))
    elif 'er7' in inp and 'text' in inp:
        framing_cases(run)
    elif 'input' in inp:
        rx = [(inp['input'], inp.get('implementation'))]
        bad, ev, err = coq_compare_simple('extract', regex_cases(run)[:0] + rx)
        if bad:
            run.disagree('extract', **inp)
    for f in run.failures:
        print('replayed failure:', f['kind'], '-', f['what'])
    for d in run.disagreements:
        print('replayed disagreement with the model:', d['component'])
    run.finish({'evaluations': 1, 'distinct_nontrivial': 2, 'rule': 'replay of one stored case', 'samples': [inp]})


if __name__ == '__main__':
    from common import run_guarded
    run_guarded('C16', main)
