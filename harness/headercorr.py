"""Shared by c07.py and c15.py: outcome classes of hl7apy calls (the exn codes of
coq/Model/Result.v), Coq terms for encoding-character sets, and the case files that compare
Model/Header.v (get_message_info / get_message_type) with the implementation."""
import os
import sys

sys.path.insert(0, os.path.dirname(__file__))
from common import use_repo, coq_eval_many, parse_nat_lists, shard
from coqgen import coq_str, coq_byte, coq_opt

use_repo()

# Model/Result.v hl7_exn_code
HL7_CODES = {
    'ParserError': 1, 'InvalidEncodingChars': 2, 'InvalidName': 3, 'ChildNotFound': 4, 'ChildNotValid': 5,
    'MaxChildLimitReached': 6, 'OperationNotAllowed': 7, 'MaxLengthReached': 8, 'InvalidDateFormat': 9,
    'InvalidDateOffset': 10, 'InvalidMicrosecondsPrecision': 11, 'UnsupportedVersion': 12,
    'UnknownValidationLevel': 13, 'MessageProfileNotFound': 14, 'LegacyMessageProfile': 15,
    'InvalidHighlightRange': 16, 'ValidationError': 17, 'UnsupportedMessageType': 18, 'InvalidHL7Message': 19,
}
CRASH_CODES = {'IndexError': 40, 'KeyError': 41, 'TypeError': 42, 'AttributeError': 43}


def exn_code(ex):
    """Outcome code of an exception, as Model/Result.v exn_code: hl7apy classes 1..20, ValueError 30,
    the four crash classes 40..43; anything else 99 (no model outcome has that code)."""
    from hl7apy.exceptions import HL7apyException
    if isinstance(ex, HL7apyException):
        for cls in type(ex).__mro__:
            if cls.__name__ in HL7_CODES:
                return HL7_CODES[cls.__name__]
        return 20
    for cls in type(ex).__mro__:
        if cls.__name__ in CRASH_CODES:
            return CRASH_CODES[cls.__name__]
    if isinstance(ex, ValueError):
        return 30
    return 99


def outcome(fn, *a, **kw):
    """(code, value, exception) of a call."""
    try:
        return 0, fn(*a, **kw), None
    except Exception as ex:  # noqa
        return exn_code(ex), None, ex


KEYS = ('FIELD', 'COMPONENT', 'SUBCOMPONENT', 'REPETITION', 'ESCAPE', 'TRUNCATION')


def ec_dict(ec, with_groups=False):
    f, c, r, e, s, t = ec
    d = {'FIELD': f, 'COMPONENT': c, 'REPETITION': r, 'ESCAPE': e, 'SUBCOMPONENT': s}
    if with_groups:
        d.update({'SEGMENT': '\r', 'GROUP': '\r'})
    if t is not None:
        d['TRUNCATION'] = t
    return d


def ec_of_dict(d):
    """(f, c, r, e, s, t|None) of an hl7apy encoding_chars dict with one-character values, else None."""
    try:
        tup = (d['FIELD'], d['COMPONENT'], d['REPETITION'], d['ESCAPE'], d['SUBCOMPONENT'], d.get('TRUNCATION'))
    except KeyError:
        return None
    if all(isinstance(x, str) and len(x) == 1 and ord(x) < 256 for x in tup[:5]) and \
            (tup[5] is None or (isinstance(tup[5], str) and len(tup[5]) == 1 and ord(tup[5]) < 256)):
        return tup
    return None


def ec_term(ec):
    f, c, r, e, s, t = ec
    return '(mk_ec %s %s %s %s %s %s)' % (coq_byte(f), coq_byte(c), coq_byte(r), coq_byte(e), coq_byte(s),
                                          coq_opt(t, coq_byte))


def ecdict_term(d):
    """Model/MsgEc.v ecdict of a Python dict (only the six keys the code reads)."""
    return '(mk_ecdict %s)' % ' '.join(coq_opt(d.get(k), coq_str) for k in KEYS)


def is_ascii(s):
    return all(ord(ch) < 128 for ch in s)


# ---------------------------------------------------------------------------------------------
# header functions: implementation observation and Coq comparison


def observe_header(text):
    """What get_message_info and get_message_type do on `text`."""
    from hl7apy.parser import get_message_info, get_message_type
    ci, vi, exi = outcome(get_message_info, text)
    ct, vt, ext = outcome(get_message_type, text)
    info = None
    if ci == 0:
        ecd, structure, version = vi
        info = (ec_of_dict(ecd), structure, version, ecd)
    return {'text': text, 'info_code': ci, 'info': info, 'type_code': ct, 'type': vt,
            'info_exc': repr(exi) if exi else None, 'type_exc': repr(ext) if ext else None}


def header_row(o):
    if o['info_code'] == 0:
        ec, st, ver, _ = o['info']
        info = '(Some (%s, %s, %s))' % (ec_term(ec), coq_opt(st, coq_str), coq_opt(ver, coq_str))
    else:
        info = 'None'
    ty = '(Some %s)' % coq_opt(o['type'], coq_str) if o['type_code'] == 0 else 'None'
    return '(%s, %d%%nat, %s, %d%%nat, %s)' % (coq_str(o['text']), o['info_code'], info, o['type_code'], ty)


HEADER_PRELUDE = '''From Coq Require Import List NArith Arith Init.Byte.
From HL7 Require Import Lib.Str Model.Ec Model.Result Model.Header Model.MsgEc.
Import ListNotations. Open Scope bs_scope.
Definition hcase := (str * nat * option (ec * option str * option str) * nat * option (option str))%type.
Definition run_h (c : hcase) : bool :=
  match c with (t, ci, info, ct, ty) =>
    Nat.eqb (outcome_code (get_message_info t)) ci && Nat.eqb (outcome_code (get_message_type t)) ct &&
    Nat.eqb (outcome_code (split_msh t)) ci &&
    match get_message_info t, info with
    | Ok (e, s, v), Some (e', s', v') => ec_eqb e e' && ostr_eqb s s' && ostr_eqb v v'
    | Err _, None => true
    | _, _ => false
    end &&
    match get_message_type t, ty with
    | Ok x, Some y => ostr_eqb x y
    | Err _, None => true
    | _, _ => false
    end
  end.
Fixpoint failing_h (n : nat) (l : list hcase) : list nat :=
  match l with [] => [] | c :: r => (if run_h c then [] else [n]) ++ failing_h (S n) r end.
'''


def header_files(prefix, observations, per_file=1200):
    """Case files for a list of observations (ASCII texts whose info, when Ok, has one-character
    encoding characters - always the case for _split_msh)."""
    shards = shard(observations, per_file)
    files = []
    for k, sh in enumerate(shards):
        L = [HEADER_PRELUDE, 'Definition hcases : list hcase := [']
        L.append(';\n'.join(header_row(o) for o in sh))
        L.append('].')
        L.append('Eval vm_compute in failing_h 0 hcases.')
        files.append(('%s_%d_%d' % (prefix, os.getpid(), k), '\n'.join(L) + '\n'))
    return shards, files


def run_header_correspondence(run, prefix, observations, per_file=1200):
    """Evaluate the model on the observed texts; report disagreements; return the number of
    cases the model was evaluated on."""
    obs = [o for o in observations if is_ascii(o['text'])]
    shards, files = header_files(prefix, obs, per_file)
    results = coq_eval_many(files)
    evaluated = 0
    for k, (rc, out) in enumerate(results):
        lists = parse_nat_lists(out)
        if rc != 0 or len(lists) != 1:
            run.disagree('header', why='case file did not evaluate', shard=k, output=out[-800:])
            continue
        evaluated += len(shards[k])
        for idx in lists[0]:
            o = shards[k][idx]
            run.disagree('header', input=o['text'], info_code=o['info_code'], type_code=o['type_code'],
                         info=[o['info'][0], o['info'][1], o['info'][2]] if o['info'] else None,
                         message_type=o['type'], info_exc=o['info_exc'])
    return evaluated
