"""C13 - base datatype values: acceptance matches HL7 syntax and text is preserved.

Obligations: coq/Properties/C13.v (theorems about coq/Model/Datatypes.v, proofs in
coq/Proofs/DatatypesFacts.v, parameter obligations over the regenerated Gen/Params.v).
Implementation side: hl7apy.factories.datatype_factory for DT/TM/DTM/NM/SI of every version under
both validation levels, to_er7 of the result, hl7apy.utils.check_date/check_timestamp/check_datetime.
Oracle: the property statement with specification recognisers re-implemented here from the HL7
grammar.  Correspondence: the same cases evaluated by the Coq model inside coqc (vm_compute),
compared in Coq (the Coq specification recognisers are compared with the Python ones as well).
"""
import itertools
import os
import re
import sys
import unicodedata
from fractions import Fraction

sys.path.insert(0, os.path.dirname(__file__))
from common import Run, use_repo, coq_eval_many, parse_nat_lists, shard, theorems_of
from coqgen import coq_str, is_model_str

use_repo()

DTS = ['DT', 'TM', 'DTM', 'NM', 'SI']
HL7_MAXLEN = {'NM': 16, 'SI': 4}           # HL7 / documented maximum lengths of the numeric leaves
ALPHA = '019.+- x'
WIDE = '01.+-eE_ \nnaNif\x1c'
F10 = {
    'DT': ['202011 1', '2020021 ', '20201301', '0999', '0000', '20200229', '20210229', '19000229', '20000229',
           '09990101', '0001', '00010101', '009912', '00991231', '01000229', '04000229', '00000101'],
    'DTM': ['202011 1', '202011 112', '202011 1+0100', '2020+0100+0100', '20200101120000.1234+0100',
            '20200101120000.12345', '2020010112+1500', '2020010124',
            '0999', '09990101', '0001+0100', '00991231235959.1234+0100', '000101010000', '0000'],
    'TM': ['12+0100+0100', '1+01001+0100', '12+0100', '2400', '1260', '125960', '125961', '120000.1234',
           '120000.12345', '12+1500', '12-1300', '12+1459', '12-1259', '12+0060', '12+0100\n', '+0100'],
    'NM': [' 1 ', '1_0', '1e5', 'NaN', 'Infinity', '-inf', 'sNaN12', '0.0000001', '0.0000000', '0.000001',
           '1.50', '-0', '+1', '1.', '.5', '01', '1E+2', '1' + '0' * 15, '1' + '0' * 16, '-.00001234567890',
           '\x1c1', '1\n', '1\x00', '1e999999999999999999'],
    'SI': ['+1', '-1', ' 1', '1 ', '1_0', '1__0', '_1', '007', '-0', '12345', '1234', '00001', '1\n', '\x1c1'],
}
NONASCII = {   # outside the model's domain: oracle only
    'DT': ['２０２０', '٢٠٢٠', '2020١٢'],
    'TM': ['1٢', '١٢'],
    'DTM': ['２０２０', '２０２０+0100'],
    'NM': ['١', '１.５', '\xa01', '1 '],
    'SI': ['١', '１２', '\xa01'],
}

# ------------------------------------------------------------------------------------------------
# specification recognisers, from the HL7 grammar (independent of the implementation)

A = re.ASCII
RE_TIME = re.compile(r'([01]\d|2[0-3])(([0-5]\d)(([0-5]\d)(\.\d{1,4})?)?)?', A)
RE_OFFSET = re.compile(r'\+(0\d|1[0-4])[0-5]\d|-(0\d|1[0-2])[0-5]\d', A)   # documented range +1459 .. -1259
RE_NM = re.compile(r'[+-]?(\d+(\.\d*)?|\.\d+)', A)
RE_SI = re.compile(r'\d+', A)
RE_DIGITS = re.compile(r'\d+', A)
RE_PLAIN_NM = re.compile(r'-?(0|[1-9]\d*)(\.\d+)?', A)
RE_PLAIN_SI = re.compile(r'0|[1-9]\d*', A)
RE_SCI = re.compile(r'(-?)(\d+)(?:\.(\d+))?(?:E([+-]\d+))?', A)


def days_in_month(y, m):
    if m == 2:
        return 29 if (y % 4 == 0 and (y % 100 != 0 or y % 400 == 0)) else 28
    return 30 if m in (4, 6, 9, 11) else 31


def spec_date(s):
    if len(s) not in (4, 6, 8) or not RE_DIGITS.fullmatch(s):
        return False
    y = int(s[:4])
    if y < 1:
        return False
    if len(s) >= 6:
        m = int(s[4:6])
        if not 1 <= m <= 12:
            return False
        if len(s) == 8 and not 1 <= int(s[6:8]) <= days_in_month(y, m):
            return False
    return True


def spec_time(s):
    return RE_TIME.fullmatch(s) is not None


def spec_datetime(s):
    return spec_date(s) if len(s) <= 8 else (spec_date(s[:8]) and spec_time(s[8:]))


def with_offset(body_ok, s):
    if body_ok(s):
        return True
    return len(s) >= 5 and RE_OFFSET.fullmatch(s[-5:]) is not None and body_ok(s[:-5])


SPEC = {
    'DT': spec_date,
    'TM': lambda s: with_offset(spec_time, s),
    'DTM': lambda s: with_offset(spec_datetime, s),
    'NM': lambda s: RE_NM.fullmatch(s) is not None,
    'SI': lambda s: RE_SI.fullmatch(s) is not None,
}


def nm_fraction(s):
    """The number a specification-conforming NM text denotes."""
    neg = s.startswith('-')
    t = s.lstrip('+-')
    ip, _, fp = t.partition('.')
    v = Fraction(int((ip + fp) or '0'), 10 ** len(fp))
    return -v if neg else v


def sci_fraction(t):
    """The number an encoded numeric denotes (plain or scientific notation); None if not numeric."""
    m = RE_SCI.fullmatch(t)
    if not m:
        return None
    sign, ip, fp, e = m.groups()
    fp = fp or ''
    v = Fraction(int(ip + fp), 10 ** len(fp)) * Fraction(10) ** int(e or 0)
    return -v if sign else v


def nm_canonical(s):
    """Plain decimal normal form of a conforming NM text (what a length limit is measured on)."""
    neg = s.startswith('-')
    t = s.lstrip('+-')
    ip, _, fp = t.partition('.')
    ip = ip.lstrip('0') or '0'
    return ('-' if neg else '') + ip + ('.' + fp if fp else '')


def nm_adjusted_lt_minus6(s):
    """plain decimal whose adjusted exponent is below -6: 0.000000d... or zero with >= 7 decimals"""
    t = s.lstrip('-')
    ip, _, fp = t.partition('.')
    if ip.strip('0'):
        return False
    sig = fp.lstrip('0')
    lead = len(fp) - len(sig)
    return (lead >= 6) if sig else (len(fp) >= 7)


def ascii_digits(s):
    """map non-ASCII decimal digits to ASCII; returns (text, changed)"""
    out = []
    ch = False
    for c in s:
        if ord(c) > 127 and c.isdigit():
            try:
                out.append(str(unicodedata.digit(c)))
                ch = True
                continue
            except ValueError:
                pass
        out.append(c)
    return ''.join(out), ch


def explain_accept(dt, s):
    """Why does the implementation accept a string the grammar does not produce?  Returns the list
    of known lexical features that, once undone, leave a conforming string; 'unexplained' when
    they do not."""
    feats = []
    t = s
    if dt in ('DT', 'TM', 'DTM'):
        if dt != 'DT' and len(t) >= 5 and RE_OFFSET.fullmatch(t[-5:]):
            o = t[-5:]
            if t.replace(o, '') + o != t:
                feats.append('offset-repeated')
                t = t.replace(o, '') + o
        t2, ch = ascii_digits(t)
        if ch:
            feats.append('nonascii-digit')
            t = t2
        if dt != 'TM' and len(t) >= 8 and t[6] == ' ' and t[7] in '123456789':
            feats.append('space-padded-day')
            t = t[:6] + '0' + t[7:]
        if not SPEC[dt](t):
            feats.append('unexplained')
        return feats
    if t != t.strip():
        feats.append('blank')
        t = t.strip()
    if '_' in t:
        feats.append('underscore')
        t = t.replace('_', '')
    t2, ch = ascii_digits(t)
    if ch:
        feats.append('nonascii-digit')
        t = t2
    if dt == 'SI':
        if t[:1] in ('+', '-'):
            feats.append('sign')
            t = t[1:]
        if not RE_SI.fullmatch(t):
            feats.append('unexplained')
        return feats
    body = t.lstrip('+-') if t[:1] in ('+', '-') else t
    low = body.lower()
    if t[:1] in ('+', '-') and len(t) - len(body) != 1:
        feats.append('unexplained')
    elif low in ('inf', 'infinity'):
        feats.append('infinity')
    elif re.fullmatch(r's?nan\d*', low, A):
        feats.append('nan')
    else:
        m = re.fullmatch(r'([^eE]*)[eE]([+-]?\d+)', t, A)
        if m:
            feats.append('exponent')
            t = m.group(1)
        if not RE_NM.fullmatch(t):
            feats.append('unexplained')
    return feats


# ------------------------------------------------------------------------------------------------
# implementation side

CODES = {'MaxLengthReached': 8, 'InvalidDateFormat': 9, 'InvalidDateOffset': 10,
         'InvalidMicrosecondsPrecision': 11, 'UnsupportedVersion': 12}


def code_of(e):
    from hl7apy.exceptions import HL7apyException
    n = type(e).__name__
    if n in CODES:
        return 8 if n == 'MaxLengthReached' else CODES[n]
    if isinstance(e, HL7apyException):
        return 20
    if isinstance(e, ValueError):
        return 30
    return {'IndexError': 40, 'KeyError': 41, 'TypeError': 42, 'AttributeError': 43}.get(n, 99)


class Impl(object):
    def __init__(self):
        import hl7apy
        from hl7apy import utils
        from hl7apy.factories import datatype_factory
        from hl7apy.consts import VALIDATION_LEVEL as VL
        self.hl7apy = hl7apy
        self.factory = datatype_factory
        self.levels = {'S': VL.STRICT, 'T': VL.TOLERANT}
        self.check = {'DT': utils.check_date, 'TM': utils.check_timestamp, 'DTM': utils.check_datetime}
        self.versions = sorted(hl7apy.SUPPORTED_LIBRARIES.keys(), key=lambda v: [int(x) for x in v.split('.')])
        self.bdt = {v: hl7apy.load_library(v).get_base_datatypes() for v in self.versions}
        self.ec = {v: dict(hl7apy.get_default_encoding_chars(v)) for v in self.versions}

    def observe(self, dt, s, v, lv):
        """(outcome code, fell back to another class?, to_er7 text)"""
        try:
            o = self.factory(dt, s, v, self.levels[lv])
        except Exception as e:   # noqa
            return (code_of(e), False, '')
        try:
            t = o.to_er7(self.ec[v])
        except Exception as e:   # noqa
            return (100 + code_of(e), False, '')
        return (0, not isinstance(o, self.bdt[v][dt]), t)

    def observe_default(self, dt, s, v, lv):
        """the same observation with the level in force through the library default (validation_level omitted)"""
        before = self.hl7apy.get_default_validation_level()
        self.hl7apy.set_default_validation_level(self.levels[lv])
        try:
            try:
                o = self.factory(dt, s, v)
            except Exception as e:   # noqa
                return (code_of(e), False, '')
            try:
                t = o.to_er7(self.ec[v])
            except Exception as e:   # noqa
                return (100 + code_of(e), False, '')
            return (0, not isinstance(o, self.bdt[v][dt]), t)
        finally:
            self.hl7apy.set_default_validation_level(before)

    def checkfn(self, dt, s):
        f = self.check.get(dt)
        if f is None:
            return 2
        try:
            return 1 if f(s) else 0
        except Exception as e:   # noqa
            return 10 + code_of(e)

    def groups(self, dt):
        """versions grouped by (datatype class, ST class) identity: identical classes are deduped"""
        g = {}
        for v in self.versions:
            b = self.bdt[v]
            key = (id(b.get(dt)), id(b.get('ST')))
            g.setdefault(key, []).append(v)
        return list(g.values())

    def st_text(self, v, s):
        try:
            return self.bdt[v]['ST'](s, validation_level=self.levels['T']).to_er7(self.ec[v])
        except Exception as e:   # noqa
            return None


# ------------------------------------------------------------------------------------------------
# oracle: the property statement


class Oracle(object):
    CAP = 12   # stored witnesses per failure class (all are counted)

    def __init__(self, run, impl):
        self.run = run
        self.impl = impl
        self.counts = {}

    def fail(self, kind, what, key, **data):
        k = (kind,) + tuple(key)
        self.counts[k] = self.counts.get(k, 0) + 1
        if self.counts[k] <= self.CAP:
            self.run.fail(kind, what, **data)

    def judge(self, dt, s, v, so, to, chk):
        spec = SPEC[dt](s)
        acc = so[0] == 0
        base = dict(datatype=dt, version=v, input=s)
        absent = (s == '')    # an empty leaf is "no value": SubComponent never hands it to the factory
        # ---- STRICT acceptance = HL7 lexical definition
        if so[0] >= 40 or so[0] in (9, 10, 11, 12, 20):
            self.fail('strict-raises-other', 'STRICT construction raised something other than ValueError/'
                      'MaxLengthReached', (dt, so[0]), code=so[0], **base)
        if acc and so[1]:
            self.fail('strict-returned-fallback', 'STRICT returned another class instead of raising', (dt,), **base)
        if acc and not spec and not absent:
            for f in explain_accept(dt, s):
                if f == 'unexplained':
                    self.fail('accepts-nonconforming', 'STRICT accepts a string the HL7 grammar does not produce',
                              (dt,), encoded=so[2], **base)
                elif f == 'space-padded-day':
                    self.fail('dt-accepts-space-padded-day', 'a blank-padded day is accepted', (dt,),
                              encoded=so[2], **base)
                elif f == 'offset-repeated':
                    self.fail('tm-offset-repeated', 'the time-zone offset may be repeated inside the value',
                              (dt,), encoded=so[2], **base)
                elif f == 'nonascii-digit' and dt in ('DT', 'TM', 'DTM'):
                    self.fail('dt-accepts-nonascii-digit', 'non-ASCII decimal digits are accepted', (dt,),
                              encoded=so[2], **base)
                elif dt == 'NM':
                    self.fail('nm-accepts-nonplain', 'NM accepts text outside the HL7 numeric grammar',
                              (f,), feature=f, encoded=so[2], **base)
                else:
                    self.fail('si-accepts-nonplain', 'SI accepts text outside the HL7 sequence-id grammar',
                              (f,), feature=f, encoded=so[2], **base)
        if spec and not acc:
            if so[0] == 8 and dt in HL7_MAXLEN and \
                    (len(s) > HL7_MAXLEN[dt] or len(nm_canonical(s)) > HL7_MAXLEN[dt]):
                pass      # too long: the rejection the property asks for
            elif so[0] == 8:
                self.fail('maxlength-unjustified', 'MaxLengthReached for a value within the maximum length',
                          (dt,), **base)
            elif so[0] == 30:
                self.fail('rejects-conforming', 'STRICT rejects a string of the HL7 grammar', (dt,), **base)
        # ---- maximum length
        if acc and dt in HL7_MAXLEN and len(so[2]) > HL7_MAXLEN[dt]:
            self.fail('maxlength-missed', 'STRICT accepts a value longer than the maximum length', (dt,),
                      encoded=so[2], **base)
        # ---- accepted and conforming: the text (numerics: the number) is preserved
        if acc and spec:
            self.roundtrip(dt, s, so[2], base, 'STRICT')
        # ---- TOLERANT
        if to[0] != 0:
            self.fail('tolerant-raises', 'TOLERANT construction raised', (dt, to[0]), code=to[0], **base)
        elif acc:
            if (to[1], to[2]) != (so[1], so[2]):
                self.fail('tolerant-differs-from-strict', 'a value STRICT accepts is built differently under '
                          'TOLERANT', (dt,), strict=so[2], tolerant=to[2], **base)
        elif so[0] == 30:
            special = set(self.impl.ec[v].values())
            exp = s if not (special & set(s)) else self.impl.st_text(v, s)
            if not to[1] or (exp is not None and to[2] != exp):
                self.fail('tolerant-text-not-preserved', 'a value STRICT rejects is not preserved verbatim '
                          'under TOLERANT', (dt,), tolerant=to[2], fallback=to[1], **base)
        elif so[0] == 8 and spec:
            self.roundtrip(dt, s, to[2], base, 'TOLERANT')
        # ---- the check_* functions are the acceptance test
        if chk != 2 and chk != (1 if acc else 0):
            self.fail('check-function-disagrees', 'utils.check_* disagrees with the factory', (dt,),
                      check=chk, **base)

    def roundtrip(self, dt, s, enc, base, lvl):
        if dt in ('DT', 'DTM', 'TM'):
            if enc != s:      # every accepted year, 0001-9999 (to_er7 prints the year with four digits)
                self.fail('roundtrip-text-changed', 'an accepted conforming value encodes to different text',
                          (dt,), encoded=enc, level=lvl, **base)
            return
        if dt == 'SI':
            if not RE_SI.fullmatch(enc) or int(enc) != int(s):
                self.fail('roundtrip-number-changed', 'an accepted number encodes to a different number',
                          (dt,), encoded=enc, level=lvl, **base)
            elif RE_PLAIN_SI.fullmatch(s) and enc != s:
                self.fail('roundtrip-text-changed', 'a plain number encodes to different text', (dt,),
                          encoded=enc, level=lvl, **base)
            return
        val = sci_fraction(enc)
        if val is None or val != nm_fraction(s):
            self.fail('roundtrip-number-changed', 'an accepted number encodes to a different number', (dt,),
                      encoded=enc, level=lvl, **base)
        elif RE_PLAIN_NM.fullmatch(s) and enc != s:
            small = nm_adjusted_lt_minus6(s)
            self.fail('nm-scientific-reencode', 'a plain decimal is re-encoded in scientific notation', (small,),
                      encoded=enc, level=lvl, adjusted_exponent_below_minus6=small, **base)


# ------------------------------------------------------------------------------------------------
# inputs


def exhaustive(alpha, n):
    out = ['']
    for k in range(1, n + 1):
        out.extend(''.join(t) for t in itertools.product(alpha, repeat=k))
    return out


def mutate(rng, s, alpha):
    k = rng.randint(0, 4)
    i = rng.randint(0, len(s))
    if k == 0 and s:
        i = min(i, len(s) - 1)
        return s[:i] + rng.choice(alpha) + s[i + 1:]
    if k == 1:
        return s[:i] + rng.choice(alpha) + s[i:]
    if k == 2 and s:
        i = min(i, len(s) - 1)
        return s[:i] + s[i + 1:]
    if k == 3 and len(s) >= 5:
        return s[:i] + s[-5:] + s[i:]
    return s + rng.choice(alpha)


def rand_time(rng, valid=True):
    h, m, s = rng.randint(0, 23), rng.randint(0, 59), rng.randint(0, 59)
    if not valid:
        h, m, s = rng.randint(0, 29), rng.randint(0, 69), rng.randint(0, 69)
    t = '%02d%02d%02d' % (h, m, s)
    return t[:rng.choice((2, 4, 6, 6, 6))]


def rand_offset(rng):
    return rng.choice('+-') + '%02d%02d' % (rng.randint(0, 15), rng.randint(0, 61))


def gen_inputs(run):
    """dict datatype -> {category: [strings]}; the 'model' flag of a category says whether every
    string of it is sent to the Coq model or only a sample"""
    rng = run.rng
    T = run.thorough
    inp = {dt: {} for dt in DTS}
    nmax = 6 if T else 5
    ex = exhaustive(ALPHA, nmax)
    ex_short = [s for s in ex if len(s) < nmax]
    ex_long = [s for s in ex if len(s) == nmax]
    wide = exhaustive(WIDE, 4 if T else 3)
    for dt in DTS:
        inp[dt]['exhaustive'] = (ex_short, 1.0)            # the model sees all of these ...
        inp[dt]['exhaustive_longest'] = (ex_long, 0.15 if T else 0.3)   # ... and a sample of the longest
        inp[dt]['f10'] = (F10[dt], 1.0)
    for dt in ('NM', 'SI'):
        inp[dt]['wide'] = (wide, 1.0)
    for dt in ('DT', 'TM', 'DTM'):
        inp[dt]['wide'] = (exhaustive(WIDE, 3 if T else 2), 1.0)
    # ---- time of day
    hhmm = ['%04d' % n for n in range(10000)]
    valid_times = ['%02d%02d%02d' % (h, m, s) for h in range(24) for m in range(60) for s in range(60)]
    if T:
        six = ['%06d' % n for n in range(1000000)]
        frac6 = 0.04
    else:
        six = valid_times + ['%06d' % rng.randrange(1000000) for _ in range(15000)] + \
              ['%02d%02d%02d' % (h, m, s) for h in (0, 9, 19, 23, 24, 29) for m in (0, 59, 60, 99)
               for s in (0, 59, 60, 61, 62, 99)]
        frac6 = 0.06
    inp['TM']['hh'] = (['%02d' % n for n in range(100)], 1.0)
    inp['TM']['hhmm'] = (hhmm, 1.0 if T else 0.3)
    inp['TM']['hhmmss'] = (six, frac6)
    fr = []
    for _ in range(6000 if T else 2500):
        t = '%02d%02d%02d' % (rng.randint(0, 24), rng.randint(0, 60), rng.randint(0, 61))
        nd = rng.choice((0, 1, 2, 3, 4, 4, 5, 6, 7))
        f = ''.join(rng.choice('0123456789') for _ in range(nd))
        sep = rng.choice(('.', '.', '.', '.', ',', '', ' '))
        o = rand_offset(rng) if rng.random() < 0.4 else ''
        fr.append(t + sep + f + o)
    inp['TM']['fraction'] = (fr, 1.0)
    dates = ['20240229', '19991231', '10000101', '99991231', '09991231', '00990101', '00010101']
    inp['DTM']['hh'] = ([d + '%02d' % n for d in dates[:2] for n in range(100)], 1.0)
    inp['DTM']['hhmm'] = ([dates[0] + t for t in hhmm], 1.0 if T else 0.2)
    inp['DTM']['hhmmss'] = ([rng.choice(dates) + t for t in rng.sample(six, 200000 if T else 30000)], frac6 if T else 0.2)
    inp['DTM']['fraction'] = ([rng.choice(dates + ['2024022', '202402']) + t for t in fr], 1.0)
    # ---- offsets
    offs = [sg + '%02d%02d' % (h, m) for sg in '+-' for h in range(100) for m in range(100)]
    inp['TM']['offsets'] = (['12' + o for o in offs], 1.0 if T else 0.25)
    inp['DTM']['offsets'] = (['2020' + o for o in offs], 1.0 if T else 0.25)
    grid_edge = [sg + '%02d%02d' % (h, m) for sg in '+-' for h in (0, 9, 10, 11, 12, 13, 14, 15, 19, 20, 24)
                 for m in (0, 1, 30, 59, 60, 99)]
    inp['TM']['offset_edges'] = ([b + o for o in grid_edge for b in ('1230', '123059', '123059.1', '123059.1234')], 1.0)
    inp['DTM']['offset_edges'] = ([b + o for o in grid_edge for b in ('202402', '20240229', '2024022912',
                                                                      '20240229123059.1234')], 1.0)
    rep = []
    for _ in range(1500 if T else 500):
        b = rand_time(rng)
        o = rand_offset(rng)
        i = rng.randint(0, len(b))
        rep.append(b[:i] + o + b[i:] + o)
        rep.append(o + b)
        rep.append(b + o + o)
    inp['TM']['offset_repeated'] = (rep, 1.0)
    inp['DTM']['offset_repeated'] = (['2024' + r for r in rep[:len(rep) // 2]] +
                                     ['20240229' + r for r in rep[len(rep) // 2:]], 1.0)
    # ---- calendar
    cal = []
    for y in (0, 1, 4, 99, 100, 400, 999, 1000, 1900, 2000, 2023, 2024, 9999):
        for m in range(0, 14):
            cal.append('%04d%02d' % (y, m))
            for d in range(0, 33):
                cal.append('%04d%02d%02d' % (y, m, d))
            for d in range(1, 10):
                cal.append('%04d%02d %d' % (y, m, d))
                cal.append('%04d%02d%d ' % (y, m, d))
    feb = ['%04d02%02d' % (y, d) for y in range(0, 10000) for d in (28, 29, 30)]
    years = ['%04d' % y for y in range(0, 10000, 1 if T else 7)]
    inp['DT']['calendar'] = (cal, 1.0)
    inp['DT']['february'] = (feb, 1.0 if T else 0.15)
    inp['DT']['years'] = (years, 0.3)
    inp['DTM']['calendar'] = (cal + [c + '12' for c in cal[::5]], 1.0 if T else 0.5)
    inp['DTM']['february'] = ([f + rng.choice(('', '12', '1230+0100')) for f in feb], 0.5 if T else 0.1)
    # ---- years below 1000 keep their zero padding: every shape of value for the boundary years
    low = []
    for y in (1, 9, 10, 99, 100, 999, 1000):
        yy = '%04d' % y
        for b in (yy, yy + '01', yy + '12', yy + '0101', yy + '1231', yy + '0228', yy + '0229', yy + '0301'):
            low.append(b)
            for o in ('+0000', '-1200', '+1400'):
                low.append(b + o)
            if len(b) == 8:
                for t in ('00', '23', '0000', '2359', '000000', '235959', '235959.1', '235959.1234', '000000.0001'):
                    low.append(b + t)
                    low.append(b + t + '+0100')
    inp['DT']['years_below_1000'] = (low, 1.0)
    inp['DTM']['years_below_1000'] = (low, 1.0)
    # ---- boundary lengths
    full = '20240229235959.1234+0100'
    pre = [full[:i] for i in range(len(full) + 1)] + [full[:i] + '+0100' for i in range(20)] + \
          ['1' * n for n in range(0, 28)] + ['0' * n for n in range(0, 12)]
    inp['DTM']['lengths'] = (pre, 1.0)
    inp['DT']['lengths'] = (pre, 1.0)
    tfull = '235959.12345+0100'
    inp['TM']['lengths'] = ([tfull[:i] for i in range(len(tfull) + 1)] + [tfull[:i] + '-1200' for i in range(13)] +
                            ['1' * n for n in range(0, 20)], 1.0)
    nml = []
    for n in range(1, 22):
        for d in '19':
            nml += [d * n, '-' + d * n, '+' + d * n, '0' + d * n, '0' * n + d, d * n + '.', '.' + d * n,
                    '0.' + '0' * n + d, '-0.' + '0' * n + d, '0.' + '0' * n, d + '.' + '0' * n]
            for k in range(1, n):
                nml.append(d * (n - k) + '.' + d * k)
                nml.append('-' + d * (n - k) + '.' + d * k)
    # beyond the default precision of the decimal module (28 significant digits): under TOLERANT the number is kept exactly
    for n in (27, 28, 29, 30, 31, 40, 60):
        nml += ['1' + '0' * (n - 2) + '1', '-' + '9' * n, '1' * (n - 5) + '.' + '7' * 5, '0.' + '3' * n,
                '1' + '0' * (n - 2) + '1e5', '123456789' * (n // 9 + 1)]
    inp['NM']['lengths'] = (nml, 1.0)
    inp['SI']['lengths'] = (nml[:: 3] + ['%d' % n for n in range(0, 20000, 37)] + ['0' * k + '9' * n for k in range(4)
                                                                                  for n in range(1, 7)], 1.0)
    # ---- random longer strings and mutations of conforming strings
    ralpha = '0123456789' * 3 + '..++-- _eExNnaIf|^&~\\#\t\n'
    for dt in DTS:
        rnd = []
        for _ in range(6000 if T else 1500):
            rnd.append(''.join(rng.choice(ralpha) for _ in range(rng.randint(6, 24))))
        seeds = []
        for _ in range(8000 if T else 2500):
            if dt == 'DT':
                b = '%04d%02d%02d' % (rng.choice((1, 999, 1000, 1999, 2024, 9999)), rng.randint(1, 12), rng.randint(1, 31))
                b = b[:rng.choice((4, 6, 8))]
            elif dt == 'TM':
                b = rand_time(rng) + (('.' + ''.join(rng.choice('0123456789') for _ in range(rng.randint(1, 4))))
                                      if rng.random() < 0.3 else '') + (rand_offset(rng) if rng.random() < 0.5 else '')
            elif dt == 'DTM':
                b = '%04d%02d%02d' % (rng.choice((1, 99, 999, 1000, 1999, 2024, 9999)), rng.randint(1, 12), rng.randint(1, 28))
                b = b[:rng.choice((4, 6, 8, 8, 8))]
                if len(b) == 8:
                    b += rand_time(rng) if rng.random() < 0.7 else ''
                    if len(b) == 14 and rng.random() < 0.4:
                        b += '.' + ''.join(rng.choice('0123456789') for _ in range(rng.randint(1, 4)))
                b += rand_offset(rng) if rng.random() < 0.5 else ''
            elif dt == 'NM':
                b = rng.choice(('', '-', '+')) + ''.join(rng.choice('0123456789') for _ in range(rng.randint(0, 9)))
                if rng.random() < 0.6:
                    b += '.' + ''.join(rng.choice('0000123456789') for _ in range(rng.randint(0, 10)))
                if rng.random() < 0.15:
                    b += rng.choice('eE') + rng.choice(('', '-', '+')) + str(rng.randint(0, 30))
            else:
                b = ''.join(rng.choice('0123456789') for _ in range(rng.randint(1, 6)))
            seeds.append(b)
            seeds.append(mutate(rng, b, ralpha))
        inp[dt]['random'] = (rnd, 1.0)
        inp[dt]['near_valid'] = (seeds, 1.0)
        inp[dt]['nonascii'] = (NONASCII[dt], 0.0)
    return inp


# ------------------------------------------------------------------------------------------------


def coq_bs(s):
    """a `bs` literal (or BS applied to a spliced list when the text has non-printable bytes)"""
    if all(32 <= ord(c) < 127 and c != '"' for c in s):
        return '"%s"' % s
    return '(BS %s)' % coq_str(s)


def coq_case(di, s, so, to, chk, sp):
    dflt_chk = 2 if di >= 3 else None
    if so == (30, False, '') and to == (0, True, s) and not sp and chk == (0 if dflt_chk is None else 2):
        return 'R %s' % coq_bs(s)
    if so == (0, False, s) and to == so and sp and chk == (1 if dflt_chk is None else 2):
        return 'A %s' % coq_bs(s)

    def ob(o):
        code, fb, t = o
        return '%d %s %s' % (code, 'T' if fb else 'F', 'N_' if t == s else '(S_ %s)' % coq_bs(t))
    return 'C %s %s %s %d %s' % (coq_bs(s), ob(so), ob(to), chk, 'T' if sp else 'F')


PRELUDE = """From Coq Require Import List NArith ZArith Init.Byte Bool Arith.
From HL7 Require Import Lib.Str Model.Ec Model.Result Model.Escape Model.Datatypes Gen.Params.
Import ListNotations. Open Scope bs_scope.
Definition T := true. Definition F := false. Definition S_ := @Some bs. Definition N_ := @None bs.
(* R: rejected under STRICT with ValueError, kept verbatim by the TOLERANT fall-back, not conforming;
   A: accepted and encoded unchanged under both levels, conforming; C: anything else *)
Inductive case :=
  | R (s : bs) | A (s : bs)
  | C (s : bs) (c1 : nat) (f1 : bool) (t1 : option bs) (c2 : nat) (f2 : bool) (t2 : option bs)
      (chk : nat) (sp : bool).
Definition names : list str := ["DT" : str; "TM" : str; "DTM" : str; "NM" : str; "SI" : str].
Definition obs_eqb (s : str) (r : result (bool * str)) (code : nat) (fb : bool) (t : option bs) : bool :=
  match r with
  | Ok (b, x) => (code =? 0) && Bool.eqb b fb && streqb x (match t with Some y => unbs y | None => s end)
  | Err e => exn_code e =? code
  end.
Definition chk_code (r : result bool) : nat :=
  match r with Ok true => 1 | Ok false => 0 | Err e => 10 + exn_code e end.
Definition chk_of (d : nat) (s : str) : nat :=
  match d with 0 => chk_code (check_date s) | 1 => chk_code (check_timestamp s)
             | 2 => chk_code (check_datetime s) | _ => 2 end.
Definition spec_of (d : nat) (s : str) : bool :=
  match d with 0 => spec_DT s | 1 => spec_TM s | 2 => spec_DTM s | 3 => spec_NM s | _ => spec_SI s end.
Definition run_gen (v d : nat) (s : str) c1 f1 t1 c2 f2 t2 (chk : nat) (sp : bool) : bool :=
  let ver := nth v supported_versions [] in
  let e := if str_geb ver "2.7" then default_ec_27 else default_ec in
  let name := nth d names [] in
  obs_eqb s (factory ver STRICT name e s) c1 f1 t1 && obs_eqb s (factory ver TOLERANT name e s) c2 f2 t2 &&
  (chk_of d s =? chk) && Bool.eqb (spec_of d s) sp.
Definition run1 (v d : nat) (c : case) : bool :=
  let k := match d with 0 | 1 | 2 => 0 | _ => 2 end in
  match c with
  | R s => run_gen v d s 30 F N_ 0 T N_ k F
  | A s => run_gen v d s 0 F N_ 0 F N_ (k + (2 - k) / 2) T
  | C s c1 f1 t1 c2 f2 t2 chk sp => run_gen v d s c1 f1 t1 c2 f2 t2 chk sp
  end.
Fixpoint failing (v d n : nat) (l : list case) : list nat :=
  match l with [] => [] | c :: r => (if run1 v d c then [] else [n]) ++ failing v d (S n) r end.
"""


def main(argv=None):
    run = Run('C13', argv)
    impl = Impl()
    if run.replay:
        return replay(run, impl)
    ok = run.build(['Properties/C13.vo'], gen=('params',),
                   obligation_files=['Properties/C13.v'])
    if ok:
        run.print_assumptions('Properties.C13', [n for n, _ in theorems_of('Properties/C13.v')])
    orc = Oracle(run, impl)
    inputs = gen_inputs(run)
    # the default delimiter sets the model assumes for the ST fall-back
    import hl7apy
    for v in impl.versions:
        exp = hl7apy.get_default_encoding_chars('2.7' if v >= '2.7' else '2.5')
        if impl.ec[v] != dict(exp):
            run.disagree('default-ec', version=v, why='default encoding characters of the version differ from '
                         'the ones the case files use')
    cases = []           # (vi, di, s, so, to, chk, spec)
    evals = 0
    nontrivial = set()
    dist = {}
    for di, dt in enumerate(DTS):
        groups = impl.groups(dt)
        present = [g for g in groups if dt in impl.bdt[g[0]]]
        absent = [g for g in groups if dt not in impl.bdt[g[0]]]
        seen = set()
        for cat, (strings, frac) in inputs[dt].items():
            n_cat = 0
            for s in strings:
                if s in seen:
                    continue
                seen.add(s)
                n_cat += 1
                in_model = is_model_str(s) and all(ord(c) < 128 for c in s)
                to_model = in_model and (frac >= 1.0 or (frac > 0 and run.rng.random() < frac))
                chk = impl.checkfn(dt, s)
                sp = SPEC[dt](s)
                for gi, g in enumerate(present):
                    if gi > 0 and not (cat in ('f10', 'near_valid', 'wide', 'lengths', 'years_below_1000') or len(s) <= 4):
                        continue
                    v = g[0]
                    so = impl.observe(dt, s, v, 'S')
                    to = impl.observe(dt, s, v, 'T')
                    evals += 2
                    orc.judge(dt, s, v, so, to, chk)
                    if so[0] == 0 or sp:
                        nontrivial.add((dt, s))
                    if to_model and (gi == 0 or cat == 'f10' or (so, to) != first):
                        cases.append((impl.versions.index(v), di, s, so, to, chk, sp))
                    if gi == 0:
                        first = (so, to)
            dist['%s/%s' % (dt, cat)] = n_cat
        # every version: the plumbing of the factory (F10 witnesses and a sample)
        smoke = F10[dt] + run.rng.sample(inputs[dt]['near_valid'][0], 60)
        for v in impl.versions:
            for s in smoke:
                so = impl.observe(dt, s, v, 'S')
                to = impl.observe(dt, s, v, 'T')
                evals += 2
                if dt in impl.bdt[v]:
                    orc.judge(dt, s, v, so, to, impl.checkfn(dt, s))
                    # the level in force is the one given or, when none is given, the library default
                    for lv, seen_obs in (('S', so), ('T', to)):
                        od = impl.observe_default(dt, s, v, lv)
                        evals += 1
                        if od != seen_obs:
                            run.fail('default-level-not-applied', 'datatype_factory without a validation level does not behave '
                                     'as under the library default level', datatype=dt, version=v, input=s,
                                     level={'S': 'STRICT', 'T': 'TOLERANT'}[lv], with_explicit_level=list(seen_obs),
                                     with_default_level=list(od))
                elif so[0] != 20 or to[0] != 20:
                    run.fail('missing-datatype-not-reported', 'a datatype the version lacks is not reported as '
                             'InvalidDataType', datatype=dt, version=v, input=s, code=so[0])
                if all(ord(c) < 128 for c in s):
                    cases.append((impl.versions.index(v), di, s, so, to, impl.checkfn(dt, s), SPEC[dt](s)))
        del absent
    run.log('implementation side: %d factory evaluations, %d model cases, %d oracle failures (%d classes)'
            % (evals, len(cases), sum(orc.counts.values()), len(orc.counts)))
    # ---- model side: one (version, datatype) per case file
    bykey = {}
    for c in cases:
        bykey.setdefault((c[0], c[1]), []).append(c)
    shards = []
    for key in sorted(bykey):
        shards.extend(shard(bykey[key], 1500))
    files = []
    for k, sh in enumerate(shards):
        rows = [coq_case(di, s, so, to, chk, sp) for vi, di, s, so, to, chk, sp in sh]
        files.append(('c13_%d_%d' % (os.getpid(), k),
                      PRELUDE + 'Definition cases : list case := [\n' + ';\n'.join(rows) +
                      '].\nEval vm_compute in failing %d %d 0 cases.\n' % (sh[0][0], sh[0][1])))
    results = coq_eval_many(files)
    evaluated = 0
    for k, (rc, out) in enumerate(results):
        lists = parse_nat_lists(out)
        if rc != 0 or len(lists) != 1:
            run.disagree('datatypes', why='case file did not evaluate', shard=k, output=out[-800:])
            continue
        evaluated += len(shards[k])
        for idx in lists[0]:
            vi, di, s, so, to, chk, sp = shards[k][idx]
            run.disagree('datatypes', version=impl.versions[vi], datatype=DTS[di], input=s, strict=so,
                         tolerant=to, check=chk, python_spec=sp)
    run.log('model side: %d cases evaluated by vm_compute, %d disagreements' % (evaluated, len(run.disagreements)))
    step = max(1, len(cases) // 8)
    samples = [{'version': impl.versions[c[0]], 'datatype': DTS[c[1]], 'input': c[2], 'strict': c[3],
                'tolerant': c[4], 'check': c[5], 'spec': c[6]} for c in cases[::step][:8]]
    run.finish({
        'evaluations': evals,
        'distinct_nontrivial': len(nontrivial),
        'rule': 'cases = (datatype, string) run through datatype_factory of one version per distinct (datatype '
                'class, ST class) pair under STRICT and TOLERANT, to_er7 and utils.check_*; strings: exhaustive '
                'over {0 1 9 . + - blank x} up to length %d, exhaustive over a 16-letter alphabet (e E _ n a N i f '
                'newline FS ...) up to length %d for NM/SI, the time-of-day grid, every +/-HHMM offset, calendar '
                'boundaries (years 0000, 0001, 0004, 0099, 0100, 0400, 0999, 1000, ..., 9999; 28-30 Feb of every year), '
                'every shape of DT/DTM value for the years 0001-1000 boundary, boundary lengths, random strings and mutations of conforming strings, the F10 '
                'witnesses; non-trivial = conforming to the grammar or accepted under STRICT; every version gets '
                'the F10 witnesses and a sample; the Coq model is run on every case of the small categories and on '
                'a random sample of the large ones (longest exhaustive strings, 6-digit times, offsets, 29 Feb)'
                % (6 if run.thorough else 5, 4 if run.thorough else 3),
        'samples': samples,
        'traces_validated_against_impl': evaluated,
        'input_distribution': dist,
        'oracle_failure_classes': {'/'.join(str(x) for x in k): n for k, n in sorted(orc.counts.items(), key=str)},
        'class_groups': {dt: impl.groups(dt) for dt in DTS},
    }, assumptions=[
        'model fidelity is claimed for ASCII text; non-ASCII digits are exercised by the oracle only',
        'NM exponents of more than 18 digits are outside the model',
        'the round-trip clause of DT/DTM is evaluated for every accepted year 0001-9999: DateTimeDataType.to_er7 '
        'formats the year itself with four digits (strftime("%Y") alone does not pad years below 1000 on this platform)',
        'an empty string is "no value" (SubComponent never passes it to the factory) and is not judged for acceptance',
        'the maximum length is measured on the formatted value, as BaseDataType.__init__ does',
    ])


def replay(run, impl):
    import json
    r = json.load(open(run.replay))
    inp = r.get('input', {})
    orc = Oracle(run, impl)
    dt, s, v = inp.get('datatype'), inp.get('input'), inp.get('version', '2.5')
    if dt in DTS and isinstance(s, str) and v in impl.versions and dt in impl.bdt[v]:
        so = impl.observe(dt, s, v, 'S')
        to = impl.observe(dt, s, v, 'T')
        print('strict:', so, 'tolerant:', to, 'spec:', SPEC[dt](s))
        orc.judge(dt, s, v, so, to, impl.checkfn(dt, s))
    for f in run.failures:
        print('replayed failure:', f['kind'], f['data'])
    run.finish({'evaluations': 2, 'distinct_nontrivial': 2, 'rule': 'replay of one stored case', 'samples': [inp]})


if __name__ == '__main__':
    from common import run_guarded
    run_guarded('C13', main)
