"""C07 - a message's encoding characters govern its entire encoding.

Obligations: coq/Properties/C07.v (Model/MsgEc.v: check_encoding_chars, Message._set/_get_encoding_chars,
MSH header text, inheritance along the parent chain, to_mllp; Model/Header.v: _split_msh).
Oracle: the property's clauses evaluated on hl7apy for all 12 versions x random sets of 5/6 distinct
punctuation characters (no '.') x messages with repetitions, components and subcomponents, built
through the API and through parse_message; invalid sets.
Correspondence: the model's set/get/header text, check_encoding_chars/Message(...) outcomes and
get_message_info/get_message_type are evaluated inside coqc on the same sets and texts.
"""
import json
import os
import string
import sys

sys.path.insert(0, os.path.dirname(__file__))
from common import Run, use_repo, coq_eval_many, parse_nat_lists, shard, theorems_of
from coqgen import coq_str, coq_opt, coq_list
from headercorr import (outcome, exn_code, ec_dict, ec_of_dict, ec_term, ecdict_term, observe_header,
                        run_header_correspondence, KEYS)

use_repo()

PUNCT = [c for c in string.punctuation if c != '.']   # '.' is needed by the version string (domain restriction)
ALNUM = string.ascii_letters + string.digits
TS = '20200101120000'
STRICT, TOLERANT = 1, 2
DEFAULT5 = ('|', '^', '~', '\\', '&', None)
DEFAULT6 = ('|', '^', '~', '\\', '&', '#')


def versions():
    import hl7apy
    return sorted(hl7apy.SUPPORTED_LIBRARIES.keys(), key=lambda v: [int(x) for x in v.split('.')])


def random_ec(rng, with_trunc):
    chars = rng.sample(PUNCT, 6)
    return tuple(chars[:5]) + ((chars[5],) if with_trunc else (None,))


def expected_dict(ec, v):
    """What the property says encoding_chars must read back as: the set, TRUNCATION iff supplied and v >= 2.7."""
    f, c, r, e, s, t = ec
    d = {'FIELD': f, 'COMPONENT': c, 'REPETITION': r, 'ESCAPE': e, 'SUBCOMPONENT': s, 'GROUP': '\r', 'SEGMENT': '\r'}
    if t is not None and v >= '2.7':
        d['TRUNCATION'] = t
    return d


def leaf(rng):
    """An alphanumeric leaf beginning with a letter: a digit-first leaf such as 6E7 under a numeric datatype
    (v2.1 PID-3.1 is NM) is re-written by the datatype as 6E+7, and that '+' is leaf text, not a separator."""
    return rng.choice(string.ascii_letters) + ''.join(rng.choice(ALNUM) for _ in range(rng.randint(0, 4)))


def field_reps(rng, ec, reps=True, subs=True):
    """The repetitions of a field, each written with the set's own separators: components of subcomponents."""
    f, c, r, e, s, t = ec
    out = []
    for _ in range(rng.randint(1, 3) if reps else 1):
        comps = []
        for k in range(rng.randint(1, 4)):
            if k > 0 and rng.random() < 0.15:
                comps.append('')
            else:
                comps.append(s.join(leaf(rng) for _ in range(rng.randint(1, 3) if subs else 1)))
        if comps[-1] == '':
            comps.append(leaf(rng))
        out.append(c.join(comps))
    return out


def tolerant_content(rng, ec):
    """segment -> [(field attribute, [repetition texts])] in message order"""
    return [
        ('EVN', [('evn_1', [leaf(rng)])]),
        ('PID', [('pid_3', field_reps(rng, ec)), ('pid_5', field_reps(rng, ec)), ('pid_11', field_reps(rng, ec))]),
        ('NK1', [('nk1_2', field_reps(rng, ec)), ('nk1_4', field_reps(rng, ec))]),
        ('OBX', [('obx_1', ['1']), ('obx_5', field_reps(rng, ec))]),
        ('ZZ1', [('zz1_1', [leaf(rng)]), ('zz1_3', field_reps(rng, ec))]),
    ]


def strict_candidates(ec):
    """Well-typed fields (lists of repetitions), most structured first; a candidate a version's tables
    refuse is skipped."""
    f, c, r, e, s, t = ec
    return [
        ('PID', 'pid_3', [['12' + c * 3 + 'AUTH' + s + 'OID' + s + 'ISO', '34' + c * 3 + 'REG'], ['12', '34'], ['12']]),
        ('PID', 'pid_5', [['Smith' + s + 'Van' + c + 'John' + c + 'Q', 'Doe' + c + 'Jane'], ['Smith' + c + 'John' + c + 'Q'],
                          ['Smith']]),
        ('PID', 'pid_11', [['Street' + c * 2 + 'City' + c + 'ST' + c + '12345', 'Other' + c * 2 + 'Town'],
                           ['Street' + c * 2 + 'City'], ['Street']]),
        ('NK1', 'nk1_2', [['Roe' + c + 'Rick'], ['Roe']]),
    ]


def msh9(ec):
    return 'ADT' + ec[1] + 'A01'


def build_api(v, ec, lvl, content, use_default=False):
    """Message(name, version, encoding_chars) + fields assigned by text, one add_field per repetition.
    Returns (message, assigned) where assigned lists what was really set (STRICT skips candidates the
    tables refuse)."""
    from hl7apy.core import Message
    from hl7apy.exceptions import HL7apyException
    kw = {} if use_default else {'encoding_chars': ec_dict(ec)}
    m = Message('ADT_A01', version=v, validation_level=lvl, **kw)
    m.msh.msh_7 = TS
    m.msh.msh_9 = msh9(ec)
    m.msh.msh_10 = 'ID1'
    m.msh.msh_11 = 'P'
    assigned = []
    if lvl == TOLERANT:
        for seg_name, fields in content:
            seg = m.add_segment(seg_name)
            for attr, reps in fields:
                set_field(seg, attr, reps)
                assigned.append((seg_name, attr, reps))
    else:
        segs = {}
        for seg_name, attr, cands in content:
            if seg_name not in segs:
                segs[seg_name] = m.add_segment(seg_name)
            for reps in cands:
                try:
                    set_field(segs[seg_name], attr, reps)
                    assigned.append((seg_name, attr, reps))
                    break
                except (HL7apyException, ValueError):
                    # drop whatever part of the refused candidate was attached
                    for fld in [x for x in segs[seg_name].children if x.name == attr.upper()]:
                        segs[seg_name].children.remove(fld)
                    continue
    return m, assigned


def set_field(seg, attr, reps):
    """The first repetition by attribute assignment (parsed with the segment's encoding characters), the
    others by add_field + value."""
    setattr(seg, attr, reps[0])
    for rep in reps[1:]:
        fld = seg.add_field(attr)
        fld.value = rep


def build_text(v, ec, content, trunc_in_header):
    """ER7 text written by hand with the set's separators."""
    f, c, r, e, s, t = ec
    msh2 = c + r + e + s + (t if trunc_in_header else '')
    lines = ['MSH' + f + msh2 + f + f.join(['SND', 'FAC', '', '', TS, '', msh9(ec), 'ID1', 'P', v])]
    for seg_name, fields in content:
        if seg_name == 'ZZ1':
            lines.append('IN1' + f + '1' + f + leaf_const(ec))
        idx = {}
        for attr, reps in fields:
            idx[int(attr.split('_')[1])] = r.join(reps)
        last = max(idx)
        lines.append(seg_name + f + f.join(idx.get(i, '') for i in range(1, last + 1)))
    return '\r'.join(lines)


def leaf_const(ec):
    return 'PLAN' + ec[1] + 'Name'


def walk(e):
    yield e
    for ch in list(getattr(e, 'children', None) or []):
        for x in walk(ch):
            yield x


def check_message(run, m, ec, v, lvl, route, data, find_groups=True):
    """The property's clauses on one message whose set is `ec` (supplied or found in the text)."""
    from hl7apy.parser import parse_message
    f, c, r, e, s, t = ec
    exp = expected_dict(ec, v)
    emit = t is not None and v >= '2.7'
    base = dict(data, route=route, version=v, ec=ec, level=lvl)
    try:
        er7 = m.to_er7()
    except Exception as ex:  # noqa
        run.fail('to-er7-raises', 'to_er7() raised on a message with custom encoding characters', exc=repr(ex), **base)
        return None
    base['er7'] = er7
    head = 'MSH' + f + c + r + e + s + (t if emit else '') + f
    if not er7.startswith(head):
        run.fail('header-not-spelled', 'MSH-1/MSH-2 of the output do not spell the message\'s set', expected_prefix=head, **base)
    first = er7.split('\r')[0].split(f)
    if len(first) > 1 and (len(first[1]) == 5) != emit:
        run.fail('truncation-emission', 'the truncation character is not emitted exactly when supplied and v >= 2.7',
                 msh_2=first[1], supplied=t is not None, **base)
    try:
        got = m.encoding_chars
    except Exception as ex:  # noqa
        got = repr(ex)
    if got != exp:
        run.fail('readback-differs', 'message.encoding_chars does not read back the set', got=got, expected=exp, **base)
    n_desc = 0
    for el in walk(m):
        if el is m:
            continue
        n_desc += 1
        try:
            g = el.encoding_chars
        except Exception as ex:  # noqa
            g = repr(ex)
        if g != exp:
            run.fail('descendant-readback-differs', 'a descendant\'s encoding_chars differs from the message\'s',
                     element=repr(el), got=g, expected=exp, **base)
            break
    allowed = set(x for x in (f, c, r, e, s) if x) | ({t} if emit else set()) | {'\r'}
    foreign = sorted(set(ch for ch in er7 if not (ch.isalnum() and ord(ch) < 128) and ch != '.' and ch not in allowed))
    if foreign:
        run.fail('foreign-separator', 'the output contains a separator that is not one of the message\'s encoding characters',
                 foreign=foreign, **base)
    try:
        mllp = m.to_mllp()
    except Exception as ex:  # noqa
        mllp = repr(ex)
    if mllp != '\x0b' + er7 + '\r\x1c\r':
        run.fail('mllp-framing', 'to_mllp() is not SB + to_er7() + CR + EB + CR', mllp=mllp, **base)
    try:
        m2 = parse_message(er7, validation_level=lvl, find_groups=find_groups)
        got2, er72 = m2.encoding_chars, m2.to_er7()
    except Exception as ex:  # noqa
        run.fail('reparse-raises', 'parse_message(to_er7()) raised', exc=repr(ex), reparse_exception=type(ex).__name__, **base)
        return er7
    if got2 != exp:
        run.fail('reparse-set-differs', 'parse_message(to_er7()) does not recover the same set', got=got2, expected=exp, **base)
    if er72 != er7:
        run.fail('reparse-differs', 'parse_message(to_er7()).to_er7() differs from to_er7()', er7_again=er72, **base)
    data['_descendants'] = n_desc
    return er7


def expect_invalid(run, what, fn, **data):
    """fn must raise InvalidEncodingChars."""
    from hl7apy.exceptions import InvalidEncodingChars
    code, val, ex = outcome(fn)
    if code == 0:
        run.fail('invalid-set-accepted', '%s accepted an invalid set of encoding characters' % what, where=what, **data)
    elif not isinstance(ex, InvalidEncodingChars):
        run.fail('invalid-set-wrong-exception', '%s raised something else than InvalidEncodingChars' % what, where=what,
                 exc=repr(ex), **data)
    return code


def invalid_dicts(rng, n_random):
    """(dict, why) for missing keys and duplicates (TRUNCATION duplicates included)."""
    out = [({}, 'empty set'), ({'FIELD': '|'}, 'only FIELD'), ({'SEGMENT': '\r', 'GROUP': '\r'}, 'no delimiter at all'),
           ({'FIELD': '|', 'COMPONENT': '^', 'REPETITION': '~'}, 'missing ESCAPE and SUBCOMPONENT')]
    bases = [DEFAULT5, DEFAULT6] + [random_ec(rng, i % 2 == 0) for i in range(n_random)]
    for ec in bases:
        d = ec_dict(ec)
        for k in ('FIELD', 'COMPONENT', 'SUBCOMPONENT', 'REPETITION', 'ESCAPE'):
            dd = dict(d)
            del dd[k]
            out.append((dd, 'missing ' + k))
        keys = [k for k in KEYS if k in d]
        for i, k1 in enumerate(keys):
            for k2 in keys[i + 1:]:
                for src, dst in ((k1, k2), (k2, k1)):
                    dd = dict(d)
                    dd[dst] = d[src]
                    out.append((dd, 'duplicate %s=%s' % (src, dst)))
        if 'TRUNCATION' not in d:
            for k in keys:
                dd = dict(d)
                dd['TRUNCATION'] = d[k]
                out.append((dd, 'duplicate TRUNCATION=%s' % k))
    return out


def invalid_oracle(run, rng, vs):
    """Invalid sets are rejected by Message(...), the encoding_chars setter, set_default_encoding_chars and
    check_encoding_chars; invalid MSH-2 by parse_message and get_message_type.  Returns check cases."""
    import hl7apy
    from hl7apy.core import Message
    from hl7apy.parser import parse_message, get_message_type
    cases = []   # (dict, check code, message code or None)
    n = 0
    dicts = invalid_dicts(rng, 4 if not run.thorough else 30)
    for i, (d, why) in enumerate(dicts):
        v = vs[i % len(vs)]
        c1 = expect_invalid(run, 'check_encoding_chars', lambda: hl7apy.check_encoding_chars(dict(d)), set=d, why=why)
        c2 = expect_invalid(run, 'Message(...)', lambda: Message('ADT_A01', version=v, encoding_chars=dict(d)),
                            set=d, why=why, version=v)
        saved = hl7apy._DEFAULT_ENCODING_CHARS
        try:
            expect_invalid(run, 'set_default_encoding_chars', lambda: hl7apy.set_default_encoding_chars(dict(d)), set=d, why=why)
        finally:
            hl7apy._DEFAULT_ENCODING_CHARS = saved
        if i % 7 == 0:
            m = Message('ADT_A01', version=v)

            def setter():
                m.encoding_chars = dict(d)
            expect_invalid(run, 'message.encoding_chars = ...', setter, set=d, why=why, version=v)
        cases.append((d, c1, c2))
        n += 1
    # parsed text: duplicated or missing MSH-2 characters
    texts = []
    for i in range(len(vs) * (3 if not run.thorough else 12)):
        v = vs[i % len(vs)]
        ec = random_ec(rng, False) if i >= 2 * len(vs) else DEFAULT5
        f, c, r, e, s, t = ec
        tail = f + f.join(['SND', 'FAC', '', '', TS, '', msh9(ec), 'ID1', 'P', v]) + '\rPID' + f + '1'
        four = [c, r, e, s]
        variants = []
        for a in range(4):
            for b in range(4):
                if a != b:
                    dup = list(four)
                    dup[b] = four[a]
                    variants.append((''.join(dup), 'duplicate'))
        for k in range(4):
            variants.append((''.join(four[:k]), 'missing'))
        variants.append((''.join(four) + rng.choice([x for x in four]), 'duplicate fifth'))
        for msh2, why in (variants if i < len(vs) or run.thorough else rng.sample(variants, 5)):
            text = 'MSH' + f + msh2 + tail
            texts.append(text)
            for lvl in (TOLERANT, STRICT):
                expect_invalid(run, 'parse_message', lambda: parse_message(text, validation_level=lvl), text=text, why=why)
            expect_invalid(run, 'get_message_type', lambda: get_message_type(text), text=text, why=why)
            n += 1
    return cases, texts, n


def extra_check_cases(rng):
    """check_encoding_chars on dicts outside the property's quantifier (values that are not single
    characters, unknown keys): only the correspondence looks at them."""
    import hl7apy
    out = []
    dicts = [
        {'FIELD': '||', 'COMPONENT': '^', 'SUBCOMPONENT': '&', 'REPETITION': '~', 'ESCAPE': '\\'},
        {'FIELD': 'ab', 'COMPONENT': 'ab', 'SUBCOMPONENT': '&', 'REPETITION': '~', 'ESCAPE': '\\'},
        {'FIELD': '', 'COMPONENT': '^', 'SUBCOMPONENT': '&', 'REPETITION': '~', 'ESCAPE': '\\'},
        {'FIELD': '', 'COMPONENT': '', 'SUBCOMPONENT': '&', 'REPETITION': '~', 'ESCAPE': '\\'},
        {'FIELD': '|', 'COMPONENT': '^', 'SUBCOMPONENT': '&', 'REPETITION': '~', 'ESCAPE': '\\', 'TRUNCATION': '##'},
        {'FIELD': '|', 'COMPONENT': '^', 'SUBCOMPONENT': '&', 'REPETITION': '~', 'ESCAPE': '\\', 'TRUNCATION': ''},
        {'FIELD': '|', 'COMPONENT': '^', 'SUBCOMPONENT': '&', 'REPETITION': '~', 'ESCAPE': '\\', 'GROUP': '|', 'SEGMENT': '|'},
        {'FIELD': '|', 'COMPONENT': '^', 'SUBCOMPONENT': '&', 'REPETITION': '~', 'ESCAPE': '\\', 'OTHER': '^'},
        {},
        {'TRUNCATION': '#'},
    ]
    for d in dicts:
        code, _, _ = outcome(hl7apy.check_encoding_chars, dict(d))
        out.append((d, code, None))
    return out


def sibling_messages_oracle(run, rng, vs):
    """Several messages alive in one process whose sets overlap (same MSH-2, different MSH-1; same
    MSH-1, different MSH-2; same set, different version): each keeps reading back and encoding with
    ITS OWN set, whatever was read from the others in between."""
    import hl7apy
    from hl7apy.core import Message
    from hl7apy.parser import parse_message
    n = 0
    for v in vs:
        inner = rng.sample([c for c in PUNCT if c not in '_\\|^~&!'], 6)   # '_' occurs in ADT_A01
        f1, f2 = inner[4], inner[5]
        sets = [(f1, inner[0], inner[1], inner[2], inner[3]), (f2, inner[0], inner[1], inner[2], inner[3]),
                (f1, inner[1], inner[0], inner[2], inner[3]), ('|', '^', '~', '\\', '&'), ('!', '^', '~', '\\', '&')]
        msgs = []
        for (f, c, r, e, sb) in sets:
            d = {'FIELD': f, 'COMPONENT': c, 'REPETITION': r, 'ESCAPE': e, 'SUBCOMPONENT': sb, 'SEGMENT': '\r', 'GROUP': '\r'}
            mt = 'ADT%sA01%sADT_A01' % (c, c) if v >= '2.3.1' else 'ADT%sA01' % c
            msh = f.join(['MSH', c + r + e + sb, 'A', 'B', 'C', 'D', '20200101', '', mt, '1', 'P', v])
            text = '\r'.join([msh, f.join(['EVN', 'A01', '20200101']), f.join(['PID', '1', '', 'X' + c + 'Y' + sb + 'Z'])])
            try:
                m_api = Message('ADT_A01', version=v, encoding_chars=dict(d))
                m_api.msh.msh_7 = '20200101'
                m_par = parse_message(text, find_groups=False)
            except Exception as ex:  # noqa
                run.fail('construction-raises', 'building/parsing a message with a valid set raised', version=v,
                         ec=[f, c, r, e, sb], level=2, exc=repr(ex))
                continue
            msgs.append((d, text, m_api, m_par))
            # from v2.7: five-character MSH-2, MSH-12 carrying more than the bare version id (VID.2 etc.)
            if v >= '2.7':
                tr = [x for x in PUNCT if x not in (f, c, r, e, sb) and x not in '_'][0]
                d6 = dict(d)
                d6['TRUNCATION'] = tr
                msh6 = f.join(['MSH', c + r + e + sb + tr, 'A', 'B', 'C', 'D', '20200101', '', mt, '1', 'P',
                               v + c + 'ITA' + c + 'x'])
                text6 = '\r'.join([msh6, f.join(['EVN', 'A01', '20200101'])])
                try:
                    m6 = parse_message(text6, find_groups=False)
                    got6 = m6.encoding_chars.get('TRUNCATION')
                    if got6 != tr or m6.to_er7() != text6:
                        run.fail('reparse-set-differs', 'a v2.7+ message with five encoding characters and a multi-'
                                 'component MSH-12 does not keep its set / text', version=v, ec=[f, c, r, e, sb, tr],
                                 level=2, route='msh12-components', got=got6, expected=tr)
                except Exception as ex:  # noqa
                    run.fail('parse-raises', 'parse_message raised on a v2.7+ message with five encoding characters and a '
                             'multi-component MSH-12', version=v, ec=[f, c, r, e, sb, tr], level=2, exc=repr(ex),
                             route='msh12-components')
        for rounds in range(2):
            order = list(range(len(msgs)))
            rng.shuffle(order)
            for i in order:
                d, text, m_api, m_par = msgs[i]
                n += 1
                for which, m in (('api', m_api), ('parsed', m_par)):
                    got = {k: m.encoding_chars.get(k) for k in ('FIELD', 'COMPONENT', 'REPETITION', 'ESCAPE', 'SUBCOMPONENT')}
                    exp = {k: d[k] for k in got}
                    if got != exp:
                        run.fail('readback-differs', 'message.encoding_chars does not read back the set (other messages '
                                 'with overlapping sets are alive in the process)', version=v, ec=[d['FIELD'], d['COMPONENT'],
                                 d['REPETITION'], d['ESCAPE'], d['SUBCOMPONENT']], level=2, route='siblings-' + which,
                                 got=got, expected=exp)
                    for ch in m.msh.children:
                        if ch.encoding_chars.get('FIELD') != d['FIELD']:
                            run.fail('descendant-readback-differs', 'a descendant\'s encoding_chars differs from the '
                                     'message\'s (other messages with overlapping sets are alive)', version=v,
                                     ec=[d['FIELD'], d['COMPONENT']], level=2, route='siblings-' + which)
                            break
                out = m_par.to_er7()
                if out != text:
                    run.fail('reparse-differs', 'a parsed message does not encode back to its text while other messages '
                             'with overlapping sets are alive', version=v, ec=[d['FIELD'], d['COMPONENT']], level=2,
                             route='siblings', er7_again=out, text=text)
    return n


def main(argv=None):
    run = Run('C07', argv)
    if run.replay:
        return replay(run)
    ok = run.build(['Properties/C07.vo'], gen=('params',), obligation_files=['Properties/C07.v'])
    if ok:
        run.print_assumptions('Properties.C07', [n for n, _ in theorems_of('Properties/C07.v')])
    import hl7apy
    from hl7apy.core import Message
    from hl7apy.parser import parse_message
    from hl7apy.exceptions import HL7apyException
    rng = run.rng
    vs = versions()
    n_siblings = sibling_messages_oracle(run, rng, vs)
    nrand = 18 if not run.thorough else 240
    sg_cases = []      # (v, ec, msh1, msh2, encoding_chars dict, rest, header line)
    header_texts = []  # texts for get_message_info / get_message_type correspondence
    stats = {'api_tolerant': 0, 'api_strict': 0, 'api_default': 0, 'parsed': 0, 'setter': 0, 'descendants_read': 0,
             'strict_with_subcomponents': 0, 'sets': 0, 'with_truncation': 0}
    samples = []
    for v in vs:
        ecs = [DEFAULT5, DEFAULT6] + [random_ec(rng, i % 2 == 0) for i in range(nrand)]
        for j, ec in enumerate(ecs):
            stats['sets'] += 1
            stats['with_truncation'] += ec[5] is not None
            f, c, r, e, s, t = ec
            # ---- route A: constructor + API, TOLERANT and STRICT
            for lvl in (TOLERANT, STRICT):
                content = tolerant_content(rng, ec) if lvl == TOLERANT else strict_candidates(ec)
                data = {}
                try:
                    m, assigned = build_api(v, ec, lvl, content)
                except Exception as ex:  # noqa
                    run.fail('construction-raises', 'building a message with a valid set raised', version=v, ec=ec, level=lvl,
                             exc=repr(ex), content=content)
                    continue
                data['assigned'] = assigned
                er7 = check_message(run, m, ec, v, lvl, 'api', data)
                stats['descendants_read'] += data.get('_descendants', 0)
                if lvl == TOLERANT and v >= '2.3':
                    # values written through TWO OR MORE levels that do not exist yet are split with the message's own set
                    from hl7apy.core import Message as _M
                    try:
                        md = _M('ADT_A01', version=v, encoding_chars=ec_dict(ec))
                        md.pid.pid_3.cx_4 = 'H' + s + 'u' + s + 'I'
                        md.pid.pid_5 = 'A' + c + 'B'
                        md.nk1.nk1_2.xpn_1 = 'K'
                        got = [l for l in md.to_er7().split('\r') if l.startswith('PID') or l.startswith('NK1')]
                        want = ['PID' + f * 3 + c * 3 + 'H' + s + 'u' + s + 'I' + f * 2 + 'A' + c + 'B', 'NK1' + f * 2 + 'K']
                        stats['deep_traversal'] = stats.get('deep_traversal', 0) + 1
                        if got != want:
                            run.fail('traversal-value-split-with-other-set', 'a value assigned through levels that do not exist yet is '
                                     'not split with the message\'s own encoding characters', version=v, ec=ec, level=lvl,
                                     route='api-deep', got=got, expected=want)
                    except Exception as ex:  # noqa
                        run.fail('construction-raises', 'building a message with a valid set raised', version=v, ec=ec, level=lvl,
                                 exc=repr(ex), content='deep traversal')
                if lvl == TOLERANT:
                    stats['api_tolerant'] += 1
                else:
                    stats['api_strict'] += 1
                    stats['strict_with_subcomponents'] += any(s in rep for _, _, reps in assigned for rep in reps)
                if er7 is not None:
                    header_texts.append(er7)
                    if lvl == TOLERANT:
                        try:
                            obs = (m.msh.msh_1.to_er7(), m.msh.msh_2.to_er7(), dict(m.encoding_chars))
                            sg_cases.append((v, ec, obs[0], obs[1], obs[2], ['', '', '', '', TS, '', msh9(ec), 'ID1', 'P', v],
                                             er7.split('\r')[0]))
                        except Exception as ex:  # noqa
                            run.fail('readback-raises', 'reading MSH-1/MSH-2/encoding_chars raised', version=v, ec=ec, exc=repr(ex))
                    if len(samples) < 6 and j % 5 == 2 and lvl == TOLERANT:
                        samples.append({'route': 'api', 'version': v, 'ec': ec, 'er7': er7})
                # ---- the setter on a populated message: the new set governs the whole encoding
                if lvl == TOLERANT and j % 3 == 0:
                    ec2 = random_ec(rng, j % 2 == 0)
                    try:
                        m.encoding_chars = ec_dict(ec2)
                    except Exception as ex:  # noqa
                        run.fail('setter-raises', 'assigning a valid set to message.encoding_chars raised', version=v, ec=ec2,
                                 exc=repr(ex))
                    else:
                        er7b = check_message(run, m, ec2, v, lvl, 'setter', {'assigned': assigned, 'first_ec': ec})
                        stats['setter'] += 1
                        if er7b is not None:
                            header_texts.append(er7b)
                            sg_cases.append((v, ec2, m.msh.msh_1.to_er7(), m.msh.msh_2.to_er7(), dict(m.encoding_chars),
                                             ['', '', '', '', TS, '', 'ADT' + ec2[1] + 'A01', 'ID1', 'P', v], er7b.split('\r')[0]))
            # ---- route B: parse_message of text written with the set
            content = tolerant_content(rng, ec)
            in_header = t is not None and v >= '2.7'
            text = build_text(v, ec, content, in_header)
            header_texts.append(text)
            for fg in (True, False):
                try:
                    m = parse_message(text, validation_level=TOLERANT, find_groups=fg)
                except Exception as ex:  # noqa
                    run.fail('parse-raises', 'parse_message raised on a message written with a valid set', version=v, ec=ec,
                             text=text, exc=repr(ex), find_groups=fg)
                    continue
                found = (f, c, r, e, s, t if in_header else None)
                data = {'text': text, 'find_groups': fg}
                check_message(run, m, found, v, TOLERANT, 'parsed', data, find_groups=fg)
                stats['descendants_read'] += data.get('_descendants', 0)
                stats['parsed'] += 1
            if t is not None and v < '2.7':
                # five characters in MSH-2 below 2.7: the code rejects the text; only the model comparison looks at it
                header_texts.append(build_text(v, ec, content[:1], True))
        # ---- a default set installed earlier in the process (set_default_encoding_chars) does not decide what a message
        # built with its OWN set carries: the truncation character is emitted exactly when supplied and v >= 2.7
        if v >= '2.7':
            saved_default = hl7apy._DEFAULT_ENCODING_CHARS
            try:
                hl7apy.set_default_encoding_chars(ec_dict(DEFAULT5))
                for ecx in (DEFAULT6, random_ec(rng, True)):
                    stats['after_set_default'] = stats.get('after_set_default', 0) + 1
                    try:
                        m, assigned = build_api(v, ecx, TOLERANT, tolerant_content(rng, ecx))
                    except Exception as ex:  # noqa
                        run.fail('construction-raises', 'building a message with a valid set raised', version=v, ec=ecx,
                                 level=TOLERANT, exc=repr(ex), content='after set_default_encoding_chars')
                        continue
                    check_message(run, m, ecx, v, TOLERANT, 'api-after-set-default', {'assigned': assigned})
            finally:
                hl7apy._DEFAULT_ENCODING_CHARS = saved_default
        # ---- sets in which '.' has a role (oracle only: the model's domain excludes them because the version
        # string written in MSH-12 contains '.'; the property quantifies over ALL punctuation characters)
        for role in range(5):
            ecl = [x for x in ('|', '^', '~', '\\', '&')]
            ecl[role] = '.'
            ecd = tuple(ecl) + (None,)
            stats['dot_sets'] = stats.get('dot_sets', 0) + 1
            try:
                m, assigned = build_api(v, ecd, TOLERANT, tolerant_content(rng, ecd))
            except Exception as ex:  # noqa
                run.fail('construction-raises', 'building a message with a valid set raised', version=v, ec=ecd, level=TOLERANT,
                         exc=repr(ex), dot_role=role)
                continue
            check_message(run, m, ecd, v, TOLERANT, 'api', {'assigned': assigned, 'dot_role': role})
        # ---- defaults: Message(name, version=v) without a set
        try:
            m, assigned = build_api(v, DEFAULT5, TOLERANT, tolerant_content(rng, DEFAULT5), use_default=True)
        except Exception as ex:  # noqa
            run.fail('construction-raises', 'building a message with the default set raised', version=v, exc=repr(ex))
        else:
            dflt = hl7apy.get_default_encoding_chars(v)
            ecd = ec_of_dict(dflt)
            er7 = check_message(run, m, ecd, v, TOLERANT, 'api-default', {'assigned': assigned})
            stats['api_default'] += 1
            if er7 is not None:
                header_texts.append(er7)
    run.log('oracle on valid sets: %s; %d failures so far' % (json.dumps(stats), len(run.failures)))
    ck_cases, bad_texts, n_invalid = invalid_oracle(run, rng, vs)
    header_texts += bad_texts
    for v in vs:   # valid sets for the check correspondence
        for ec in (DEFAULT5, DEFAULT6, random_ec(rng, True), random_ec(rng, False)):
            d = ec_dict(ec)
            c1, _, _ = outcome(hl7apy.check_encoding_chars, dict(d))
            c2, _, _ = outcome(lambda: Message('ADT_A01', version=v, encoding_chars=dict(d)))
            if c1 != 0 or c2 != 0:
                run.fail('valid-set-rejected', 'a valid set of distinct characters was rejected', set=d, version=v, codes=[c1, c2])
            ck_cases.append((d, c1, c2))
    ck_cases += extra_check_cases(rng)
    run.log('oracle on invalid sets: %d cases; %d failures so far' % (n_invalid, len(run.failures)))

    # ---- model side
    files = []
    sg_shards = shard(sg_cases, 700)
    for k, sh in enumerate(sg_shards):
        L = ['From Coq Require Import List NArith Arith Init.Byte.',
             'From HL7 Require Import Lib.Str Model.Ec Model.Result Model.Header Model.MsgEc.',
             'Import ListNotations. Open Scope bs_scope.',
             'Definition sgcase := (str * ec * str * str * ecdict * list str * str)%type.',
             'Definition run_sg (c : sgcase) : bool :=',
             '  match c with (v, e, f1o, f2o, dobs, rest, hdr) =>',
             '    match set_encoding_chars v (ecd_of_ec e) with',
             '    | Ok (f1, f2) => streqb f1 f1o && streqb f2 f2o &&',
             '        match get_encoding_chars v f1 f2 with Ok d => ecdict_eqb d dobs | Err _ => false end &&',
             '        match msh_to_er7 (mk_msg v f1 f2 rest) with Ok h => streqb h hdr | Err _ => false end &&',
             '        match new_message v (ecd_of_ec e) (nth 4 rest []) with',
             '        | Ok m => streqb (m_msh1 m) f1o && streqb (m_msh2 m) f2o | Err _ => false end',
             '    | Err _ => false',
             '    end',
             '  end.',
             'Fixpoint failing (n : nat) (l : list sgcase) : list nat :=',
             '  match l with [] => [] | c :: r => (if run_sg c then [] else [n]) ++ failing (S n) r end.',
             'Definition cases : list sgcase := [']
        rows = []
        for v, ec, f1, f2, d, rest, hdr in sh:
            rows.append('(%s, %s, %s, %s, %s, %s, %s)' % (coq_str(v), ec_term(ec), coq_str(f1), coq_str(f2), ecdict_term(d),
                                                        coq_list(rest, coq_str), coq_str(hdr)))
        L.append(';\n'.join(rows))
        L.append('].')
        L.append('Eval vm_compute in failing 0 cases.')
        files.append(('c07sg_%d_%d' % (os.getpid(), k), '\n'.join(L) + '\n'))
    n_sg_files = len(files)
    L = ['From Coq Require Import List NArith Arith Init.Byte.',
         'From HL7 Require Import Lib.Str Model.Ec Model.Result Model.Header Model.MsgEc.',
         'Import ListNotations. Open Scope bs_scope.',
         'Definition ckcase := (ecdict * nat * option nat)%type.',
         'Definition run_ck (c : ckcase) : bool :=',
         '  match c with (d, c1, c2) =>',
         '    Nat.eqb (outcome_code (check_encoding_chars d)) c1 &&',
         '    Nat.eqb (outcome_code (set_default_encoding_chars d)) c1 &&',
         '    match c2 with',
         '    | Some c => Nat.eqb (outcome_code (new_message "2.5" d "20200101")) c &&',
         '                Nat.eqb (outcome_code (new_message "2.7" d "20200101")) c',
         '    | None => true end',
         '  end.',
         'Fixpoint failing (n : nat) (l : list ckcase) : list nat :=',
         '  match l with [] => [] | c :: r => (if run_ck c then [] else [n]) ++ failing (S n) r end.',
         'Definition cases : list ckcase := [']
    L.append(';\n'.join('(%s, %d%%nat, %s)' % (ecdict_term(d), c1, coq_opt(c2, lambda x: '%d%%nat' % x)) for d, c1, c2 in ck_cases))
    L.append('].')
    L.append('Eval vm_compute in failing 0 cases.')
    files.append(('c07ck_%d' % os.getpid(), '\n'.join(L) + '\n'))
    results = coq_eval_many(files)
    evaluated = 0
    for k, (rc, out) in enumerate(results):
        lists = parse_nat_lists(out)
        src = sg_shards[k] if k < n_sg_files else ck_cases
        comp = 'set-get-header' if k < n_sg_files else 'check-encoding-chars'
        if rc != 0 or len(lists) != 1:
            run.disagree(comp, why='case file did not evaluate', shard=k, output=out[-800:])
            continue
        evaluated += len(src)
        for idx in lists[0]:
            run.disagree(comp, case=src[idx])
    # header functions on every text seen (valid and invalid)
    seen = set()
    obs = []
    for tx in header_texts:
        if tx not in seen:
            seen.add(tx)
            obs.append(observe_header(tx))
    evaluated += run_header_correspondence(run, 'c07hd', obs)
    run.log('model side: %d cases evaluated by vm_compute (%d set/get/header, %d check, %d header texts), %d disagreements'
            % (evaluated, len(sg_cases), len(ck_cases), len(obs), len(run.disagreements)))
    n_msgs = stats['api_tolerant'] + stats['api_strict'] + stats['api_default'] + stats['parsed'] + stats['setter']
    run.finish({
        'evaluations': n_msgs + n_invalid,
        'distinct_nontrivial': len({(v, ec) for v, ec, *_ in sg_cases if ec not in (DEFAULT5, DEFAULT6)}),
        'rule': 'cases = (version, set of 5 or 6 distinct punctuation characters other than ".", message); every one of the '
                '12 versions x {the two default sets, %d random sets} x {constructor+API under TOLERANT (random repetitions/'
                'components/subcomponents of alphanumeric leaves in EVN PID NK1 OBX ZZ1), constructor+API under STRICT (typed '
                'texts), encoding_chars setter on the populated message, parse_message of hand-written text with and without '
                'group finding}; non-trivial = a (version, set) pair with a non-default set; invalid sets: every missing key, '
                'every ordered pair of duplicated keys (TRUNCATION included) on default and random sets, MSH-2 with duplicated/'
                'missing characters' % nrand,
        'samples': samples,
        'traces_validated_against_impl': evaluated,
        'input_distribution': stats,
        'invalid_cases': n_invalid,
        'correspondence_cases': {'set_get_header': len(sg_cases), 'check_and_constructor': len(ck_cases), 'header_texts': len(obs)},
    }, assumptions=[
        'encoding characters are punctuation characters other than "." (the version string contains it: Properties/C07.v '
        'C07_dot_excluded); leaves are ASCII alphanumerics',
        'the clause "parse_message(to_er7()) gives an identically encoding tree" is proved for the header only '
        '(C07_reparse: the set and the MSH fields are recovered); for the segments after MSH it is decided by the oracle',
        'an argument of check_encoding_chars that is not a mapping is not modelled',
    ])


def replay(run):
    from hl7apy.parser import parse_message
    r = json.load(open(run.replay))
    inp = r.get('input', {})
    ec = tuple(inp['ec']) if inp.get('ec') else None
    v = inp.get('version')
    lvl = inp.get('level', TOLERANT)
    route = inp.get('route')
    if route in ('api', 'api-default', 'setter') and ec:
        from hl7apy.core import Message
        m = Message('ADT_A01', version=v, validation_level=lvl, encoding_chars=ec_dict(tuple(inp.get('first_ec') or ec)))
        m.msh.msh_7, m.msh.msh_9, m.msh.msh_10, m.msh.msh_11 = TS, msh9(tuple(inp.get('first_ec') or ec)), 'ID1', 'P'
        segs = {}
        for seg_name, attr, reps in inp.get('assigned', []):
            if seg_name not in segs:
                segs[seg_name] = m.add_segment(seg_name)
            set_field(segs[seg_name], attr, reps)
        if route == 'setter':
            m.encoding_chars = ec_dict(ec)
        check_message(run, m, ec, v, lvl, route, {'assigned': inp.get('assigned', [])})
    elif route == 'parsed' and ec:
        m = parse_message(inp['text'], validation_level=lvl, find_groups=inp.get('find_groups', True))
        check_message(run, m, ec, v, lvl, route, {'text': inp['text']}, find_groups=inp.get('find_groups', True))
    elif 'set' in inp:
        import hl7apy
        from hl7apy.core import Message
        d = inp['set']
        expect_invalid(run, 'check_encoding_chars', lambda: hl7apy.check_encoding_chars(dict(d)), set=d)
        expect_invalid(run, 'Message(...)', lambda: Message('ADT_A01', version=inp.get('version', '2.5'), encoding_chars=dict(d)), set=d)
    elif 'text' in inp:
        from hl7apy.parser import get_message_type
        expect_invalid(run, 'parse_message', lambda: parse_message(inp['text']), text=inp['text'])
        expect_invalid(run, 'get_message_type', lambda: get_message_type(inp['text']), text=inp['text'])
    for f in run.failures:
        print('replayed failure:', f['kind'], {k: v for k, v in f['data'].items() if k != 'er7'})
    run.finish({'evaluations': 1, 'distinct_nontrivial': 1, 'rule': 'replay of one stored case', 'samples': [inp]})


if __name__ == '__main__':
    from common import run_guarded
    run_guarded('C07', main)
