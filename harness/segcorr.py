"""Segment-level correspondence shared by C01, C02, C03, C05, C14, C17, C18: generators of segment
lines from the tables, the implementation-side observation (outcome code, encoding, tree dump in
the format of coq/Model/Dump.v) and the Coq case files that run Model/Parser.v + Model/Encode.v
on the same lines and compare inside Coq."""
import os
import sys

sys.path.insert(0, os.path.dirname(__file__))
from common import use_repo, coq_eval_many, parse_nat_lists, shard
from coqgen import coq_str, coq_byte, coq_opt, is_model_str

use_repo()
import hl7apy
from hl7apy.core import Segment, Field, Component, SubComponent
from hl7apy.exceptions import HL7apyException

STRICT, TOLERANT = 1, 2
VERSIONS = sorted(hl7apy.SUPPORTED_LIBRARIES.keys(), key=lambda v: [int(x) for x in v.split('.')])

EXN_CODE = {
    'ParserError': 1, 'InvalidEncodingChars': 2, 'InvalidName': 3, 'ChildNotFound': 4, 'ChildNotValid': 5,
    'MaxChildLimitReached': 6, 'OperationNotAllowed': 7, 'MaxLengthReached': 8, 'InvalidDateFormat': 9,
    'InvalidDateOffset': 10, 'InvalidMicrosecondsPrecision': 11, 'UnsupportedVersion': 12,
    'UnknownValidationLevel': 13, 'MessageProfileNotFound': 14, 'LegacyMessageProfile': 15,
    'InvalidHighlightRange': 16, 'ValidationError': 17, 'UnsupportedMessageType': 18, 'InvalidHL7Message': 19,
}
CRASH_CODE = {'IndexError': 40, 'KeyError': 41, 'TypeError': 42, 'AttributeError': 43}


def outcome_code(exc):
    if exc is None:
        return 0
    n = type(exc).__name__
    if isinstance(exc, HL7apyException):
        return EXN_CODE.get(n, 20)
    if n in CRASH_CODE:
        return CRASH_CODE[n]
    if isinstance(exc, ValueError):
        return 30
    return 99


def default_ec(v, trunc=None):
    d = {'FIELD': '|', 'COMPONENT': '^', 'REPETITION': '~', 'ESCAPE': '\\', 'SUBCOMPONENT': '&',
         'SEGMENT': '\r', 'GROUP': '\r'}
    if trunc:
        d['TRUNCATION'] = trunc
    return d


def ec_term(d):
    return '(mk_ec %s %s %s %s %s %s)' % (coq_byte(d['FIELD']), coq_byte(d['COMPONENT']), coq_byte(d['REPETITION']),
                                          coq_byte(d['ESCAPE']), coq_byte(d['SUBCOMPONENT']),
                                          coq_opt(d.get('TRUNCATION'), coq_byte))


# ------------------------------------------------------------------------------------------
# implementation-side dump (format of coq/Model/Dump.v)


def dopt(x):
    return '-' if x is None else "'%s'" % x


def dump_sub(s, ec, raw):
    if raw:
        val = s.value.value if hasattr(s.value, 'value') else s.value
        val = '' if val is None else val
    else:
        val = s.to_er7(ec)
    return 's(%s,%s,{%s})' % (dopt(s.name), dopt(s.datatype), val)


def dump_comp(c, ec, raw):
    return 'C(%s,%s)[%s]' % (dopt(c.name), dopt(c.datatype), ''.join(dump_sub(s, ec, raw) for s in c.children))


def dump_field(f, ec):
    raw = f.name in ('MSH_1', 'MSH_2')
    return 'F(%s,%s)[%s]' % (dopt(f.name), dopt(f.datatype), ''.join(dump_comp(c, ec, raw) for c in f.children))


def dump_seg(s, ec):
    return 'S(%s,%s,%d,%d)[%s]' % (s.name, 'inf' if s.allow_infinite_children else 'fin',
                                   s._last_allowed_child_index, s._last_child_index,
                                   ''.join(dump_field(f, ec) for f in s.children))


def impl_obs(text, v, lvl, ec, reference=None):
    """(code, encoding, dump) of parse_segment on the implementation."""
    from hl7apy.parser import parse_segment
    try:
        s = parse_segment(text, version=v, encoding_chars=ec, validation_level=lvl, reference=reference)
        enc = s.to_er7(ec)
        return (0, enc, dump_seg(s, ec), s)
    except Exception as ex:   # noqa
        return (outcome_code(ex), '', '', None)


# ------------------------------------------------------------------------------------------
# generators

# Leaf pools (messy stream).  The segment model uses Model/LeafFull.v, i.e. the datatype factories of
# Model/Datatypes.v (C13) for DT/TM/DTM/NM/SI, so accepted-and-reformatted as well as rejected
# values are in the pool.
LEAF = {
    'DT': ['20200101', '2020', '202012', 'x9', '2020010', '202011 1', '20200230'],
    'DTM': ['20200101', '202001011230', '20200101123059', '2020', 'q', '20200101123059.1234+0100', '2020+1500'],
    'TM': ['1200', '120000', '12', 'noon', '2500', '120000.12', '12+0100+0100', '1200-0500'],
    'NM': ['1', '15', '-3', 'abc', '1.5', '01', '+2', '1.50', '1e2', '0.0000001', ' 7'],
    'SI': ['1', '12', 'x', '+1', '007'],
    'ST': ['abc', 'a\\F\\b', 'a\\b', 'A B', 'x\\H\\y', 'X' * 210, 'q#r'],
    'ID': ['A', 'Y', 'a\\'], 'IS': ['A', 'B' * 25], 'TN': ['555-1234', 'zz'], 'TX': ['text', 't\\E\\x'],
    'FT': ['ft', 'f\\.br\\t'], 'WD': ['w'], 'GTS': ['g'], 'SNM': ['s1'], 'CM': ['cm'],
}


def leaf_text(rng, dt, messy):
    if messy and rng.random() < .12:
        return rng.choice(['', ' ', '  x ', 'a b', '\t'])
    return rng.choice(LEAF.get(dt, ['q', 'r s']))


def ok_segment(lib, n):
    r = lib.SEGMENTS.get(n)
    return r is not None and r[0] == 'sequence' and len(r) > 1 and isinstance(r[1], (tuple, list))


def gen_ref(rng, ref, depth, ec, messy):
    """text of one field repetition (depth 0) or component (depth 1)"""
    seps = (ec['COMPONENT'], ec['SUBCOMPONENT'])
    if ref is None:
        return 'n'
    if ref[0] == 'leaf' and len(ref) > 2 and ref[2] in ('varies', None) and depth == 0 and rng.random() < .6:
        return gen_varies(rng, ec, messy)
    if ref[0] == 'leaf' or not ref[1] or depth >= 2:
        t = leaf_text(rng, ref[2] if len(ref) > 2 else 'ST', messy)
        if messy and rng.random() < .08 and depth < 2:
            t += seps[depth] + 'extra'
        return t
    sep = seps[depth]
    n = len(ref[1])
    k = rng.randint(1, min(n + (2 if (messy and rng.random() < .15) else 0), 9))
    parts = []
    for j in range(k):
        if j < n and rng.random() < .6:
            parts.append(gen_ref(rng, ref[1][j][1], depth + 1, ec, messy))
        elif j >= n:
            parts.append('over%d' % j)
        else:
            parts.append(rng.choice(['', '', ' ']) if messy else '')
    if not messy:
        while parts and parts[-1] == '':
            parts.pop()
        if not parts:
            parts = [gen_ref(rng, ref[1][0][1], depth + 1, ec, messy)]
    return sep.join(parts)


def gen_varies(rng, ec, messy):
    """value of a varies / untyped field (OBX-5, Z-segment fields): 1..14 components, some with
    subcomponents, empty ones in the middle, the last one valued"""
    k = rng.choice([1, 2, 3, 5, 9, 10, 11, 14])
    parts = []
    for j in range(k):
        if j == k - 1 or rng.random() < .7:
            sub = [rng.choice(['v%d' % (j + 1), 'A B', 'x\\F\\y'])]
            if rng.random() < .25:
                sub = [sub[0], '', 's%d' % (j + 1)] if rng.random() < .5 else [sub[0], 't']
            parts.append(ec['SUBCOMPONENT'].join(sub))
        else:
            parts.append(' ' if (messy and rng.random() < .3) else '')
    return ec['COMPONENT'].join(parts)


def gen_segment_line(rng, lib, ec, sname=None, messy=True):
    """A segment line.  messy=False gives canonical lines (no blanks, no trailing empties, counts
    within the tables); messy=True adds surplus fields/components, blanks, repetitions of
    non-repeatable fields, Z-segments."""
    ref = None
    if sname is None:
        if rng.random() < .07:
            sname, ref = rng.choice(['ZXX', 'Z1A'] + (['zab'] if messy else [])), ('sequence', ())
        else:
            sname = rng.choice([s for s in sorted(lib.SEGMENTS) if ok_segment(lib, s) and s != 'MSH'])
    if ref is None:
        ref = lib.SEGMENTS[sname] if not sname.upper().startswith('Z') else ('sequence', ())
    rows = ref[1]
    n = len(rows)
    k = rng.randint(1, max(1, n) + (3 if (messy and rng.random() < .15) else 0))
    if n == 0:
        if not messy and not sname.upper().startswith('Z'):
            return sname        # a segment that defines no fields (QRD from v2.7): the name alone is canonical
        k = rng.randint(1, 5)
    fs = []
    for i in range(k):
        if i < n and rng.random() < .5:
            row = rows[i]
            rep_ok = (row[2][1] == -1 or row[2][1] > 1)
            nrep = 1
            if (rep_ok or messy) and rng.random() < .25:
                nrep = rng.randint(2, 3)
            reps = [gen_ref(rng, row[1], 0, ec, messy) for _ in range(nrep)]
            if nrep >= 2 and rng.random() < .25:
                # an empty repetition that is NOT the last one is legitimate content (A~~B, ~B)
                reps.insert(rng.randint(0, len(reps) - 1), '')
            fs.append(ec['REPETITION'].join(reps))
        elif i >= n:
            if n == 0:      # Z-segment: every field is a varies field
                fs.append(gen_varies(rng, ec, messy) if rng.random() < .7 else '')
            else:
                fs.append(rng.choice(['beyond', 'b' + ec['COMPONENT'] + 'c' + ec['SUBCOMPONENT'] + 'd', '']) if messy
                          else 'zval')
        else:
            fs.append(rng.choice(['', '', ' ']) if messy else '')
    if not messy:
        while fs and fs[-1] == '':
            fs.pop()
        if not fs:     # a canonical line has at least one value: put one in the first field
            fs = [gen_ref(rng, rows[0][1], 0, ec, False) if n else 'zval']
            if not fs[0]:
                fs = ['v']
    return sname + ec['FIELD'] + ec['FIELD'].join(fs)


def nonstandard_escape(text, ec, letters='HNFSTREL'):
    """True when the text has an escape character outside the sequences esc+letter+esc that hl7apy
    knows (e.g. the FT formatting commands \\.br\\ or \\X0D\\)."""
    e = ec['ESCAPE']
    i = 0
    while i < len(text):
        if text[i] == e:
            if i + 2 < len(text) and text[i + 1] in letters and text[i + 2] == e:
                i += 3
                continue
            return True
        i += 1
    return False


# ------------------------------------------------------------------------------------------
# model side


PRELUDE = '''From Coq Require Import List NArith ZArith Init.Byte.
From HL7 Require Import Lib.Str Model.Ec Model.Result Model.Ref Model.Tree Model.Parser Model.Encode Model.Leaf Model.LeafFull Model.Dump Gen.Params.
From HL7 Require Gen.%(mod)s.
Import ListNotations. Open Scope bs_scope.
Definition t := Gen.%(mod)s.tables.
Definition v : str := %(v)s.
Definition lvl_of (n : nat) : level := match n with 1%%nat => STRICT | _ => TOLERANT end.
(* one case: level, delimiters, precomputed Segment object (or None), text, expected code / encoding / dump *)
Definition obs (l : nat) (e : ec) (s0 : option (result seg)) (rf : option sref) (text : str) : nat * str * str :=
  let r := match s0 with
           | Some (Ok s) => parse_segment_in t (lvl_of l) e (leaf_enc_full v (lvl_of l) e) s text
           | Some (Err x) => Err x
           | None => parse_segment t (lvl_of l) e (leaf_enc_full v (lvl_of l) e) text rf
           end in
  match r with
  | Err x => (exn_code x, [], [])
  | Ok s => match enc_segment t e s false with
            | Ok enc => (0%%nat, enc, dump_seg s)
            | Err x => (exn_code x, [], [])
            end
  end.
Definition case := (nat * ec * str * nat * str * str)%%type.
Definition agrees (s0 : option (result seg)) (rf : option sref) (c : case) : bool :=
  match c with (l, e, text, code, enc, dmp) =>
    match obs l e s0 rf text with (code', enc', dmp') =>
      Nat.eqb code code' && streqb enc enc' && streqb dmp dmp' end end.
(* a group = the cases that share one Segment object: it is built once (call by value) *)
Definition run_group (g : bool * str * option sref * list case) : list bool :=
  match g with (pre, name, rf, cs) =>
    let s0 := if pre then Some (mk_segment t name rf) else None in
    map (agrees s0 rf) cs end.
Fixpoint failing (n : nat) (l : list bool) : list nat :=
  match l with [] => [] | b :: r => (if b then [] else [n]) ++ failing (S n) r end.
'''


def modname(v):
    return 'Tables_v' + v.replace('.', '_')


def run_model(run, cases, tag, precompute=True, per_file=400):
    """cases: list of dicts {v, lvl, ec, text, code, enc, dump}.  Returns the number of cases the
    model evaluated; disagreements are recorded on `run`."""
    byv = {}
    for c in cases:
        if not (is_model_str(c['text']) and is_model_str(c['enc']) and is_model_str(c['dump'])):
            continue
        byv.setdefault(c['v'], []).append(c)
    files = []
    index = []
    for v in sorted(byv):
        for k, sh in enumerate(shard(byv[v], per_file)):
            L = [PRELUDE % {'mod': modname(v), 'v': coq_str(v)}]
            groups = {}
            order = []
            for c in sh:
                pre = bool(precompute and c.get('precompute', True))
                key = (pre, c['text'][:3], c.get('ref_term'))
                if key not in groups:
                    groups[key] = []
                    order.append(key)
                groups[key].append(c)
            flat = []
            gtxt = []
            for key in order:
                rows = []
                for c in groups[key]:
                    flat.append(c)
                    rows.append('(%d%%nat, %s, %s, %d%%nat, %s, %s)' % (
                        c['lvl'], ec_term(c['ec']), coq_str(c['text']), c['code'], coq_str(c['enc']),
                        coq_str(c['dump'])))
                gtxt.append('(%s, %s, %s, [\n%s])' % ('true' if key[0] else 'false', coq_str(key[1]),
                                                   '(Some %s)' % key[2] if key[2] else 'None', ';\n'.join(rows)))
            sh = flat
            L.append('Definition groups : list (bool * str * option sref * list case) := [\n' + ';\n'.join(gtxt) + '\n].')
            L.append('Eval vm_compute in failing 0 (flat_map run_group groups).')
            files.append(('%s_%d_%s_%d' % (tag, os.getpid(), v.replace('.', '_'), k), '\n'.join(L) + '\n'))
            index.append(sh)
    results = coq_eval_many(files, timeout=1200)
    evaluated = 0
    for sh, (rc, out) in zip(index, results):
        lists = parse_nat_lists(out)
        if rc != 0 or len(lists) != 1:
            run.disagree('segment-parser', why='case file did not evaluate', output=out[-1200:])
            continue
        evaluated += len(sh)
        for i in lists[0]:
            c = sh[i]
            run.disagree('segment-parser', version=c['v'], level=c['lvl'], text=c['text'],
                         implementation={'code': c['code'], 'enc': c['enc'], 'dump': c['dump'][:2000]})
    return evaluated


def sref_term(lib, ref):
    """Coq term (type sref) of a Python reference, by name where it equals the table entry."""
    import re
    import gen_tables
    t = gen_tables.Ser(lib).ref(ref)
    return re.sub(r's"([^"]*)"', r'(unbs "\1")', t)


def case_of(text, v, lvl, ec, reference=None, **kw):
    code, enc, dmp, obj = impl_obs(text, v, lvl, ec, reference)
    c = {'v': v, 'lvl': lvl, 'ec': ec, 'text': text, 'code': code, 'enc': enc, 'dump': dmp, 'obj': obj}
    c.update(kw)
    return c
