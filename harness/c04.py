"""C04 - validate() accepts conforming messages and pinpoints each structural defect.

Obligations: coq/Properties/C04.v (theorems about Model/Validate.v: validate_errors = [] <-> conforms,
the named-error corollaries, the wrapper).  Correspondence: the Coq model parses the same segment
lines (Model/Parser.v) and validates them (Model/Validate.v); outcome code, the sorted multiset of
structured errors and the number of length warnings are compared inside Coq; message trees are
rebuilt in Coq from the shape the implementation's parser produced and validated by the model too
(Z messages included: Message('ZDT_Z01') has the empty structure, its children are validated one by one
with no reference - Properties/C04.v C04_z_message_*).
Oracle: the property's own clauses evaluated on the implementation - conforming instances validate,
every single-point mutation is reported with an error naming the mutated element, validate() is
pure and the three calling conventions / the report file agree.
"""
import ast
import io
import os
import re
import sys

sys.path.insert(0, os.path.dirname(__file__))
from common import Run, COQ, theorems_of, coq_eval_many, parse_nat_lists, shard
from coqgen import coq_str, is_model_str
import segcorr as S
import hl7apy
from hl7apy.parser import parse_segment, parse_message
from hl7apy.exceptions import ValidationError, HL7apyException

TOL = S.TOLERANT

# ------------------------------------------------------------------------------------------
# normalisation of the validator's messages into structured records (canonical keys shared with
# coq/Model/Validate.v: verr_key)


def repr_name(r):
    """name printed by Element.__repr__ ('<Cls name ...>'); None for Python's None / an empty name"""
    if r == 'None':
        return None
    m = re.match(r'^<(\w+)(?: (.*))?>$', r, re.S)
    if not m:
        return '?' + r
    cls, rest = m.group(1), m.group(2) or ''
    if cls in ('Field', 'Component'):
        if rest.startswith('of type '):
            return None
        return rest.split(' ')[0]
    if rest in ('', 'None'):
        return None
    return rest


def ostr(x):
    return 'None' if x is None else str(x)


def norm(msg):
    m = re.match(r'^Missing required child (\S+?)\.(\S+)$', msg)
    if m:
        return 'Missing|%s|%s' % (m.group(1), m.group(2))
    m = re.match(r'^Child limit exceeded (\S+?)\.(\S+)$', msg)
    if m:
        return 'Limit|%s|%s' % (m.group(1), m.group(2))
    m = re.match(r'^Invalid children detected for (<.*?>): (\[.*\])$', msg, re.S)
    if m:
        try:
            names = ast.literal_eval(m.group(2))
        except Exception:  # noqa
            names = ['?' + m.group(2)]
        return 'InvalidChildren|%s|%s' % (ostr(repr_name(m.group(1))), ','.join(sorted(ostr(n) for n in names)))
    m = re.match(r'^Unknown element found: (None|<.*?>)\.(<.*>)$', msg, re.S)
    if m:
        return 'Unknown|%s|%s' % (ostr(repr_name(m.group(1))), ostr(repr_name(m.group(2))))
    m = re.match(r'^Datatype (\S+) is not correct for (\S+?)\.(\S+) \(it must be ', msg)
    if m:
        return 'Datatype|%s|%s|%s' % (m.group(2), m.group(3), m.group(1))
    m = re.match(r'^Invalid element found: (<.*>)$', msg, re.S)
    if m:
        return 'InvalidElement|%s' % ostr(repr_name(m.group(1)))
    return 'OTHER|' + msg


def default_ec(v):
    return S.default_ec(v, trunc='#' if v >= '2.7' else None)


def observe(el):
    """(code, sorted error keys, number of length warnings, report) of el.validate(return_errors=True)"""
    try:
        r = el.validate(return_errors=True)
    except Exception as ex:  # noqa
        return S.outcome_code(ex), [], 0, None
    keys = sorted(norm(str(x)) for x in r.errors)
    nlen = sum(1 for w in r.warnings if str(w).startswith('Exceeded max length'))
    return 0, keys, nlen, r


# ------------------------------------------------------------------------------------------
# model side, segment level

PRELUDE = '''From Coq Require Import List NArith ZArith Init.Byte.
From HL7 Require Import Lib.Str Model.Ec Model.Result Model.Ref Model.Tree Model.Parser Model.Encode Model.Leaf Model.MsgTree Model.Validate Gen.Params.
From HL7 Require Gen.%(mod)s.
Import ListNotations. Open Scope bs_scope.
(* the generated tables with the entries these cases need copied to the front: every lookup is unchanged
   (Proofs/ValidateFacts.v: slookup_front / front_tables_lookups) *)
Definition t := front_tables %(segs)s %(dts)s Gen.%(mod)s.tables.
Definition v : str := %(v)s.
Definition e : ec := %(ec)s.
Definition lenc := leaf_enc v TOLERANT e.
Fixpoint strs_eqb (a b : list str) : bool :=
  match a, b with [], [] => true | x :: a', y :: b' => streqb x y && strs_eqb a' b' | _, _ => false end.
(* outcome: 100 + code when the segment does not parse, the exception code when the validator raises, 0 *)
Definition obs_log (r : result (list vmsg)) : nat * list str * nat :=
  match r with
  | Err x => (exn_code x, [], 0%%nat)
  | Ok l => (0%%nat, log_keys l, log_length_warnings l)
  end.
Definition obs_seg (text : str) : nat * list str * nat :=
  match parse_segment t TOLERANT e lenc text None with
  | Err x => ((100 + exn_code x)%%nat, [], 0%%nat)
  | Ok s => obs_log (validate_seg_log t e s)
  end.
Definition same (o : nat * list str * nat) (code : nat) (keys : list str) (nw : nat) : bool :=
  match o with (c, k, w) => Nat.eqb c code && strs_eqb k keys && Nat.eqb w nw end.
Fixpoint failing (n : nat) (l : list bool) : list nat :=
  match l with [] => [] | b :: r => (if b then [] else [n]) ++ failing (S n) r end.
'''

SEG_PART = '''Definition seg_case := (str * nat * list str * nat)%type.
(* the cases of one group share the Segment object (built once: call by value) *)
Definition obs_seg_in (s0 : result seg) (text : str) : nat * list str * nat :=
  match (match s0 with Ok s => parse_segment_in t TOLERANT e lenc s text | Err x => Err x end) with
  | Err x => ((100 + exn_code x)%nat, [], 0%nat)
  | Ok s => obs_log (validate_seg_log t e s)
  end.
Definition seg_agrees (s0 : result seg) (c : seg_case) : bool :=
  match c with (text, code, keys, nw) => same (obs_seg_in s0 text) code keys nw end.
Definition run_group (g : str * list seg_case) : list bool :=
  match g with (name, cs) => let s0 := mk_segment t name None in map (seg_agrees s0) cs end.
(* is the parsed tree in the domain of the conformance theorem (linked to a well-formed reference)? *)
Definition linked_in (s0 : result seg) (c : seg_case) : bool :=
  match c with (text, _, _, _) =>
    match (match s0 with Ok s => parse_segment_in t TOLERANT e lenc s text | Err x => Err x end) with
    | Ok s => linked_seg t e (Some (st_reference (s_st s))) s
    | Err _ => true
    end end.
Definition linked_group (g : str * list seg_case) : list bool :=
  match g with (name, cs) => let s0 := mk_segment t name None in map (linked_in s0) cs end.
'''


def coq_strs(xs):
    return '[' + '; '.join(coq_str(x) for x in xs) + ']'


def reachable_datatypes(ref, acc, depth=0):
    if isinstance(ref, (tuple, list)) and len(ref) > 2 and isinstance(ref[2], str):
        acc.add(ref[2])
    if is_seq(ref) and depth < 3:
        for row in ref[1]:
            if isinstance(row, (tuple, list)) and len(row) == 4:
                reachable_datatypes(row[1], acc, depth + 1)


def prelude(v, ec=None, texts=()):
    """texts: the segment lines of the file (their segments' fields and datatypes go to the front)"""
    lib = hl7apy.load_library(v)
    segs = sorted({t[:3].upper() for t in texts if is_model_str(t[:3])})
    dts = set()
    for sn in segs:
        if S.ok_segment(lib, sn):
            reachable_datatypes(lib.SEGMENTS[sn], dts)
    dts = sorted(d for d in dts if is_model_str(d) and '"' not in d)
    return PRELUDE % {'mod': S.modname(v), 'v': coq_str(v), 'ec': S.ec_term(ec or default_ec(v)),
                      'segs': coq_strs(segs), 'dts': coq_strs(dts)}


def run_segment_model(run, cases, per_file=150, check_linked=False):
    """cases: dicts {v, text, code, keys, nlen}.  Returns (number evaluated, number of trees outside
    the theorem's domain); disagreements are recorded on `run`."""
    byv = {}
    for c in cases:
        if is_model_str(c['text']) and all(is_model_str(k) for k in c['keys']) and len(c['text']) >= 3:
            byv.setdefault(c['v'], []).append(c)
    files, index = [], []
    for v in sorted(byv):
        ordered = sorted(byv[v], key=lambda c: c['text'][:3])
        for k, sh in enumerate(shard(ordered, per_file)):
            groups, order = {}, []
            for c in sh:
                key = c['text'][:3]
                if key not in groups:
                    groups[key] = []
                    order.append(key)
                groups[key].append(c)
            flat_cases, gtxt = [], []
            for key in order:
                rows = []
                for c in groups[key]:
                    flat_cases.append(c)
                    rows.append('(%s, %d%%nat, %s, %d%%nat)' % (coq_str(c['text']), c['code'], coq_strs(c['keys']), c['nlen']))
                gtxt.append('(%s, [\n%s])' % (coq_str(key), ';\n'.join(rows)))
            L = [prelude(v, texts=[c['text'] for c in flat_cases]), SEG_PART,
                 'Definition groups : list (str * list seg_case) := [\n' + ';\n'.join(gtxt) + '\n].',
                 'Eval vm_compute in failing 0 (flat_map run_group groups).']
            if check_linked:
                L.append('Eval vm_compute in failing 0 (flat_map linked_group groups).')
            files.append(('c04s_%d_%s_%d' % (os.getpid(), v.replace('.', '_'), k), '\n'.join(L) + '\n'))
            index.append(flat_cases)
    results = coq_eval_many(files, timeout=1200)
    evaluated = unlinked = 0
    for sh, (rc, out) in zip(index, results):
        lists = parse_nat_lists(out)
        if rc != 0 or len(lists) != (2 if check_linked else 1):
            run.disagree('segment-validator', why='case file did not evaluate', output=out[-1500:])
            continue
        evaluated += len(sh)
        for i in lists[0]:
            c = sh[i]
            run.disagree('segment-validator', version=c['v'], text=c['text'],
                         implementation={'code': c['code'], 'errors': c['keys'], 'length_warnings': c['nlen']})
        if check_linked:
            unlinked += len(lists[1])
    return evaluated, unlinked


def seg_case(text, v):
    ec = default_ec(v)
    try:
        s = parse_segment(text, version=v, encoding_chars=ec, validation_level=TOL)
    except Exception as ex:  # noqa
        return {'v': v, 'text': text, 'code': 100 + S.outcome_code(ex), 'keys': [], 'nlen': 0, 'obj': None, 'rep': None}
    code, keys, nlen, rep = observe(s)
    return {'v': v, 'text': text, 'code': code, 'keys': keys, 'nlen': nlen, 'obj': s, 'rep': rep}


# ------------------------------------------------------------------------------------------
# conforming instances, built from a reference (standard tables or a message profile)

VALUE = {
    'DT': '20200101', 'DTM': '20200101', 'TM': '1200', 'NM': '1', 'SI': '1', 'ST': 'abc', 'ID': 'A', 'IS': 'A',
    'TN': '555-1234', 'TX': 'text', 'FT': 'ft', 'WD': 'w', 'GTS': 'g', 'SNM': 's1', 'CM': 'cm', 'varies': 'x',
}


def is_seq(ref):
    return isinstance(ref, (tuple, list)) and len(ref) >= 2 and ref[0] in ('sequence', 'choice') \
        and isinstance(ref[1], (tuple, list))


def fill_ref(ref, depth, override=None):
    """text of one field repetition (depth 0), component (1) or subcomponent (2) that satisfies `ref`:
    required children present, nothing else"""
    if not is_seq(ref) or depth >= 2:
        dt = ref[2] if isinstance(ref, (tuple, list)) and len(ref) > 2 else None
        return VALUE.get(dt, 'x')
    rows = ref[1]
    if not rows:
        return 'x'
    req = [j for j, row in enumerate(rows) if row[2][0] >= 1 and row[2][1] != 0]
    idx = req or [next((j for j, row in enumerate(rows) if row[2][1] != 0), 0)]
    parts = []
    upto = max(idx + list(override or []))
    for j, row in enumerate(rows[:upto + 1]):
        if override and j in override:
            parts.append(override[j])
        else:
            parts.append(fill_ref(row[1], depth + 1) if j in idx else '')
    return '^&'[depth].join(parts)


def field_index(name):
    try:
        return int(name.rsplit('_', 1)[1])
    except (ValueError, IndexError):
        return None


def fill_segment(sname, ref, overrides=None, always_first=True):
    """a conforming line for the segment reference `ref` (required fields min times, nothing else;
    when no field is required the first usable field is given so that the line is not bare).
    overrides: {index: text}"""
    overrides = dict(overrides or {})
    cells = {}
    if is_seq(ref):
        for row in ref[1]:
            i = field_index(row[0])
            if i is None:
                continue
            mn, mx = row[2]
            if mn >= 1 and mx != 0:
                cells[i] = '~'.join([fill_ref(row[1], 0)] * mn)
        if not cells and always_first:
            for row in ref[1]:
                i = field_index(row[0])
                if i is not None and row[2][1] != 0:
                    cells[i] = fill_ref(row[1], 0)
                    break
    cells.update(overrides)
    cells = {i: x for i, x in cells.items() if x is not None}
    n = max(cells) if cells else 0
    return sname + ''.join('|' + cells.get(i, '') for i in range(1, n + 1))


def msh_line(mname, v, ref):
    """the header: MSH-1/2, MSH-9 with as many components as the version's MSH-9 has, MSH-12"""
    p = mname.split('_')
    nine = None
    if is_seq(ref):
        for row in ref[1]:
            if row[0] == 'MSH_9' and is_seq(row[1]):
                nine = len(row[1][1])
    if nine is not None and nine >= 3:
        mt = '%s^%s^%s' % (p[0], p[1] if len(p) > 1 else '', mname)
    else:
        mt = '%s^%s' % (p[0], p[1] if len(p) > 1 else '')
    line = fill_segment('MSH', ref, {1: None, 2: None, 9: mt, 12: v})
    # fill_segment numbers the cells from 1; MSH-1 is the separator itself and MSH-2 the delimiters
    cells = line.split('|')[1:]
    return 'MSH|^~\\&|' + '|'.join(cells[2:])


def instance(ref, mode, lib):
    """nodes ('S', name, ref) / ('G', name, ref, [nodes]) of an instance of a message or group reference:
    mode 'req' = required children (min times), 'all' = every usable child at least once"""
    out = []
    for row in ref[1]:
        name, cref, (mn, mx), kind = row
        if mx == 0:
            continue
        n = mn if mode == 'req' else max(mn, 1)
        for _ in range(n):
            if kind == 'SEG':
                out.append(('S', name, cref))
            else:
                kids = instance(cref, mode, lib)
                if not kids:
                    kids = first_member(cref, lib)
                out.append(('G', name, cref, kids))
    return out


def true_choice(ref):
    """a group marked 'choice' whose members are alternatives: two or more segments, each (1, 1).  (The tables of
    v2.6+ also mark plain sequences - EHC_E01_INVOICE_INFORMATION ... - as 'choice'; those are not alternatives.)"""
    return ref[0] == 'choice' and len(ref[1]) >= 2 and all(row[3] == 'SEG' and tuple(row[2]) == (1, 1) for row in ref[1])


def has_true_choice(ref):
    return true_choice(ref) or any(row[3] != 'SEG' and row[1] is not None and is_seq(row[1]) and has_true_choice(row[1])
                                   for row in ref[1])


def instance_one_alternative(ref, lib):
    """the required-only instance in which a choice group holds its first alternative alone (HL7's reading of a choice)"""
    out = []
    rows = ref[1][:1] if true_choice(ref) else ref[1]
    for row in rows:
        name, cref, (mn, mx), kind = row
        if mx == 0:
            continue
        for _ in range(mn):
            if kind == 'SEG':
                out.append(('S', name, cref))
            else:
                kids = instance_one_alternative(cref, lib)
                if not kids:
                    kids = first_member(cref, lib)
                out.append(('G', name, cref, kids))
    return out


def first_member(ref, lib):
    for row in ref[1]:
        name, cref, (mn, mx), kind = row
        if mx == 0:
            continue
        if kind == 'SEG':
            return [('S', name, cref)]
        kids = instance(cref, 'req', lib) or first_member(cref, lib)
        return [('G', name, cref, kids)]
    return []


def flat(nodes):
    for n in nodes:
        if n[0] == 'S':
            yield n
        else:
            for x in flat(n[3]):
                yield x


def structure_ok(ref):
    """the entry defines an instantiable structure: sequence of well-shaped rows all the way down"""
    if not is_seq(ref):
        return False
    for row in ref[1]:
        if not (isinstance(row, (tuple, list)) and len(row) == 4 and row[3] in ('SEG', 'GRP')):
            return False
        if row[0] == 'ANYHL7SEGMENT' or not is_seq(row[1]):
            return False
        if row[3] == 'GRP' and not structure_ok(row[1]):
            return False
    return True


def dup_conflict(ref, nodes):
    """F15's computed predicate on an instance: at some level one child name is declared by two rows
    and the number of children of that name exceeds the maximum of one of them (children are counted
    per name)"""
    names = [n[1] for n in nodes]
    byname = {}
    for row in ref[1]:
        byname.setdefault(row[0], []).append(row[2])
    for name, cards in byname.items():
        if len(cards) > 1:
            cnt = names.count(name)
            if any(mx != -1 and cnt > mx for _, mx in cards) or any(cnt < mn for mn, _ in cards):
                return True
    for n in nodes:
        if n[0] == 'G' and dup_conflict(n[2], n[3]):
            return True
    return False


def has_duplicates(ref):
    names = [row[0] for row in ref[1]]
    if len(names) != len(set(names)):
        return True
    return any(row[3] == 'GRP' and has_duplicates(row[1]) for row in ref[1])


def lines_of(nodes, mname, v, mutate=None):
    lines = []
    for k, n in enumerate(flat(nodes)):
        if n[1] == 'MSH':
            lines.append(msh_line(mname, v, n[2]))
        else:
            lines.append(fill_segment(n[1], n[2]))
    return lines


# ------------------------------------------------------------------------------------------
# observation of the implementation: dumps, purity, wrapper


PATH_REPORTS = 60     # how many elements also get their report written to a file given by name


def dump_el(el, ec):
    cls = type(el).__name__
    if cls == 'Segment':
        return S.dump_seg(el, ec)
    return '%s(%s)[%s]' % (cls[0], el.name, ''.join(dump_el(c, ec) for c in el.children))


def shape_of(el):
    """nesting of a parsed message: ('S', text) / ('G', name, [..])"""
    out = []
    for c in el.children:
        if type(c).__name__ == 'Segment':
            out.append(('S', c.to_er7()))
        else:
            out.append(('G', c.name, shape_of(c)))
    return out


def check_purity_and_wrapper(run, el, ec, where):
    """the clauses of the property that hold for every element, conforming or not; returns the
    (code, keys, nlen, report) observation"""
    try:
        enc0, enc0t, dmp0 = el.to_er7(), el.to_er7(trailing_children=True), dump_el(el, ec)
    except Exception as ex:  # noqa
        enc0 = enc0t = dmp0 = 'EXC ' + repr(ex)
    code, keys, nlen, rep = observe(el)
    try:
        enc1, enc1t, dmp1 = el.to_er7(), el.to_er7(trailing_children=True), dump_el(el, ec)
    except Exception as ex:  # noqa
        enc1 = enc1t = dmp1 = 'EXC ' + repr(ex)
    if (enc0, enc0t, dmp0) != (enc1, enc1t, dmp1):
        run.fail('validate-not-pure', 'validate() changed the element (encoding or tree dump differ before/after)',
                 before=enc0[:500], after=enc1[:500], dump_before=dmp0[:800], dump_after=dmp1[:800], **where)
    code2, keys2, nlen2, rep2 = observe(el)
    if (code, keys, nlen) != (code2, keys2, nlen2) or \
            (rep is not None and rep2 is not None and [str(w) for w in rep.warnings] != [str(w) for w in rep2.warnings]):
        run.fail('validate-not-pure', 'two validate() calls on the same element give different reports',
                 first=[code, keys], second=[code2, keys2], **where)
    if rep is None:
        return code, keys, nlen, rep
    # return_errors=True: is_valid exactly when the error list is empty
    if bool(rep.is_valid) != (len(rep.errors) == 0):
        run.fail('wrapper-is-valid', 'return_errors=True: is_valid differs from (errors == [])',
                 is_valid=rep.is_valid, errors=[str(x) for x in rep.errors][:5], **where)
    # raising form
    try:
        r = el.validate()
        raised = None
    except ValidationError as ex:
        r, raised = None, ex
    except Exception as ex:  # noqa
        r, raised = None, ex
    if rep.errors:
        if not isinstance(raised, ValidationError) or norm(str(raised)) != norm(str(rep.errors[0])):
            run.fail('wrapper-raise', 'validate() does not raise the first reported error',
                     raised=repr(raised), returned=repr(r), first_error=str(rep.errors[0]), **where)
    else:
        if raised is not None or r is not True:
            run.fail('wrapper-raise', 'validate() of an element without errors does not return True',
                     raised=repr(raised), returned=repr(r), **where)
    # report file
    buf = io.StringIO()
    try:
        rep3 = el.validate(report_file=buf, return_errors=True)
        want = ''.join('Error: %s\n' % x for x in rep3.errors) + ''.join('Warning: %s\n' % w for w in rep3.warnings)
        if buf.getvalue() != want or sorted(norm(str(x)) for x in rep3.errors) != keys:
            run.fail('wrapper-report', 'the report file does not list exactly the reported errors and warnings',
                     report=buf.getvalue()[:800], expected=want[:800], **where)
    except Exception as ex:  # noqa
        run.fail('wrapper-report', 'validate(report_file=..., return_errors=True) raised', exc=repr(ex), **where)
    global PATH_REPORTS
    if PATH_REPORTS > 0:
        PATH_REPORTS -= 1
        import tempfile
        work = os.path.join(os.path.dirname(os.path.dirname(os.path.abspath(__file__))), '_work')
        os.makedirs(work, exist_ok=True)
        fd, path = tempfile.mkstemp(prefix='c04_report_', dir=work)
        # the file already holds the report of an earlier validation: it must be replaced, not kept
        os.write(fd, b'Error: stale line left by an earlier validation\n')
        os.close(fd)
        try:
            rep4 = el.validate(report_file=path, return_errors=True)
            want = ''.join('Error: %s\n' % x for x in rep4.errors) + ''.join('Warning: %s\n' % w for w in rep4.warnings)
            got = open(path).read()
            if got != want:
                run.fail('wrapper-report', 'the report file (given as a path) does not list exactly the reported errors '
                         'and warnings', report=got[:800], expected=want[:800], **where)
        except Exception as ex:  # noqa
            run.fail('wrapper-report', 'validate(report_file=<path>, return_errors=True) raised', exc=repr(ex), **where)
        finally:
            os.remove(path)
    return code, keys, nlen, rep


# ------------------------------------------------------------------------------------------
# segment level: conforming lines and single-point mutations, judged by the property


def has_key(keys, prefix, name=None):
    """some error key starts with `prefix` (and, for InvalidChildren, lists `name`)"""
    for k in keys:
        if k.startswith(prefix):
            if name is None or name in k[len(prefix):].split(','):
                return True
    return False


def judge(run, case, expect, where):
    """expect: ('valid',) | (failure kind, key prefix, listed name or None)"""
    code, keys = case['code'], case['keys']
    if expect[0] == 'valid':
        if code != 0 or keys:
            run.fail('conforming-rejected', 'a conforming element does not validate',
                     code=code, errors=keys[:6], **where)
    else:
        kind, prefix, name = expect
        if code != 0 or not keys or not has_key(keys, prefix, name):
            run.fail(kind, 'a single-point structural defect is not reported with an error naming the element',
                     code=code, errors=keys[:6], expected_error=prefix + (name or ''), **where)


def segment_variants(rng, lib, sname):
    """[(line, expectation, mutation label)] for one segment of the tables"""
    ref = lib.SEGMENTS[sname]
    rows = ref[1]
    out = [(fill_segment(sname, ref), ('valid',), 'conforming-required')]
    every = {}
    for row in rows:
        i = field_index(row[0])
        if i is not None and row[2][1] != 0:
            every[i] = '~'.join([fill_ref(row[1], 0)] * max(row[2][0], 1))
    out.append((fill_segment(sname, ref, every), ('valid',), 'conforming-all-fields'))
    req = [row for row in rows if row[2][0] >= 1 and row[2][1] != 0]
    for row in rng.sample(req, min(2, len(req))):
        out.append((fill_segment(sname, ref, {field_index(row[0]): ''}, always_first=False),
                    ('missing-required-not-reported', 'Missing|%s|%s' % (sname, row[0]), None), 'drop-required-field'))
    single = [row for row in rows if row[2][1] == 1]
    for row in rng.sample(single, min(2, len(single))):
        val = fill_ref(row[1], 0)
        out.append((fill_segment(sname, ref, {field_index(row[0]): val + '~' + val}),
                    ('limit-not-reported', 'Limit|%s|%s' % (sname, row[0]), None), 'repeat-single-field'))
    # an extra occurrence counts whatever it holds: the parser materialises the empty one after a trailing '~'
    for row in rng.sample(single, min(2, len(single))):
        val = fill_ref(row[1], 0)
        out.append((fill_segment(sname, ref, {field_index(row[0]): rng.choice([val + '~', '~' + val])}),
                    ('limit-not-reported', 'Limit|%s|%s' % (sname, row[0]), None), 'repeat-single-field-empty'))
    if rows:
        last = max(field_index(row[0]) or 0 for row in rows)
        open_ended = rows[-1][1][2] == 'varies' if len(rows[-1][1]) > 2 else False
        name = '%s_%d' % (sname, last + 1) if open_ended else 'None'
        out.append((fill_segment(sname, ref, {last + 1: 'beyond'}),
                    ('foreign-child-not-reported' if open_ended else 'unknown-not-reported',
                     'InvalidChildren|%s|' % sname, name), 'field-beyond-table'))
    cplx = [row for row in rows if is_seq(row[1]) and row[1][1] and row[2][1] != 0]
    if cplx:
        row = rng.choice(cplx)
        n = len(row[1][1])
        base = fill_ref(row[1], 0)
        text = base + '^' * (n - base.count('^')) + 'extra'
        out.append((fill_segment(sname, ref, {field_index(row[0]): text}),
                    ('unknown-not-reported', 'InvalidChildren|%s|' % row[0], 'None'), 'component-beyond-datatype'))
        withreq = [(row, j) for row in cplx for j, c in enumerate(row[1][1]) if c[2][0] >= 1]
        if withreq:
            row, j = rng.choice(withreq)
            other = next((k for k in range(len(row[1][1])) if k != j and row[1][1][k][2][1] != 0), None)
            if other is not None:
                ov = {j: '', other: fill_ref(row[1][1][other][1], 1)}
                out.append((fill_segment(sname, ref, {field_index(row[0]): fill_ref(row[1], 0, ov)}),
                            ('missing-required-not-reported', 'Missing|%s|%s' % (row[0], row[1][1][j][0]), None),
                            'drop-required-component'))
    leaf = [row for row in rows if not is_seq(row[1]) and row[1][2] not in ('varies', None) and row[2][1] != 0]
    if leaf:
        row = rng.choice(leaf)
        out.append((fill_segment(sname, ref, {field_index(row[0]): 'a^b'}),
                    ('wrong-datatype-not-reported', 'Datatype|%s|%s|' % (sname, row[0]), None), 'components-in-base-field'))
    return out


def segment_level(run, rng, dist):
    cases = []
    n_seg = 30 if not run.thorough else 100000
    for v in S.VERSIONS:
        lib = hl7apy.load_library(v)
        ec = default_ec(v)
        names = [s for s in sorted(lib.SEGMENTS) if S.ok_segment(lib, s) and s != 'MSH' and lib.SEGMENTS[s][1]]
        rng.shuffle(names)
        for sname in names[:n_seg]:
            for line, expect, label in segment_variants(rng, lib, sname):
                c = seg_case(line, v)
                c['label'] = label
                cases.append(c)
                dist[label] = dist.get(label, 0) + 1
                where = {'level': 'segment', 'version': v, 'segment': sname, 'text': line, 'mutation': label,
                         'expect': list(expect)}
                judge(run, c, expect, where)
                if c['obj'] is not None:
                    check_purity_and_wrapper(run, c['obj'], ec, where)
            # breadth for the model: messy lines (surplus fields/components, blanks, repetitions)
            for _ in range(1 if not run.thorough else 2):
                c = seg_case(S.gen_segment_line(rng, lib, ec, sname, messy=True), v)
                c['label'] = 'messy'
                cases.append(c)
                dist['messy'] = dist.get('messy', 0) + 1
                if c['obj'] is not None:
                    check_purity_and_wrapper(run, c['obj'], ec, {'level': 'segment', 'version': v, 'text': c['text'],
                                                                 'mutation': 'messy'})
        for text in ('ZXX|a|b', 'ZXX|b^c&d', 'Z1A|x~y|z'):
            c = seg_case(text, v)
            c['label'] = 'z-segment'
            cases.append(c)
            dist['z-segment'] = dist.get('z-segment', 0) + 1
    return cases


# ------------------------------------------------------------------------------------------
# message level


def names_intended(nodes):
    return [n[1] if n[0] == 'S' else (n[1], names_intended(n[3])) for n in nodes]


def names_parsed(sh):
    return [n[1][:3] if n[0] == 'S' else (n[1], names_parsed(n[2])) for n in sh]


def all_names(ref, acc=None):
    acc = set() if acc is None else acc
    for row in ref[1]:
        acc.add(row[0])
        if row[3] == 'GRP' and is_seq(row[1]):
            all_names(row[1], acc)
    return acc


def build_api(mname, v, nodes, lines, reference=None):
    """the intended tree, built through the API (no group search)"""
    from hl7apy.core import Message, Group
    it = iter(lines)
    msg = Message(mname, version=v, validation_level=TOL, reference=reference)

    def mk(node):
        if node[0] == 'S':
            return parse_segment(next(it), version=v, validation_level=TOL, reference=node[2])
        g = Group(node[1], version=v, validation_level=TOL, reference=node[2])
        for k in node[3]:
            g.add(mk(k))
        return g
    msg.children = [mk(n) for n in nodes]
    return msg


def addressable(mname, ref):
    """can parse_message recover the structure name from MSH-9?"""
    p = mname.split('_')
    if len(p) < 2 or mname.endswith('nn'):
        return False
    for row in ref[1]:
        if row[0] == 'MSH' and is_seq(row[1]):
            for f in row[1][1]:
                if f[0] == 'MSH_9' and is_seq(f[1]):
                    return len(f[1][1]) >= 3 or len(p) == 2
    return False


def message_case(run, v, mname, label, lines, expect, ref, nodes, profile=None, profile_name=None):
    """parse + validate one message text; judge; returns the correspondence case (or None)"""
    text = '\r'.join(lines)
    where = {'level': 'message', 'version': v, 'structure': mname, 'mutation': label, 'text': text,
             'expect': list(expect), 'reference': profile_name or 'standard'}
    try:
        msg = parse_message(text, validation_level=TOL, find_groups=True, message_profile=profile)
    except Exception as ex:  # noqa
        if expect[0] == 'valid':
            run.fail('conforming-rejected', 'a conforming message does not parse', exc=repr(ex), dup_bounded=False,
                     grouping_differs=False, **where)
        return None
    ec = S.default_ec(v)
    code, keys, nlen, rep = check_purity_and_wrapper(run, msg, ec, where)
    case = {'v': v, 'name': msg.name, 'code': code, 'keys': keys, 'nlen': nlen, 'lines': lines,
            'shape': shape_of(msg), 'label': label, 'structure': mname}
    if expect[0] == 'valid':
        if code != 0 or keys:
            parsed = [x for x in names_parsed(case['shape']) if not (label == 'conforming-plus-z' and x == 'ZXX')]
            grouping = nodes is not None and names_intended(nodes) != parsed
            dup = nodes is not None and dup_conflict(ref, nodes)
            tree_ok = None
            if nodes is not None and label != 'conforming-plus-z':
                try:
                    tree = build_api(mname, v, nodes, lines, profile)
                    c2, k2, _, _ = observe(tree)
                    tree_ok = (c2 == 0 and not k2)
                except Exception as ex:  # noqa
                    tree_ok = 'EXC ' + repr(ex)
            run.fail('conforming-rejected', 'a conforming message does not validate', code=code, errors=keys[:6],
                     dup_bounded=bool(dup), grouping_differs=bool(grouping), duplicate_names=has_duplicates(ref),
                     intended_tree_validates=tree_ok, **where)
    else:
        judge(run, case, expect, where)
    return case


def message_variants(rng, lib, v, mname, ref, thorough):
    """[(label, lines, expectation, nodes)]"""
    out = []
    nodes = instance(ref, 'req', lib)
    if not nodes or nodes[0][1] != 'MSH':
        return out
    lines = lines_of(nodes, mname, v)
    out.append(('conforming-required', lines, ('valid',), nodes))
    nodes_all = instance(ref, 'all', lib)
    if thorough or rng.random() < 0.4:
        out.append(('conforming-all', lines_of(nodes_all, mname, v), ('valid',), nodes_all))
    out.append(('conforming-plus-z', [lines[0], 'ZXX|a|b'] + lines[1:], ('valid',), nodes))
    if has_true_choice(ref):
        alt = instance_one_alternative(ref, lib)
        if alt and alt[0][1] == 'MSH':
            out.append(('conforming-choice-one-alternative', lines_of(alt, mname, v), ('valid',), alt))
    # ---- single-point mutations of the required-only instance
    top = [(k, n) for k, n in enumerate(nodes)]
    pos = {}        # index of the first line of every top-level node
    at = 0
    for k, n in top:
        pos[k] = at
        at += 1 if n[0] == 'S' else len(list(flat([n])))
    req_segs = [(k, n) for k, n in top if n[0] == 'S' and n[1] != 'MSH' and [x[1] for x in nodes].count(n[1]) == 1]
    if req_segs:
        k, n = rng.choice(req_segs)
        out.append(('remove-required-segment', lines[:pos[k]] + lines[pos[k] + 1:],
                    ('missing-required-not-reported', 'Missing|%s|%s' % (mname, n[1]), None), None))
    single = [(k, n) for k, n in top if n[0] == 'S' and n[1] != 'MSH'
              and [row[2][1] for row in ref[1] if row[0] == n[1]] == [1]]
    if single:
        k, n = rng.choice(single)
        out.append(('duplicate-single-segment', lines[:pos[k] + 1] + [lines[pos[k]]] + lines[pos[k] + 1:],
                    ('limit-not-reported', 'Limit|%s|%s' % (mname, n[1]), None), None))
    used = all_names(ref)
    foreign = [s for s in sorted(lib.SEGMENTS) if s not in used and S.ok_segment(lib, s) and lib.SEGMENTS[s][1]
               and not s.startswith('Z') and s != 'MSH']
    if foreign:
        f = rng.choice(foreign)
        out.append(('insert-foreign-segment', [lines[0], fill_segment(f, lib.SEGMENTS[f])] + lines[1:],
                    ('foreign-child-not-reported', 'InvalidChildren|%s|' % mname, f), None))
    grp = [(k, n) for k, n in top if n[0] == 'G' and len(n[3]) >= 2 and all(x[0] == 'S' for x in n[3])
           and len({x[1] for x in n[3]}) == len(n[3])]
    if grp:
        k, n = rng.choice(grp)
        j = rng.randrange(1, len(n[3]))
        out.append(('remove-required-segment-in-group', lines[:pos[k] + j] + lines[pos[k] + j + 1:],
                    ('missing-required-not-reported', 'Missing|%s|%s' % (n[1], n[3][j][1]), None), None))
    # a Z-segment is admitted anywhere, but what it contains is validated on its own
    out.append(('z-segment-with-unknown-component', [lines[0], 'ZXX|b^c&d'] + lines[1:],
                ('unknown-not-reported', 'Unknown|ZXX_1|', None), None))
    bad = lines[0].split('|')
    bad[8] = 'QQQ^Q99^QQQ_Q99' if bad[8].count('^') >= 2 else 'QQQ^Q99'
    out.append(('unknown-message-type', ['|'.join(bad)] + lines[1:],
                ('unknown-not-reported', 'Unknown|None|None', None), None))
    return out


def message_level(run, rng, dist):
    cases = []
    stats = {'structures': 0, 'non_structures': 0, 'not_addressable_from_text': 0}
    per_version = 18 if not run.thorough else 100000
    for v in S.VERSIONS:
        lib = hl7apy.load_library(v)
        good = []
        for m in sorted(lib.MESSAGES):
            ref = lib.MESSAGES[m]
            if not structure_ok(ref):
                stats['non_structures'] += 1
            elif not addressable(m, ref):
                stats['not_addressable_from_text'] += 1
            else:
                good.append(m)
        rng.shuffle(good)
        chosen = good[:per_version] + [m for m in good[per_version:] if has_true_choice(lib.MESSAGES[m])][:2]
        for m in chosen:
            ref = lib.MESSAGES[m]
            stats['structures'] += 1
            base_ok = True
            for label, lines, expect, nodes in message_variants(rng, lib, v, m, ref, run.thorough):
                if (expect[0] != 'valid' or label == 'conforming-plus-z') and not base_ok:
                    continue      # mutations are judged against a base instance that validates
                before = len(run.failures)
                c = message_case(run, v, m, label, lines, expect, ref, nodes)
                if label == 'conforming-required' and len(run.failures) > before:
                    base_ok = False
                dist[label] = dist.get(label, 0) + 1
                if c is not None:
                    cases.append(c)
    return cases, stats


def z_message_level(run, rng, dist):
    """A Z message (custom structure) made of standard segments and a Z-segment: the standard segments are still
    judged against the tables of the version - conforming instance and single-point defects inside a segment"""
    cases = []
    for v in S.VERSIONS:
        lib = hl7apy.load_library(v)
        mname = 'ZDT_Z01'
        header = msh_line(mname, v, lib.SEGMENTS['MSH'])
        names = [s for s in sorted(lib.SEGMENTS) if S.ok_segment(lib, s) and s != 'MSH' and lib.SEGMENTS[s][1]
                 and any(row[2][0] >= 1 for row in lib.SEGMENTS[s][1])]
        if len(names) < 2:
            continue
        a, b = rng.sample(names, 2)
        good_b = fill_segment(b, lib.SEGMENTS[b])
        for line, expect, label in segment_variants(rng, lib, a):
            if label in ('conforming-all-fields',):
                continue
            lines = [header, line, good_b, 'ZIN|aa|bb']
            c = message_case(run, v, mname, 'z-message/' + label, lines, expect, None, None)
            dist['z-message'] = dist.get('z-message', 0) + 1
            if c is not None:
                cases.append(c)
    return cases


# ------------------------------------------------------------------------------------------
# model side, message level: the tree is rebuilt in Coq from the nesting the implementation's
# parser produced (Model/Validate.v: build_message) and validated by the model

MSG_PART = '''Definition msg_case := (option str * list shape * nat * list str * nat)%type.
Definition built (c : msg_case) : result message :=
  match c with (name, kids, _, _, _) => build_message t TOLERANT e lenc name kids end.
Definition msg_agrees (c : msg_case) : bool :=
  match c with (name, kids, code, keys, nw) =>
    same (match built c with
          | Err x => ((100 + exn_code x)%nat, [], 0%nat)
          | Ok m => obs_log (validate_message_log t TOLERANT e m)
          end) code keys nw end.
Definition msg_linked (c : msg_case) : bool :=
  match built c with Ok m => linked_message t TOLERANT e m | Err _ => true end.
'''


def shape_term(shape, lines_iter):
    out = []
    for n in shape:
        if n[0] == 'S':
            line = next(lines_iter)
            if line[:3].upper() != n[1][:3].upper():
                raise ValueError('segment order differs')
            out.append('ShSeg %s' % coq_str(line))
        else:
            out.append('ShGrp %s %s' % (coq_str(n[1]), shape_term(n[2], lines_iter)))
    return '[' + '; '.join(out) + ']'


def run_message_model(run, cases, per_file=16, check_linked=True):
    byv = {}
    skipped = 0
    for c in cases:
        try:
            if not all(is_model_str(x) for x in c['lines'] + c['keys']):
                raise ValueError('outside the model alphabet')
            it = iter(c['lines'])
            c['term'] = shape_term(c['shape'], it)
            if next(it, None) is not None:
                raise ValueError('segment count differs')
        except (ValueError, StopIteration):
            skipped += 1
            continue
        byv.setdefault(c['v'], []).append(c)
    files, index = [], []
    for v in sorted(byv):
        for k, sh in enumerate(shard(byv[v], per_file)):
            rows = ['(%s, %s, %d%%nat, %s, %d%%nat)' % ('None' if c['name'] is None else '(Some %s)' % coq_str(c['name']),
                                                        c['term'], c['code'], coq_strs(c['keys']), c['nlen']) for c in sh]
            L = [prelude(v, S.default_ec(v), [x for c in sh for x in c['lines']]), MSG_PART, 'Definition cases : list msg_case := [\n' + ';\n'.join(rows) + '\n].',
                 'Eval vm_compute in failing 0 (map msg_agrees cases).']
            if check_linked:
                L.append('Eval vm_compute in failing 0 (map msg_linked cases).')
            files.append(('c04m_%d_%s_%d' % (os.getpid(), v.replace('.', '_'), k), '\n'.join(L) + '\n'))
            index.append(sh)
    results = coq_eval_many(files, timeout=1500)
    evaluated = unlinked = 0
    for sh, (rc, out) in zip(index, results):
        lists = parse_nat_lists(out)
        if rc != 0 or len(lists) != (2 if check_linked else 1):
            run.disagree('message-validator', why='case file did not evaluate', output=out[-1500:])
            continue
        evaluated += len(sh)
        for i in lists[0]:
            c = sh[i]
            run.disagree('message-validator', version=c['v'], structure=c['structure'], mutation=c['label'],
                         text='\r'.join(c['lines']),
                         implementation={'code': c['code'], 'errors': c['keys'], 'length_warnings': c['nlen']})
        if check_linked:
            unlinked += len(lists[1])
    return evaluated, unlinked, skipped


PROFILE_PART = '''Definition pcase := (str * list shape * nat * list str * nat)%%type.
Definition root : sref := %s.
Definition pbuilt (c : pcase) : result message :=
  match c with (name, kids, _, _, _) =>
    match parse_structure t root with
    | Err x => Err x
    | Ok st => match build_nodes t TOLERANT e lenc (Some st) kids with
               | Ok ks => Ok (mk_message (Some name) (Some st) ks)
               | Err x => Err x
               end
    end end.
Definition p_agrees (c : pcase) : bool :=
  match c with (name, kids, code, keys, nw) =>
    same (match pbuilt c with
          | Err x => ((100 + exn_code x)%%nat, [], 0%%nat)
          | Ok m => obs_log (validate_message_log t TOLERANT e m)
          end) code keys nw end.
'''


def run_profile_model(run, cases):
    """message-profile cases: the profile is serialised by the tables translator into an inline sref"""
    if not cases:
        return 0
    import gen_tables
    byroot = {}
    for c in cases:
        try:
            it = iter(c['lines'])
            c['term'] = shape_term(c['shape'], it)
            if next(it, None) is not None or c['name'] is None:
                continue
        except (ValueError, StopIteration):
            continue
        byroot.setdefault((c['v'], id(c['root'])), []).append(c)
    files, index = [], []
    for (v, _), sh in byroot.items():
        ser = gen_tables.Ser(hl7apy.load_library(v))
        term = re.sub(r's"([^"]*)"', r'(unbs "\1")', ser.ref(sh[0]['root']))
        if ser.bad:
            run.note('profile not translatable (%d malformed parts)' % ser.bad)
            continue
        rows = ['(%s, %s, %d%%nat, %s, %d%%nat)' % (coq_str(c['name']), c['term'], c['code'], coq_strs(c['keys']), c['nlen'])
                for c in sh]
        L = [prelude(v, S.default_ec(v), [x for c in sh for x in c['lines']]), 'Open Scope Z_scope.', PROFILE_PART % term,
             'Definition cases : list pcase := [\n' + ';\n'.join(rows) + '\n].',
             'Eval vm_compute in failing 0 (map p_agrees cases).']
        files.append(('c04p_%d_%s_%d' % (os.getpid(), v.replace('.', '_'), len(files)), '\n'.join(L) + '\n'))
        index.append(sh)
    results = coq_eval_many(files, timeout=1500)
    evaluated = 0
    for sh, (rc, out) in zip(index, results):
        lists = parse_nat_lists(out)
        if rc != 0 or len(lists) != 1:
            run.disagree('profile-validator', why='case file did not evaluate', output=out[-1500:])
            continue
        evaluated += len(sh)
        for i in lists[0]:
            c = sh[i]
            run.disagree('profile-validator', version=c['v'], structure=c['structure'], mutation=c['label'],
                         text='\r'.join(c['lines']),
                         implementation={'code': c['code'], 'errors': c['keys'], 'length_warnings': c['nlen']})
    return evaluated


# ------------------------------------------------------------------------------------------
# message profile as the validation reference (implementation-side oracle)


def profile_level(run, rng, dist):
    """the RSP_K21 profile shipped with hl7apy's tests: a conforming instance built from the profile
    validates against it, single-point mutations are reported"""
    path = os.path.join(os.environ.get('HL7APY_REPO', '/repo'), 'tests', 'profiles', 'iti_21')
    if not os.path.exists(path):
        return 0, []
    mp = hl7apy.load_message_profile(path)
    n = 0
    cases = []
    for mname, ref in sorted(mp.items()):
        if not structure_ok(ref):
            continue
        v = '2.5'
        lib = hl7apy.load_library(v)
        for label, lines, expect, nodes in message_variants(rng, lib, v, mname, ref, True):
            if label == 'unknown-message-type':
                continue        # MessageProfileNotFound is raised by the parser: not a validation matter
            if label == 'insert-foreign-segment':
                # the profile is the reference of the message only; the foreign segment is found in the tables
                pass
            c = message_case(run, v, mname, label, lines, expect, ref, nodes, profile=mp, profile_name='iti_21')
            if c is not None:
                c['root'] = ref
                cases.append(c)
            dist['profile:' + label] = dist.get('profile:' + label, 0) + 1
            n += 1
        # field level inside the profile: required field / component removed, length warning is a warning only
        for row in ref[1]:
            if row[3] != 'SEG' or row[0] == 'MSH' or row[2][0] < 1:
                continue
            req = [f for f in row[1][1] if f[2][0] >= 1 and f[2][1] != 0]
            if not req:
                continue
            f = rng.choice(req)
            nodes = instance(ref, 'req', lib)
            lines = lines_of(nodes, mname, v)
            k = [x[1] for x in flat(nodes)].index(row[0])
            lines[k] = fill_segment(row[0], row[1], {field_index(f[0]): ''}, always_first=False)
            c = message_case(run, v, mname, 'profile-drop-required-field', lines,
                             ('missing-required-not-reported', 'Missing|%s|%s' % (row[0], f[0]), None), ref, None,
                             profile=mp, profile_name='iti_21')
            if c is not None:
                c['root'] = ref
                cases.append(c)
            dist['profile:drop-required-field'] = dist.get('profile:drop-required-field', 0) + 1
            n += 1
            # a value longer than the profile allows: a WARNING only (the message stays valid)
            leafs = [f for f in row[1][1] if not is_seq(f[1]) and f[1][5] > 0 and f[2][1] != 0 and f[1][2] in ('ST', 'ID', 'IS')]
            if leafs:
                f = rng.choice(leafs)
                lines = lines_of(nodes, mname, v)
                lines[k] = fill_segment(row[0], row[1], {field_index(f[0]): 'L' * (f[1][5] + 3)})
                c = message_case(run, v, mname, 'profile-value-too-long', lines, ('valid',), ref, None,
                                 profile=mp, profile_name='iti_21')
                if c is not None:
                    c['root'] = ref
                    cases.append(c)
                dist['profile:value-too-long'] = dist.get('profile:value-too-long', 0) + 1
                n += 1
    return n, cases


def z_profile_level(run, rng, dist, prof_cases=()):
    """CORRESPONDENCE ONLY (the oracle does not judge these cases; see below).  A Z message that a MESSAGE PROFILE
    declares: the iti_21 profile re-keyed as ZDT_Z01.  Validator.validate dispatches on el.is_z_element() before it
    looks at the reference, so the structure the profile declares for the message is never consulted
    (Properties/C04.v C04_z_message_structure_ignored): a message lacking segments the profile requires validates,
    and the segments - created with the PROFILE's references by the parser - are held against the TABLES of the
    version (QPD-3, QIP in the profile and `varies` in the table: IndexError from inside validate()).  The model
    follows the code (same outcome codes, same errors); whether this violates C04 ("... x validation reference in
    {standard tables, message profile}") is for the integrator to record: the cases are not passed to judge()."""
    path = os.path.join(os.environ.get('HL7APY_REPO', '/repo'), 'tests', 'profiles', 'iti_21')
    if not os.path.exists(path):
        return []
    shared = [c['root'] for c in prof_cases if c.get('structure') == 'RSP_K21' and c.get('root') is not None]
    ref = shared[0] if shared else hl7apy.load_message_profile(path).get('RSP_K21')   # same object: same case file
    if ref is None or not structure_ok(ref):
        return []
    v, mname = '2.5', 'ZDT_Z01'
    zp = {mname: ref}
    lib = hl7apy.load_library(v)
    nodes = instance(ref, 'req', lib)
    if not nodes or nodes[0][1] != 'MSH':
        return []
    lines = lines_of(nodes, mname, v)
    names = [x[1] for x in flat(nodes)]
    keep = [k for k, n in enumerate(names) if n in ('MSH', 'MSA')]
    variants = [('z-profile/conforming-required', lines),
                ('z-profile/required-segments-removed', [lines[k] for k in keep]),
                ('z-profile/header-only', lines[:1]),
                ('z-profile/insert-foreign-segment', [lines[k] for k in keep] + ['PV1||I'])]
    cases = []
    for label, ls in variants:
        text = '\r'.join(ls)
        where = {'level': 'message', 'version': v, 'structure': mname, 'mutation': label, 'text': text,
                 'expect': [], 'reference': 'iti_21 as ZDT_Z01'}
        try:
            msg = parse_message(text, validation_level=TOL, find_groups=True, message_profile=zp)
        except Exception:  # noqa
            continue
        code, keys, nlen, rep = check_purity_and_wrapper(run, msg, S.default_ec(v), where)
        cases.append({'v': v, 'name': msg.name, 'code': code, 'keys': keys, 'nlen': nlen, 'lines': ls,
                      'shape': shape_of(msg), 'label': label, 'structure': mname, 'root': ref})
        dist['z-profile'] = dist.get('z-profile', 0) + 1
        # the property: the validation reference may be a message profile; a profile that declares a Z message is a
        # structure like any other
        if label == 'z-profile/conforming-required' and (code != 0 or keys):
            run.fail('conforming-rejected' if code == 0 else 'validate-raises', 'a message conforming to the profile that '
                     'declares its (Z) structure does not validate', code=code, errors=keys[:6], z_message_profile=True,
                     dup_bounded=False, grouping_differs=False, **where)
        if label in ('z-profile/required-segments-removed', 'z-profile/header-only') and code == 0 and not keys:
            run.fail('missing-required-not-reported', 'a Z message declared by a message profile validates although segments '
                     'the profile requires are absent', code=code, errors=[], z_message_profile=True, **where)
        if label == 'z-profile/insert-foreign-segment' and code == 0 and not any(k.startswith('InvalidChildren') for k in keys):
            run.fail('foreign-child-not-reported', 'a Z message declared by a message profile validates although it holds a '
                     'segment the profile does not allow', code=code, errors=keys[:6], z_message_profile=True, **where)
    return cases


# ------------------------------------------------------------------------------------------


HASH_PROBE = r'''
import sys, json
from hl7apy.parser import parse_message
from hl7apy.core import Segment
m = parse_message('MSH|^~\\&|A|B|C|D|20130101101500||ADT^A01^ADT_A01|1|P|2.5\rEVN||20130101\rPID|1||1^^^H^MR||S^N\rPV1|1|I',
                  find_groups=False)
for n in ('SPM', 'OBR', 'ORC', 'NTE', 'TQ1', 'SAC'):
    m.add(Segment(n, version='2.5'))
m.pid.add_field('PID_3').value = 'a^b^c^d^e^f^g^h^i^j^k^l^m'
rep = m.validate(return_errors=True)
print(json.dumps([[str(e) for e in rep.errors], [str(w) for w in rep.warnings]]))
'''


def hash_seed_probe(run):
    """validate() is deterministic: the same message gives the same report text in every process, whatever the hash seed"""
    import subprocess
    from common import REPO
    outs = []
    for seed in ('1', '2', '3', '4'):
        env = dict(os.environ, PYTHONHASHSEED=seed, PYTHONPATH=REPO)
        r = subprocess.run([sys.executable, '-c', HASH_PROBE], env=env, capture_output=True, text=True, timeout=120)
        outs.append((seed, r.stdout.strip() if r.returncode == 0 else 'EXIT %d %s' % (r.returncode, r.stderr[-300:])))
    if len({o for _, o in outs}) != 1:
        a, b = outs[0], next(x for x in outs if x[1] != outs[0][1])
        run.fail('report-depends-on-hash-seed', 'validate() reports differently worded errors for the same message in processes '
                 'started with different hash seeds', level='message', version='2.5', structure='ADT_A01',
                 seeds=[a[0], b[0]], report_a=a[1][:600], report_b=b[1][:600])
    return len(outs)


def main(argv=None):
    run = Run('C04', argv)
    if run.replay:
        return replay(run)
    targets, obl = [], []
    if os.path.exists(os.path.join(COQ, 'Properties', 'C04.v')):
        targets.append('Properties/C04.vo')
        obl.append('Properties/C04.v')
    else:
        targets.append('Model/Validate.vo')
    ok = run.build(targets, gen=('params', 'tables'), obligation_files=obl or None)
    if ok and obl:
        run.print_assumptions('Properties.C04', [n for n, _ in theorems_of('Properties/C04.v')])
    rng = run.rng
    dist = {}
    seg_cases = segment_level(run, rng, dist)
    run.log('segment level: %d cases, %d oracle failures' % (len(seg_cases), len(run.failures)))
    msg_cases, stats = message_level(run, rng, dist)
    msg_cases += z_message_level(run, rng, dist)
    run.log('message level: %d cases (%s), %d oracle failures' % (len(msg_cases), stats, len(run.failures)))
    n_profile, prof_cases = profile_level(run, rng, dist)
    zprof_cases = z_profile_level(run, rng, dist, prof_cases)
    prof_cases = prof_cases + zprof_cases
    dist['hash_seed_processes'] = hash_seed_probe(run)
    run.log('profile level: %d cases, %d oracle failures' % (n_profile, len(run.failures)))
    # ---- correspondence
    seg_model = seg_cases
    if run.thorough and len(seg_model) > 20000:
        seg_model = rng.sample(seg_model, 20000)
    ev_s, unlinked_s = run_segment_model(run, seg_model, check_linked=True)
    run.log('model evaluated %d segment cases, %d disagreements, %d outside the theorem domain'
            % (ev_s, len(run.disagreements), unlinked_s))
    per_label = {}
    msg_model = []
    cap = 3 if not run.thorough else 20
    order = list(msg_cases)
    rng.shuffle(order)
    zquota = {}         # quick tier: per version the conforming Z message and 4 seed-chosen mutations go to the model
    for c in order:
        key = (c['v'], c['label'])
        if c['label'].startswith('z-message/') and not run.thorough and c['label'] != 'z-message/conforming-required':
            if zquota.get(c['v'], 0) >= 4:
                continue
            zquota[c['v']] = zquota.get(c['v'], 0) + 1
        if per_label.get(key, 0) < cap and len(c['lines']) <= 14:
            per_label[key] = per_label.get(key, 0) + 1
            msg_model.append(c)
    ev_m, unlinked_m, skipped_m = run_message_model(run, msg_model)
    run.log('model evaluated %d message cases (%d skipped), %d disagreements, %d outside the theorem domain'
            % (ev_m, skipped_m, len(run.disagreements), unlinked_m))
    ev_p = run_profile_model(run, prof_cases)
    run.log('model evaluated %d profile cases, %d disagreements' % (ev_p, len(run.disagreements)))
    nontrivial = len({(c['v'], c['text'][:3], c['label']) for c in seg_cases if c['label'] != 'conforming-required'}) + \
        len({(c['v'], c['structure'], c['label']) for c in msg_cases if c['label'] != 'conforming-required'})
    samples = [{'level': 'segment', 'version': c['v'], 'text': c['text'][:160], 'mutation': c['label'], 'code': c['code'],
                'errors': c['keys'][:4]} for c in seg_cases[:: max(1, len(seg_cases) // 4)][:4]] + \
              [{'level': 'message', 'version': c['v'], 'structure': c['structure'], 'mutation': c['label'],
                'text': ' // '.join(c['lines'])[:300], 'errors': c['keys'][:4]}
               for c in msg_cases[:: max(1, len(msg_cases) // 4)][:4]]
    run.finish({
        'evaluations': len(seg_cases) + len(msg_cases) + n_profile + len(zprof_cases),
        'distinct_nontrivial': nontrivial,
        'rule': 'segment level: for %s segments of every version a conforming line with the required fields, one with '
                'every field, and single-point mutations (required field dropped, single field repeated, field beyond '
                'the table, component beyond the datatype, required component dropped, components in a base field), '
                'plus messy lines and Z-segments for the model; message level: for %s message structures of every '
                'version that can be addressed from MSH-9 the required-only and all-children instances (+ a Z-segment) '
                'and single-point mutations (required segment removed at top level / inside a group, single segment '
                'duplicated, foreign segment inserted, Z-segment holding an unknown component, unknown message type), parsed with find_groups=True; '
                'a Z message per version (ZDT_Z01 = MSH + two seed-chosen standard segments + ZIN: conforming, and every segment-level '
                'single-point mutation inside the first standard segment - oracle and model); the same '
                'families against the iti_21 message profile (and, for the model correspondence only, the profile re-keyed as the Z '
                'message ZDT_Z01); every element also goes through the purity and '
                'wrapper clauses; non-trivial/distinct = distinct (version, segment or structure, mutation) other '
                'than the required-only conforming instance'
                % ('all' if run.thorough else '30 seed-chosen', 'all' if run.thorough else '18 seed-chosen'),
        'samples': samples,
        'traces_validated_against_impl': ev_s + ev_m + ev_p,
        'input_distribution': dist,
        'structures': stats,
        'model_cases': {'segments': ev_s, 'messages': ev_m, 'messages_skipped': skipped_m, 'profile_messages': ev_p},
        'trees_outside_theorem_domain': {'segments': unlinked_s, 'messages': unlinked_m,
                                         'note': 'linked_seg / linked_message false: the conformance theorem does not '
                                                 'speak about these trees (e.g. a structure that declares a name twice); '
                                                 'the correspondence still compares them'},
    }, assumptions=[
        'model fidelity claimed for ASCII text, TOLERANT level, standard tables; table-compliance warnings are not '
        'modelled (value tables are not generated) and length warnings are compared as a count',
        'message trees are rebuilt in Coq from the nesting produced by hl7apy\'s parser (the group search is C08\'s subject)',
        'case files run the model on front_tables (the generated tables with the needed entries copied to the front): '
        'every lookup is unchanged (ValidateFacts.slookup_front) and the model reads the tables through lookups only',
        'message profiles: the iti_21 profile is translated to an inline reference for the model (same translator as the tables)',
    ])


def replay(run):
    import json
    r = json.load(open(run.replay))
    inp = r.get('input', {})
    v, text, expect = inp.get('version'), inp.get('text'), tuple(inp.get('expect') or ())
    if v and text and expect:
        if inp.get('level') == 'segment':
            c = seg_case(text, v)
            judge(run, c, expect, dict(inp))
            if c['obj'] is not None:
                check_purity_and_wrapper(run, c['obj'], default_ec(v), dict(inp))
        else:
            lib = hl7apy.load_library(v)
            mname, label = inp.get('structure'), inp.get('mutation')
            ref = lib.MESSAGES.get(mname)
            profile = None
            if inp.get('reference') == 'iti_21':
                profile = hl7apy.load_message_profile(os.path.join(os.environ.get('HL7APY_REPO', '/repo'), 'tests',
                                                                   'profiles', 'iti_21'))
                ref = profile.get(mname)
            nodes = None
            if label in ('conforming-required', 'conforming-plus-z') and ref is not None:
                nodes = instance(ref, 'req', lib)
            elif label == 'conforming-all' and ref is not None:
                nodes = instance(ref, 'all', lib)
            message_case(run, v, mname, label, text.split('\r'), expect, ref, nodes, profile=profile,
                         profile_name=None if profile is None else 'iti_21')
    for f in run.failures:
        print('replayed failure:', f['kind'], {k: f['data'][k] for k in f['data'] if k in ('errors', 'expected_error', 'code')})
    run.finish({'evaluations': 1, 'distinct_nontrivial': 2, 'rule': 'replay of one stored case', 'samples': [inp]})


if __name__ == '__main__':
    from common import run_guarded
    run_guarded('C04', main)
