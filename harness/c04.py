"""C04 - validate() accepts conforming messages and pinpoints each structural defect.

Obligations: coq/Properties/C04.v (theorems about Model/Validate.v: validate_errors = [] <-> conforms,
the named-error corollaries, the wrapper).  Correspondence: the Coq model parses the same segment
lines (Model/Parser.v) and validates them (Model/Validate.v); outcome code, the sorted multiset of
structured errors and the number of length warnings are compared inside Coq; message trees are
rebuilt in Coq from the shape the implementation's parser produced and validated by the model too.
Oracle: the property's own clauses evaluated on the implementation - conforming instances validate,
every single-point mutation is reported with an error naming the mutated element, validate() is
pure and the three calling conventions / the report file agree.
"""
import ast
import io
import os
import re
import sys

sys.path.insert(0, os.path.dirname(__file__))
from common import Run, COQ, theorems_of, coq_eval_many, parse_nat_lists, shard
from coqgen import coq_str, is_model_str
import segcorr as S
import hl7apy
from hl7apy.parser import parse_segment, parse_message
from hl7apy.exceptions import ValidationError, HL7apyException

TOL = S.TOLERANT

# ------------------------------------------------------------------------------------------
# normalisation of the validator's messages into structured records (canonical keys shared with
# coq/Model/Validate.v: verr_key)


def repr_name(r):
    """name printed by Element.__repr__ ('<Cls name ...>'); None for Python's None / an empty name"""
    if r == 'None':
        return None
    m = re.match(r'^<(\w+)(?: (.*))?>$', r, re.S)
    if not m:
        return '?' + r
    cls, rest = m.group(1), m.group(2) or ''
    if cls in ('Field', 'Component'):
        if rest.startswith('of type '):
            return None
        return rest.split(' ')[0]
    if rest in ('', 'None'):
        return None
    return rest


def ostr(x):
    return 'None' if x is None else str(x)


def norm(msg):
    m = re.match(r'^Missing required child (\S+?)\.(\S+)$', msg)
    if m:
        return 'Missing|%s|%s' % (m.group(1), m.group(2))
    m = re.match(r'^Child limit exceeded (\S+?)\.(\S+)$', msg)
    if m:
        return 'Limit|%s|%s' % (m.group(1), m.group(2))
    m = re.match(r'^Invalid children detected for (<.*?>): (\[.*\])$', msg, re.S)
    if m:
        try:
            names = ast.literal_eval(m.group(2))
        except Exception:  # noqa
            names = ['?' + m.group(2)]
        return 'InvalidChildren|%s|%s' % (ostr(repr_name(m.group(1))), ','.join(sorted(ostr(n) for n in names)))
    m = re.match(r'^Unknown element found: (None|<.*?>)\.(<.*>)$', msg, re.S)
    if m:
        return 'Unknown|%s|%s' % (ostr(repr_name(m.group(1))), ostr(repr_name(m.group(2))))
    m = re.match(r'^Datatype (\S+) is not correct for (\S+?)\.(\S+) \(it must be ', msg)
    if m:
        return 'Datatype|%s|%s|%s' % (m.group(2), m.group(3), m.group(1))
    m = re.match(r'^Invalid element found: (<.*>)$', msg, re.S)
    if m:
        return 'InvalidElement|%s' % ostr(repr_name(m.group(1)))
    return 'OTHER|' + msg


def default_ec(v):
    return S.default_ec(v, trunc='#' if v >= '2.7' else None)


def observe(el):
    """(code, sorted error keys, number of length warnings, report) of el.validate(return_errors=True)"""
    try:
        r = el.validate(return_errors=True)
    except Exception as ex:  # noqa
        return S.outcome_code(ex), [], 0, None
    keys = sorted(norm(str(x)) for x in r.errors)
    nlen = sum(1 for w in r.warnings if str(w).startswith('Exceeded max length'))
    return 0, keys, nlen, r


# ------------------------------------------------------------------------------------------
# model side, segment level

PRELUDE = '''From Coq Require Import List NArith ZArith Init.Byte.
From HL7 Require Import Lib.Str Model.Ec Model.Result Model.Ref Model.Tree Model.Parser Model.Encode Model.Leaf Model.MsgTree Model.Validate Gen.Params.
From HL7 Require Gen.%(mod)s.
Import ListNotations. Open Scope bs_scope.
Definition t := Gen.%(mod)s.tables.
Definition v : str := %(v)s.
Definition e : ec := %(ec)s.
Definition lenc := leaf_enc v TOLERANT e.
Fixpoint strs_eqb (a b : list str) : bool :=
  match a, b with [], [] => true | x :: a', y :: b' => streqb x y && strs_eqb a' b' | _, _ => false end.
(* outcome: 100 + code when the segment does not parse, the exception code when the validator raises, 0 *)
Definition obs_log (r : result (list vmsg)) : nat * list str * nat :=
  match r with
  | Err x => (exn_code x, [], 0%%nat)
  | Ok l => (0%%nat, log_keys l, log_length_warnings l)
  end.
Definition obs_seg (text : str) : nat * list str * nat :=
  match parse_segment t TOLERANT e lenc text None with
  | Err x => ((100 + exn_code x)%%nat, [], 0%%nat)
  | Ok s => obs_log (validate_seg_log t e s)
  end.
Definition same (o : nat * list str * nat) (code : nat) (keys : list str) (nw : nat) : bool :=
  match o with (c, k, w) => Nat.eqb c code && strs_eqb k keys && Nat.eqb w nw end.
Fixpoint failing (n : nat) (l : list bool) : list nat :=
  match l with [] => [] | b :: r => (if b then [] else [n]) ++ failing (S n) r end.
'''

SEG_PART = '''Definition seg_case := (str * nat * list str * nat)%type.
Definition seg_agrees (c : seg_case) : bool :=
  match c with (text, code, keys, nw) => same (obs_seg text) code keys nw end.
'''


def coq_strs(xs):
    return '[' + '; '.join(coq_str(x) for x in xs) + ']'


def prelude(v):
    return PRELUDE % {'mod': S.modname(v), 'v': coq_str(v), 'ec': S.ec_term(default_ec(v))}


def run_segment_model(run, cases, per_file=400):
    """cases: dicts {v, text, code, keys, nlen}.  Returns number evaluated; disagreements recorded."""
    byv = {}
    for c in cases:
        if is_model_str(c['text']) and all(is_model_str(k) for k in c['keys']):
            byv.setdefault(c['v'], []).append(c)
    files, index = [], []
    for v in sorted(byv):
        for k, sh in enumerate(shard(byv[v], per_file)):
            L = [prelude(v), SEG_PART, 'Definition cases : list seg_case := [']
            L.append(';\n'.join('(%s, %d%%nat, %s, %d%%nat)' % (coq_str(c['text']), c['code'], coq_strs(c['keys']), c['nlen'])
                                for c in sh))
            L.append('].')
            L.append('Eval vm_compute in failing 0 (map seg_agrees cases).')
            files.append(('c04s_%d_%s_%d' % (os.getpid(), v.replace('.', '_'), k), '\n'.join(L) + '\n'))
            index.append(sh)
    results = coq_eval_many(files, timeout=1200)
    evaluated = 0
    for sh, (rc, out) in zip(index, results):
        lists = parse_nat_lists(out)
        if rc != 0 or len(lists) != 1:
            run.disagree('segment-validator', why='case file did not evaluate', output=out[-1500:])
            continue
        evaluated += len(sh)
        for i in lists[0]:
            c = sh[i]
            run.disagree('segment-validator', version=c['v'], text=c['text'],
                         implementation={'code': c['code'], 'errors': c['keys'], 'length_warnings': c['nlen']})
    return evaluated


def seg_case(text, v):
    ec = default_ec(v)
    try:
        s = parse_segment(text, version=v, encoding_chars=ec, validation_level=TOL)
    except Exception as ex:  # noqa
        return {'v': v, 'text': text, 'code': 100 + S.outcome_code(ex), 'keys': [], 'nlen': 0, 'obj': None, 'rep': None}
    code, keys, nlen, rep = observe(s)
    return {'v': v, 'text': text, 'code': code, 'keys': keys, 'nlen': nlen, 'obj': s, 'rep': rep}
