"""setup: regenerate coq/Gen and build the whole Coq development (full .vo build)."""
import os
import sys
sys.path.insert(0, os.path.dirname(__file__))
import common

with common.BuildLock():
    for l in common.regenerate([g for g in common.GENERATORS
                                if os.path.exists(os.path.join(common.ROOT, 'harness', common.GENERATORS[g]))]):
        print(l)
    targets = [f + 'o' for f in common.v_files()]
    rc, out = common.make(targets, timeout=3000)
print(out[-3000:])
sys.exit(rc)
