"""C09 - child mutations behave like edits of an ordered list.

Obligations: coq/Properties/C09.v (abstraction `abs` of Model/HeapSpec.v: the ordered list of
(name, repetition) of an element; add appends, replace_child replaces in place, remove removes exactly
the addressed one; the by-name view is the list grouped by name; the encoding is a function of it;
the index-addressed whole operations - remove_by_name(name, i) and children.set(name, text, i) with
Python indexes - refine 'remove / replace-or-append repetition i of the name', lifted to sequences).
Correspondence: harness/heapcorr.py (histories replayed in the model, state dump per step).
Oracle: a plain reference model - per element an ordered list of (child name, payload) - is updated
by the sentence of the property for every successful mutation and compared with the element's real
children (names and encodings, in order) and with an independent structure-order encoder (for open-ended
segments the positions beyond the structure are taken from the children list, not from the segment's counter).
Further kinds: malformed-position-accepted (<SEG>_0 / _07 / _-1 name no child), copy-differs-from-source (a proxy
copy between elements - also of messages with DIFFERENT delimiters - encodes as the source written with the
target's delimiters), assigned-text-not-encoded / value-differs-from-assignment (message level, texts that the
stand-alone parser round-trips).
"""
import json
import os
import re
import sys

sys.path.insert(0, os.path.dirname(__file__))
from common import Run, theorems_of
import heapcorr as H
import segcorr
from hl7apy.core import Segment, Field, Component, SubComponent, Element, Message, Group

PLAIN = re.compile(r'^[A-Za-z0-9]+$')


def enc(x, ec):
    try:
        return x.to_er7(ec)
    except Exception as ex:  # noqa
        return '!%d' % segcorr.outcome_code(ex)


def deep(x, ec, depth=0):
    """the element by value: its encoding and, recursively, the names and encodings of its children"""
    if depth > 4:
        return ()
    return (x.name, enc(x, ec), tuple(deep(c, ec, depth + 1) for c in x.children.list))


def canonical_text(text, ec):
    """a text whose parse -> encode is the identity: no blanks at the ends, no trailing delimiter"""
    if not text or text != text.strip():
        return False
    return text[-1] not in (ec['FIELD'], ec['COMPONENT'], ec['SUBCOMPONENT'], ec['REPETITION'], ec['ESCAPE'], '\r')


def roundtrips(text, child):
    """is the text one that the stand-alone parser of the child's kind gives back unchanged?  (a segment text whose
    fields fit the structure of the segment in this version; for a group: each of its segment lines)  Texts that
    do not - e.g. fields beyond the structure of the segment - are C07's matter"""
    from hl7apy.parser import parse_segment, parse_field, parse_component
    try:
        ec = child.encoding_chars
        kw = dict(version=child.version, encoding_chars=ec, validation_level=child.validation_level)
        if isinstance(child, Group):
            return all(parse_segment(line, **kw).to_er7(ec) == line for line in text.split('\r') if line)
        if isinstance(child, Segment):
            return parse_segment(text, **kw).to_er7(ec) == text
        return True
    except Exception:  # noqa
        return False


def absent_link(x, names):
    """True when some link of the chain x.n1...nk has no listed element yet (judged from the children lists
    and the structure DATA, without going through the lookup code); None when a name cannot be resolved"""
    t = x
    for n in names:
        cn = canon(t, n)
        if cn is None:
            return None
        lst = t.children.indexes.get(cn, [])
        if not lst:
            return True
        t = lst[0]
    return False


def listing(x, ec):
    """the abstraction: ordered (identity, name, payload) of the children of x"""
    return [(id(c), c.name, enc(c, ec)) for c in x.children.list]


def canon(x, name):
    """the child name an attribute name addresses, from the structure DATA of x (not its lookup code):
    by name, by long name, open-ended segment index, base datatype / varies / positional path of a field"""
    n = name.upper()
    sbn = x.__dict__.get('structure_by_name')
    sbl = x.__dict__.get('structure_by_longname')
    if isinstance(sbn, dict) and n in sbn:
        return n
    if isinstance(sbl, dict) and n in sbl:
        return sbl[n]['name']
    if isinstance(x, Segment):
        if x.allow_infinite_children and re.match(r'^%s_\d+$' % re.escape(x.name), n):
            return n
        return None
    if isinstance(x, Group):           # Message is a Group
        return n if (n.startswith('Z') and len(n) == 3) else None
    dt = x.datatype
    lib = H.hl7apy.load_library(x.version)
    if isinstance(x, Field):
        if dt is not None and lib.is_base_datatype(dt):
            if name == dt:
                return dt
            m = re.match(r'^%s_1$' % re.escape(x.name or '?'), n)
            return dt if m else None
        if dt == 'varies' and re.match(r'^VARIES_\d+$', n):
            return n
        m = re.match(r'^%s_(\d+)$' % re.escape(x.name or '?'), n)
        if m and dt:
            return canon(x, '%s_%s' % (dt, m.group(1))) if '%s_%s' % (dt, m.group(1)) != n else None
    return None


def descend(x, names):
    """the listed element the chain x.n1...nk addresses (first repetitions), from the children lists and the
    structure data; None when some link is absent or a name cannot be resolved"""
    t = x
    for n in names:
        cn = canon(t, n)
        lst = t.children.indexes.get(cn, []) if cn else []
        if not lst:
            return None
        t = lst[0]
    return t


DELIMS = ('FIELD', 'COMPONENT', 'REPETITION', 'ESCAPE', 'SUBCOMPONENT')


def translate(text, src, dst):
    """a text written with the delimiters src rewritten with the delimiters dst; None when that is not a plain
    character-for-character matter (escape sequences, or a delimiter of dst occurring as data)"""
    if src['ESCAPE'] in text:
        return None
    if any(dst[k] in text and dst[k] not in [src[j] for j in DELIMS] for k in DELIMS):
        return None
    return text.translate({ord(src[k]): dst[k] for k in DELIMS})


def copy_expectation(impl, op):
    """for x.n1...nk = <proxy>: (encoding the copy must have, delimiters differ?) - the source's first element
    written with the target's delimiters"""
    v = op[3] if op[0] in ('setattr', 'setlistindex') else (op[4] if op[0] == 'setindex' else None)
    if not v or v[0] != 'p' or not (0 <= op[1] < len(impl.I)) or not (0 <= v[1] < len(impl.I)):
        return None
    try:
        src = impl.val(v)[0]
        sec, tec = dict(src.encoding_chars), dict(impl.I[op[1]].encoding_chars)
        own = src.to_er7()
    except Exception:  # noqa
        return None
    differ = any(sec[k] != tec[k] for k in DELIMS)
    want = translate(own, sec, tec)
    if want is None:
        try:
            want = src.to_er7(tec)
        except Exception:  # noqa
            return None
    return want, differ, src.classname


def custom_ec(x):
    """does x use delimiters other than the default ones of its version?"""
    try:
        ec, d = x.encoding_chars, H.ec_for(x.version)
        return any(ec[k] != d[k] for k in DELIMS)
    except Exception:  # noqa
        return None


MALFORMED = re.compile(r'^[1-9][0-9]*$')


def malformed_position(x, name):
    """a name <SEGMENT>_<suffix> whose suffix is not a plainly written number starting at 1: no child name"""
    if not isinstance(x, Segment) or not x.name or not isinstance(name, str):
        return False
    n = name.upper()
    pre = x.name.upper() + '_'
    if not n.startswith(pre):
        return False
    suffix = n[len(pre):]
    return '_' not in suffix and not MALFORMED.match(suffix)


def addressed(pos, idx):
    """position in the children list of the idx-th repetition (Python index, may be negative), or None"""
    if idx < 0:
        idx += len(pos)
        if idx < 0:
            return None
    return pos[idx] if idx < len(pos) else None


def spec_encode(x, spec, ec):
    """independent structure-order encoder of a Segment / complex Field / complex Component from the
    abstract list [(name, payload)]; None when the element is outside this encoder's domain"""
    lib = H.hl7apy.load_library(x.version)
    if ec is None:
        ec = x.encoding_chars
    by = {}
    for _, nm, pl in spec:
        by.setdefault(nm, []).append(pl)
    if isinstance(x, Group):
        if x.validation_level == H.TOLERANT:
            return ec['SEGMENT'].join(pl for _, _, pl in spec)          # insertion order
        out = []
        for k in (x.ordered_children or []):                            # STRICT: structure order (F18)
            out.extend(by.get(k, []))
        return ec['SEGMENT'].join(out)
    if isinstance(x, Segment):
        keys = list(x.ordered_children or [])
        if x.allow_infinite_children:
            # the positions beyond the structure, up to the highest one that holds a child (judged from the list,
            # not from the segment's own counter)
            top = len(keys)
            for _, nm, _ in spec:
                m = re.match(r'^%s_([1-9]\d*)$' % re.escape(x.name), nm or '')
                if m:
                    top = max(top, int(m.group(1)))
            # (the segment's own counter may lag behind a deletion - then positions that are empty now still count -
            # but it is never below the highest position that holds a child)
            top = max(top, x._last_child_index)
            keys += ['%s_%d' % (x.name, i) for i in range(len(keys) + 1, top + 1)]
        slots = [by.get(k) for k in keys]
        slots += [[pl] for _, nm, pl in spec if nm in (None, 'ST')]
        while slots and not slots[-1]:
            slots.pop()
        parts = [x.name] + [ec['REPETITION'].join(s) if s else '' for s in slots]
        if x.name == 'MSH':
            return None
        return ec['FIELD'].join(parts)
    dt = x.datatype
    sep = ec['COMPONENT'] if isinstance(x, Field) else ec['SUBCOMPONENT']
    if isinstance(x, (Field, Component)):
        if isinstance(x, Field) and (x.name in ('MSH_1', 'MSH_2') or dt == 'varies'):
            return None
        if dt is None or lib.is_base_datatype(dt):
            return sep.join(pl for _, _, pl in spec)
        keys = list(x.ordered_children or [])
        slots = [by.get(k) for k in keys]
        slots += [[pl] for _, nm, pl in spec if nm in (None, 'ST')]
        while slots and not slots[-1]:
            slots.pop()
        out = []
        for s in slots:
            if s:
                out.extend(s)
            else:
                out.append('')
        return sep.join(out)
    return None


class Expect(object):
    """what the property's sentence says the children of the target must be after a successful call"""

    def __init__(self, impl, op):
        self.impl = impl
        self.op = op
        self.ec = impl.ec
        k = op[0]
        self.target = None
        self.rule = None
        I = impl.I
        if k in ('add', 'remove', 'addhelper', 'addsegment', 'addgroup', 'dellistindex', 'setlistindex', 'removebyname',
                 'insert') or \
                (k in ('setattr', 'delattr', 'setindex', 'delindex') and len(op[2]) == 1):
            if 0 <= op[1] < len(I):
                self.target = I[op[1]]
        if self.target is None:
            return
        x = self.target
        self.before = listing(x, self.ec)
        ids = [i for i, _, _ in self.before]
        if len(ids) != len(set(ids)):
            # a child already listed twice (F8 / F20): the state is C10's matter, not a list any more
            self.target = None
            return
        self.rule = k
        if k in ('setattr', 'setindex', 'delattr', 'delindex'):
            self.cname = canon(x, op[2][0])
        if k == 'removebyname':
            self.cname = canon(x, op[2])
        if k in ('add', 'remove'):
            self.arg = I[op[2]] if 0 <= op[2] < len(I) else None
        if k == 'insert':
            self.arg = I[op[3]] if 0 <= op[3] < len(I) else None
        # copy by value: the payload of a proxy / element right-hand side at the time of the call
        self.rhs = None
        v = op[3] if k in ('setattr', 'setlistindex') else (op[4] if k == 'setindex' else None)
        if v is not None:
            self.rhs = v

    def expected(self, after):
        """-> (expected [(name, payload)] or None when the rule does not apply, note)"""
        k = self.rule
        b = [(nm, pl) for _, nm, pl in self.before]
        a = [(nm, pl) for _, nm, pl in after]
        ids_b = [i for i, _, _ in self.before]
        ids_a = [i for i, _, _ in after]
        if k == 'add':
            if self.arg is None:
                return None, ''
            if id(self.arg) in ids_b:
                return None, 'already listed (C10 / F8)'
            return b + [(self.arg.name, enc(self.arg, self.ec))], 'add appends'
        if k == 'insert':
            if self.arg is None or id(self.arg) in ids_b:
                return None, ''
            j = min(max(self.op[2], 0), len(b))
            return b[:j] + [(self.arg.name, enc(self.arg, self.ec))] + b[j:], 'children.insert(i, c) puts c at position i'
        if k in ('addhelper', 'addsegment', 'addgroup'):
            if len(a) != len(b) + 1:
                return b + [('?', '')], 'add_<child> appends one child'
            return b + [a[-1]], 'add_<child> appends one child'
        if k == 'remove':
            if self.arg is None or id(self.arg) not in ids_b:
                return b, 'remove of a non-child changes nothing'
            j = ids_b.index(id(self.arg))
            return b[:j] + b[j + 1:], 'remove deletes exactly the addressed child'
        if k == 'dellistindex':
            j = self.op[2]
            return b[:j] + b[j + 1:], 'del children[i] deletes exactly the addressed child'
        if k in ('delattr', 'delindex', 'removebyname'):
            if self.cname is None:
                return None, ''
            idx = 0 if k == 'delattr' else self.op[3]
            pos = [j for j, (nm, _) in enumerate(b) if nm == self.cname]
            j = addressed(pos, idx)
            if j is None:
                return None, ''
            return b[:j] + b[j + 1:], 'deletion removes exactly the addressed repetition'
        if k in ('setattr', 'setindex', 'setlistindex'):
            if k == 'setlistindex':
                j = self.op[2]
                if j >= len(b):
                    return None, ''
                name = b[j][0]
                pos_j = j
            else:
                if self.cname is None:
                    return None, ''
                name = self.cname
                idx = 0 if k == 'setattr' else self.op[3]
                pos = [j for j, (nm, _) in enumerate(b) if nm == name]
                pos_j = addressed(pos, idx)
            # the payload: whatever the new child encodes to (compared by value below for copies)
            if pos_j is None:
                if len(a) != len(b) + 1:
                    return b + [(name, '?')], 'assignment to an absent repetition appends'
                return b + [(name, a[-1][1])], 'assignment to an absent repetition appends'
            if len(a) != len(b):
                return b[:pos_j] + [(name, '?')] + b[pos_j + 1:], 'assignment replaces the addressed repetition in place'
            return b[:pos_j] + [(name, a[pos_j][1])] + b[pos_j + 1:], 'assignment replaces the addressed repetition in place'
        return None, ''

    def new_payload(self, after):
        """(position of the assigned child, its payload) after an assignment, for the by-value checks"""
        k = self.rule
        b = [(nm, pl) for _, nm, pl in self.before]
        if k == 'setlistindex':
            j = self.op[2]
            return (j, after[j][2]) if j < len(after) and j < len(b) else None
        if k in ('setattr', 'setindex') and self.cname is not None:
            idx = 0 if k == 'setattr' else self.op[3]
            pos = [j for j, (nm, _) in enumerate(b) if nm == self.cname]
            j = addressed(pos, idx)
            if j is None:
                j = len(b)
            return (j, after[j][2]) if j < len(after) else None
        return None


def main(argv=None):
    run = Run('C09', argv)
    if run.replay:
        return replay(run)
    ok = run.build(['Properties/C09.vo'], gen=('params', 'tables'), obligation_files=['Properties/C09.v'] + ['Proofs/HeapRefine.v', 'Proofs/HeapAtomic.v', 'Proofs/HeapIndexed.v'])
    if ok:
        run.print_assumptions('Properties.C09', [n for n, _ in theorems_of('Properties/C09.v')])
    rng = run.rng
    versions = ['2.5', '2.3', '2.7'] if run.thorough else ['2.5']
    nhist = 3600 if run.thorough else 360
    nsteps = 16 if run.thorough else 14
    stats = {'steps': 0, 'mutations_checked': 0, 'by_rule': {}, 'encodings_compared': 0, 'copies_checked': 0}
    shapes = set()
    all_cases = {}
    samples = []
    for v in versions:
        cases = []
        for k in range(nhist // len(versions)):
            lvl = H.TOLERANT if k % 2 == 0 else H.STRICT
            g = H.Gen(rng, v, lvl, profile=('reps' if k % 4 == 0 else ('open' if k % 8 == 1 else ('segment' if k % 2 else 'deep'))),
                      nsteps=nsteps)
            state = {}
            check_step(run, g, v, lvl, stats, shapes, state)
            cases.append((g.ops, g.obs))
            if len(samples) < 4 and k % 83 == 7:
                samples.append({'version': v, 'level': lvl, 'ops': g.ops, 'codes': g.codes})
        all_cases[v] = cases
    # message-level family (Message / Group parents: outside the Coq model, judged by the oracle only)
    nmsg = 900 if run.thorough else 260
    stats['message_level_histories'] = nmsg
    for k in range(nmsg):
        v = versions[k % len(versions)]
        lvl = H.TOLERANT if k % 2 == 0 else H.STRICT
        g = H.MsgGen(rng, v, lvl, nsteps=14)
        check_step(run, g, v, lvl, stats, shapes, {})
        if k == 5:
            samples.append({'version': v, 'level': lvl, 'message_level': True, 'ops': g.ops, 'codes': g.codes})
    # children.insert(i, element) (MutableSequence API; outside the model's alphabet: oracle only)
    stats['insert_histories'] = 0
    for v in versions:
        for lvl in (H.TOLERANT, H.STRICT):
            for ops in ([['newseg', lvl, 'ZZ1'], ['newfield', lvl, 'ZZ1_7', None], ['setvalue', 1, 'x'], ['insert', 0, 0, 1]],
                        [['newseg', lvl, 'ZZ1'], ['setattr', 0, ['zz1_2'], ['t', 'b']], ['newfield', lvl, 'ZZ1_5', None],
                         ['setvalue', 2, 'e'], ['insert', 0, 0, 2]],
                        [['newseg', lvl, 'PID'], ['setattr', 0, ['pid_5'], ['t', 'A']], ['newfield', lvl, 'PID_3', None],
                         ['setvalue', 2, '7'], ['insert', 0, 0, 2]],
                        [['newseg', lvl, 'PID'], ['setindex', 0, ['pid_3'], 0, ['t', 'A']], ['setindex', 0, ['pid_3'], 1, ['t', 'B']],
                         ['newfield', lvl, 'PID_3', None], ['setvalue', 3, 'C'], ['insert', 0, 1, 3]]):
                stats['insert_histories'] += 1
                oracle_on_history(run, v, ops, lvl)
    H.shrink_oracle_failures(run, oracle_on_history, ('rule', 'target_class', 'value_kind'))
    run.log('implementation side: %d steps, %d successful mutations compared with the reference model, %d failures'
            % (stats['steps'], stats['mutations_checked'], len(run.failures)))
    evaluated = steps = 0
    for v, cases in all_cases.items():
        ev, st, bad, _, _ = H.run_model(run, v, cases, 'c09', per_file=max(8, len(cases) // 16))
        evaluated += ev
        steps += st
        H.report_disagreements(run, v, cases, bad)
    run.log('model side: %d histories / %d steps replayed, %d disagreements' % (evaluated, steps, len(run.disagreements)))
    run.finish({
        'evaluations': stats['mutations_checked'],
        'distinct_nontrivial': len(shapes),
        'rule': 'random histories (%d steps, both levels) of add / add_<child> / assignment by name, long name, positional '
                'path, index, list position (text, element, proxy copy, datatype object) / deletion by name, index, list '
                'position / remove on segments, fields and components; after every SUCCESSFUL mutation the children of '
                'the target (names and encodings, in order) are compared with the list the property sentence prescribes, '
                'and the encoding of the target with an independent structure-order encoder of that list; '
                'distinct_nontrivial = distinct (version, level, class of target, rule, number of children before)' % nsteps,
        'samples': samples,
        'traces_validated_against_impl': evaluated,
        'steps_validated_against_impl': steps,
        'input_distribution': stats,
        'versions': versions,
    }, assumptions=[
        'model scope: Segment -> Field -> Component -> SubComponent (Group / Message parents, i.e. the order of sibling '
        'SEGMENTS, are not modelled; the order of sibling fields / components / repetitions is)',
        'an element that is already listed somewhere and is added / assigned again is C10 matter (F8) and skipped here',
        'the independent encoder covers segments and fields / components of complex, base or absent datatype; varies '
        'fields are compared on their child lists only',
    ])


def check_step(run, g, v, lvl, stats, shapes, state):
    runner = H.run_message_history if isinstance(g, H.MsgGen) or getattr(g, 'message_level', False) else H.run_history

    def hook(impl, kk, op, phase, data):
        if phase == 'before':
            state['exp'] = Expect(impl, op)
            state['absent'] = None
            state['copy'] = copy_expectation(impl, op) if op[0] in ('setattr', 'setindex') else None
            state['nested'] = None
            if op[0] in ('setattr', 'setvaluechain') and 0 <= op[1] < len(impl.I) and isinstance(op[2], list) and \
                    len(op[2]) >= 2 and absent_link(impl.I[op[1]], op[2][:1]) is False:
                # a write BELOW an existing child, through its name: the children of x stay the same elements
                ids = [id(c) for c in impl.I[op[1]].children.list]
                if len(ids) == len(set(ids)):
                    state['nested'] = (ids, [c.name for c in impl.I[op[1]].children.list])
            if op[0] in ('setvaluechain', 'setattr') and 0 <= op[1] < len(impl.I) and isinstance(op[2], list):
                state['absent'] = absent_link(impl.I[op[1]], op[2] if op[0] == 'setvaluechain' else op[2][:-1])
            return
        stats['steps'] += 1
        msg_level = isinstance(g, H.MsgGen) or getattr(g, 'message_level', False)
        if op[0] == 'setvaluechain' and data[0] == 0 and state['absent'] and len(op[2]) == 1:
            # parent.child.value = text on an ABSENT child appends it with the assigned content: the result is
            # the one of the assignment by name, parent.child = text, in the same state
            other = runner(v, g.ops + [['setattr', op[1], op[2], ['t', op[3]]]])
            other = other[0] if isinstance(other, tuple) else other
            if getattr(other, 'last_code', 0) == 0 and op[1] < len(other.I):
                stats['value_vs_by_name'] = stats.get('value_vs_by_name', 0) + 1
                a, b = deep(impl.I[op[1]], impl.ec), deep(other.I[op[1]], other.ec)
                shapes.add((v, lvl, impl.I[op[1]].classname, 'value-through-proxy', len(op[2])))
                if a != b:
                    run.fail('value-differs-from-assignment', '%s.value = %r gives %r, the assignment by name %r'
                             % ('.'.join(op[2]), op[3][:60], a[1][:150], b[1][:150]),
                             rule='setvaluechain', target_class=impl.I[op[1]].classname, depth=len(op[2]),
                             child_class=getattr(descend(impl.I[op[1]], op[2]), 'classname', None),
                             target_custom_delimiters=custom_ec(impl.I[op[1]]),
                             custom_delimiters=bool(getattr(g, 'ecs', None)), version=v, level=lvl,
                             ops=g.ops + [op], step=kk)
                    return
        if data[0] == 0 and len(op) > 2 and isinstance(op[1], int) and 0 <= op[1] < len(impl.I) and \
                op[0] in ('setattr', 'setindex', 'delattr', 'delindex', 'read', 'readvalue', 'len', 'grab', 'setvaluechain',
                          'addhelper', 'removebyname'):
            nm0 = op[2][0] if isinstance(op[2], list) and op[2] else op[2]
            if malformed_position(impl.I[op[1]], nm0):
                stats['malformed_positions_accepted'] = stats.get('malformed_positions_accepted', 0) + 1
                run.fail('malformed-position-accepted', '%s on %r ended normally through the name %r, whose position is not a '
                         'plainly written number starting at 1' % (op[0], impl.I[op[1]], nm0),
                         rule=op[0], target_class=impl.I[op[1]].classname, version=v, level=lvl, ops=g.ops + [op], step=kk)
                return
        if isinstance(op[2] if len(op) > 2 else None, list) and op[2] and 0 <= op[1] < len(impl.I) and \
                malformed_position(impl.I[op[1]], op[2][0]):
            stats['malformed_positions_refused'] = stats.get('malformed_positions_refused', 0) + 1
        if state.get('nested') is not None and data[0] == 0:
            x = impl.I[op[1]]
            stats['nested_writes_checked'] = stats.get('nested_writes_checked', 0) + 1
            now = [id(c) for c in x.children.list]
            if now != state['nested'][0]:
                run.fail('list-edit-differs', 'a write below the existing child %s, through its name, changed the children of '
                         '%r: they were %r, they are %r' % (op[2][0], x, state['nested'][1], [c.name for c in x.children.list]),
                         rule='nested-write', target_class=x.classname, target_datatype=None, value_kind='text',
                         version=v, level=lvl, ops=g.ops + [op], step=kk)
                return
        cp = state.get('copy')
        if cp is not None and data[0] == 0 and msg_level:
            t = descend(impl.I[op[1]], op[2])
            if t is not None and op[0] == 'setattr':
                stats['proxy_copies_compared'] = stats.get('proxy_copies_compared', 0) + 1
                if cp[1]:
                    stats['proxy_copies_other_delimiters'] = stats.get('proxy_copies_other_delimiters', 0) + 1
                got = enc(t, None)
                if got != cp[0]:
                    run.fail('copy-differs-from-source', '%s = <%s of another element>: the copy encodes as %r, the source '
                             'written with the delimiters of the target as %r' % ('.'.join(op[2]), cp[2], got[:120], cp[0][:120]),
                             rule=op[0], depth=len(op[2]), delimiters_differ=cp[1], source_class=cp[2],
                             target_custom_delimiters=custom_ec(impl.I[op[1]]),
                             custom_delimiters=bool(getattr(g, 'ecs', None)), target_class=impl.I[op[1]].classname,
                             version=v, level=lvl, ops=g.ops + [op], step=kk)
                    return
        text = op[3] if op[0] == 'setvaluechain' else (op[3][1] if op[0] == 'setattr' and op[3][0] == 't' else None)
        if msg_level and op[0] in ('setvaluechain', 'setattr') and data[0] == 0 and text and 0 <= op[1] < len(impl.I):
            # the assigned text is the content of the addressed child: it encodes as that text (canonical texts)
            t = impl.I[op[1]]
            for n in op[2]:
                cn = canon(t, n)
                lst = t.children.indexes.get(cn, []) if cn else []
                t = lst[0] if lst else None
                if t is None:
                    break
            if t is not None and canonical_text(text, t.encoding_chars) and not op[2][-1].lower().startswith('msh') \
                    and roundtrips(text, t):
                stats['assigned_text_encoded'] = stats.get('assigned_text_encoded', 0) + 1
                got = enc(t, None)
                if got != text:
                    via = 'value-through-proxy' if op[0] == 'setvaluechain' else \
                        ('assignment-below-unattached-parent' if len(op[2]) >= 2 else 'assignment-by-name')
                    run.fail('assigned-text-not-encoded', '%s %s %r: the addressed child encodes as %r'
                             % ('.'.join(op[2]), '.value =' if op[0] == 'setvaluechain' else '=', text[:60], got[:120]),
                             rule=op[0], via=via, depth=len(op[2]), custom_delimiters=bool(getattr(g, 'ecs', None)),
                             child_class=t.classname, target_custom_delimiters=custom_ec(impl.I[op[1]]),
                             target_class=impl.I[op[1]].classname, version=v, level=lvl, ops=g.ops + [op], step=kk)
                    return
        if op[0] == 'setvaluechain':
            return
        ex = state['exp']
        if data[0] != 0 or ex.target is None:
            return
        x = ex.target
        after = listing(x, impl.ec)
        want, note = ex.expected(after)
        if want is None:
            return
        stats['mutations_checked'] += 1
        stats['by_rule'][ex.rule] = stats['by_rule'].get(ex.rule, 0) + 1
        shapes.add((v, lvl, x.classname, ex.rule, min(len(ex.before), 6)))
        got = [(nm, pl) for _, nm, pl in after]
        dtp = None if isinstance(x, (Segment, Group)) else x.datatype
        vk = {'t': 'text', 'e': 'element', 'p': 'proxy-copy', 'd': 'datatype-object'}.get(ex.rhs[0]) if ex.rhs else None
        if got != want:
            run.fail('list-edit-differs', '%s: children are %r, the reference model has %r' % (note, got[:8], want[:8]),
                     rule=ex.rule, target_class=x.classname, target_datatype=dtp, value_kind=vk, version=v, level=lvl,
                     ops=g.ops + [op], step=kk)
            return
        # the value that was assigned is the value that is encoded (copy by value, no loss)
        np_ = ex.new_payload(after)
        if np_ is not None and ex.rhs is not None:
            stats['copies_checked'] += 1
            rhs = ex.rhs
            if rhs[0] == 't' and PLAIN.match(rhs[1]) and np_[1] != rhs[1]:
                run.fail('value-lost', 'the assigned text %r is encoded as %r' % (rhs[1], np_[1]),
                         rule=ex.rule, target_class=x.classname, target_datatype=dtp, value_kind=vk, version=v, level=lvl,
                         ops=g.ops + [op], step=kk)
                return
        # the encoding is that of the plain list
        se = spec_encode(x, after, impl.ec)
        if se is not None:
            stats['encodings_compared'] += 1
            real = enc(x, impl.ec)
            if real != se:
                run.fail('encoding-differs', 'to_er7 is %r, the plain list encodes as %r' % (real[:200], se[:200]),
                         rule=ex.rule, target_class=x.classname, target_datatype=dtp, value_kind=vk, version=v, level=lvl,
                         ops=g.ops + [op], step=kk)
    g.run(hook)


def oracle_on_history(run, v, ops, lvl=None):
    class G(object):
        pass
    g = G()
    g.ops = []
    g.message_level = any(o[0] == 'newmsg' for o in ops)
    g.ecs = next((o[3] for o in ops if o[0] == 'newmsg' and len(o) > 3 and o[3]), None)
    runner = H.run_message_history if g.message_level else H.run_history
    stats = {'steps': 0, 'mutations_checked': 0, 'by_rule': {}, 'encodings_compared': 0, 'copies_checked': 0}

    def run_(hook):
        runner(v, ops, lambda impl, kk, op, ph, d: (g.ops.append(op) if ph == 'after' else None, hook(impl, kk, op, ph, d)))
    g.run = run_
    check_step(run, g, v, lvl, stats, set(), {})


def replay(run):
    r = json.load(open(run.replay))
    inp = r.get('input', {})
    ops = inp.get('ops')
    v = inp.get('version', '2.5')
    if ops and False:
        class G(object):
            pass
        g = G()
        g.ops = []
        runner = H.run_message_history if any(o[0] == 'newmsg' for o in ops) else H.run_history
        stats = {'steps': 0, 'mutations_checked': 0, 'by_rule': {}, 'encodings_compared': 0, 'copies_checked': 0}
        state = {}

        def run_(hook):
            runner(v, ops, lambda impl, kk, op, ph, d: (g.ops.append(op) if ph == 'after' else None, hook(impl, kk, op, ph, d)))
        g.run = run_
        check_step(run, g, v, inp.get('level'), stats, set(), state)
    if ops:
        oracle_on_history(run, v, ops, inp.get('level'))
    for f in run.failures:
        print('replayed failure:', f['kind'], f['what'])
    run.finish({'evaluations': len(ops or []), 'distinct_nontrivial': 1, 'rule': 'replay of one stored history',
                'samples': [inp]})


if __name__ == '__main__':
    from common import run_guarded
    run_guarded('C09', main)
