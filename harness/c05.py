"""C05 - STRICT accepts a subset of TOLERANT and enforces what validate() checks.

Oracle: whatever text is accepted under STRICT is accepted under TOLERANT with the same ER7 encoding
and the same validation report, and an element accepted by STRICT construction draws no validator
error other than a missing required child.  Inputs: in-structure segments and messages of all
versions with leaves drawn from valid / invalid / over-long literals per base datatype.
Correspondence: the Coq parser model at both levels on the same lines.  Obligations:
Properties/C05.v (when present).
"""
import os
import sys

sys.path.insert(0, os.path.dirname(__file__))
from common import Run, COQ, theorems_of
import segcorr as S
import hl7apy
from hl7apy.parser import parse_segment, parse_message
import c01

# valid, invalid and over-long literals per base datatype
POOL = {
    'DT': ['20200101', '2020', '20201301', 'x9', '2020010', '202002301'],
    'DTM': ['20200101', '202001011230', '20200101123059.1234+0100', '2020010112306', 'q', '20200101+1500'],
    'TM': ['1200', '120000', '2500', '12', '120000.12345', 'noon'],
    'NM': ['1', '15', '-3', 'abc', '1.5', '1' * 17, '+2'],
    'SI': ['1', '12', 'x', '12345', '-1'],
    'ST': ['abc', 'a\\F\\b', 'A B', 'X' * 210, 'X' * 199],
    'ID': ['A', 'Y'], 'IS': ['A', 'B' * 25, 'B' * 20], 'TN': ['555-1234', 'zz'], 'TX': ['text'],
    'FT': ['ft'], 'WD': ['w'], 'GTS': ['g'], 'SNM': ['s1'], 'CM': ['cm'],
}


def line(rng, lib, ec, sname=None, messy=False):
    saved = S.LEAF
    S.LEAF = POOL
    try:
        return S.gen_segment_line(rng, lib, ec, sname=sname, messy=messy)
    finally:
        S.LEAF = saved


def overfill_base_field(rng, lib, ec, text):
    """give one base-datatype field (or component) of the line a second component (subcomponent):
    more children than a base datatype admits - STRICT must refuse, TOLERANT re-types"""
    name = text[:3].upper()
    if name not in lib.SEGMENTS or not lib.SEGMENTS[name][1]:
        return text
    rows = lib.SEGMENTS[name][1]
    fields = text.split(ec['FIELD'])
    cand = [i for i in range(1, len(fields)) if i - 1 < len(rows) and fields[i] and ec['REPETITION'] not in fields[i]]
    rng.shuffle(cand)
    base = lib.get_base_datatypes()
    for i in cand:
        ref = rows[i - 1][1]
        if ref[0] == 'leaf' and ref[2] in base and ec['COMPONENT'] not in fields[i]:
            fields[i] = fields[i] + ec['COMPONENT'] + 'x'
            return ec['FIELD'].join(fields)
        if ref[0] == 'sequence' and ref[1] and ref[1][0][1][0] == 'leaf' and ec['SUBCOMPONENT'] not in fields[i]:
            comps = fields[i].split(ec['COMPONENT'])
            if comps[0]:
                comps[0] = comps[0] + ec['SUBCOMPONENT'] + 'y'
                fields[i] = ec['COMPONENT'].join(comps)
                return ec['FIELD'].join(fields)
    return text


def strict_api_refusals(run, rng, dist):
    """STRICT construction through the API: cardinality overflow, foreign/unknown children, datatype
    overrides and invalid or over-long base values must be refused; whatever is accepted must draw
    no validator error other than a missing required child."""
    from hl7apy.core import Segment, Field, Component, SubComponent
    from hl7apy.exceptions import HL7apyException
    for v in S.VERSIONS:
        lib = hl7apy.load_library(v)
        names = [s for s in sorted(lib.SEGMENTS) if S.ok_segment(lib, s) and s != 'MSH' and lib.SEGMENTS[s][1]]
        # one probe per base datatype of the version: a field of a base datatype takes ONE component under STRICT
        seen_dt = {}
        for sname in names:
            for r_ in lib.SEGMENTS[sname][1]:
                if r_[1][0] == 'leaf' and r_[1][2] in lib.get_base_datatypes() and r_[2][1] != 0 \
                        and r_[1][2] not in seen_dt:
                    seen_dt[r_[1][2]] = r_[0]
        for dt_, fname_ in sorted(seen_dt.items()):
            dist['api_probes'] = dist.get('api_probes', 0) + 1
            try:
                f_ = Field(fname_, version=v, validation_level=S.STRICT)
                f_.add(Component(datatype=dt_, version=v, validation_level=S.STRICT))
                f_.add(Component(datatype=dt_, version=v, validation_level=S.STRICT))
                run.fail('strict-admits-second-component-in-base-field', 'STRICT construction admits a second component '
                         'in a field of a base datatype', version=v, segment=fname_[:3], field=fname_, datatype=dt_)
            except (HL7apyException, ValueError):
                pass
            except Exception as ex:  # noqa
                run.fail('strict-api-crash', 'a STRICT API call raised a non-library exception', version=v,
                         segment=fname_[:3], field=fname_, what='second component', exc=repr(ex))
            # the same through text: STRICT parse of two components into that field must be refused
            try:
                from hl7apy.parser import parse_field
                parse_field('a^b', name=fname_, version=v, validation_level=S.STRICT,
                            encoding_chars=S.default_ec(v))
                run.fail('strict-admits-second-component-in-base-field', 'STRICT parse_field admits two components in a '
                         'field of a base datatype', version=v, segment=fname_[:3], field=fname_, datatype=dt_)
            except (HL7apyException, ValueError):
                pass
        # STRICT accepts a subset of TOLERANT at the constructor level too: the same call under both levels
        for (cls, nm, dt) in (('Component', 'VARIES_1', 'CE' if 'CE' in lib.DATATYPES_STRUCTS else None),
                              ('Component', 'CX_1', None), ('Component', None, 'ST'), ('SubComponent', 'HD_1', None),
                              ('Field', 'PID_3', None), ('Field', 'ZXX_1', None), ('Component', 'VARIES_2', 'ST')):
            if dt is None and nm == 'VARIES_1':
                continue
            klass = {'Component': Component, 'SubComponent': SubComponent, 'Field': Field}[cls]

            def build(level):
                kw = {'version': v, 'validation_level': level}
                if dt is not None:
                    kw['datatype'] = dt
                return klass(nm, **kw) if nm is not None else klass(**kw)
            try:
                build(S.STRICT)
            except Exception:  # noqa
                continue
            dist['api_probes'] = dist.get('api_probes', 0) + 1
            try:
                build(S.TOLERANT)
            except Exception as ex:  # noqa
                run.fail('strict-accepts-tolerant-rejects-api', 'a constructor call accepted under STRICT is rejected under '
                         'TOLERANT', version=v, cls=cls, name=nm, datatype=dt, exc=type(ex).__name__,
                         varies_name_with_complex_datatype=(nm is not None and nm.startswith('VARIES') and dt is not None
                                                            and dt not in lib.get_base_datatypes()))
        # a child of another validation level or version is refused whatever the attachment path
        other_v = '2.4' if v != '2.4' else '2.5'
        for what, mk in (('other-level', lambda cls, nm, **kw: cls(nm, version=v, validation_level=S.TOLERANT, **kw)),
                         ('other-version', lambda cls, nm, **kw: cls(nm, version=other_v, validation_level=S.STRICT, **kw))):
            def attach_ctor():
                seg = Segment('PID', version=v, validation_level=S.STRICT)
                mk(Field, 'PID_1', parent=seg)
                return seg

            def attach_parent_attr():
                seg = Segment('PID', version=v, validation_level=S.STRICT)
                f = mk(Field, 'PID_1')
                f.parent = seg
                return seg

            def attach_replace():
                seg = Segment('PID', version=v, validation_level=S.STRICT)
                seg.pid_1 = '1'
                seg.pid_1 = mk(Field, 'PID_1')
                return seg

            def attach_index():
                seg = Segment('PID', version=v, validation_level=S.STRICT)
                seg.pid_1 = '1'
                seg.children[0] = mk(Field, 'PID_1')
                return seg
            for route, thunk in (('constructor parent=', attach_ctor), ('child.parent =', attach_parent_attr),
                                 ('assignment over an existing child', attach_replace), ('children[i] =', attach_index)):
                dist['api_probes'] = dist.get('api_probes', 0) + 1
                try:
                    seg = thunk()
                except (HL7apyException, ValueError):
                    continue
                except Exception as ex:  # noqa
                    run.fail('strict-api-crash', 'a STRICT API call raised a non-library exception', version=v,
                             segment='PID', field='PID_1', what=route, exc=repr(ex))
                    continue
                bad = [c for c in seg.children if c.validation_level != seg.validation_level or c.version != seg.version]
                if bad:
                    run.fail('strict-admits-foreign-level-or-version', 'a STRICT element admitted a child of another '
                             'validation level or HL7 version', version=v, segment='PID', field='PID_1', route=route,
                             mismatch=what)
        for sname in rng.sample(names, 6):
            rows = lib.SEGMENTS[sname][1]
            row = rng.choice(rows)
            fname, fref, (mn, mx) = row[0], row[1], row[2]
            dist['api_probes'] = dist.get('api_probes', 0) + 1

            def accepted(what, thunk, must_refuse, **data):
                try:
                    thunk()
                    ok = True
                except (HL7apyException, ValueError):
                    ok = False
                except Exception as ex:  # noqa
                    run.fail('strict-api-crash', 'a STRICT API call raised a non-library exception', version=v,
                             segment=sname, field=fname, what=what, exc=repr(ex))
                    return None
                if ok and must_refuse:
                    run.fail('strict-admits-' + what, 'STRICT construction admits what it must refuse: ' + what,
                             version=v, segment=sname, field=fname, **data)
                return ok

            # datatype override on a known field / component
            for newdt in (None, 'ST' if fref[2] != 'ST' else 'NM'):
                def t(newdt=newdt):
                    f = Field(fname, version=v, validation_level=S.STRICT)
                    f.datatype = newdt
                if fref[2] not in (None, 'varies'):
                    accepted('datatype-override', t, True, new_datatype=newdt, old_datatype=fref[2])

            def ctor_override():
                Field(fname, datatype='ST' if fref[2] != 'ST' else 'NM', version=v, validation_level=S.STRICT)
            if fref[2] not in (None, 'varies'):
                accepted('datatype-override', ctor_override, True, new_datatype='ctor', old_datatype=fref[2])
            # cardinality overflow
            if mx not in (-1, 0):
                def over():
                    seg = Segment(sname, version=v, validation_level=S.STRICT)
                    for _ in range(mx + 1):
                        seg.add(Field(fname, version=v, validation_level=S.STRICT))
                accepted('cardinality-overflow', over, True, max=mx)
            # foreign and unknown children
            other = rng.choice([s for s in names if s != sname])

            def foreign():
                seg = Segment(sname, version=v, validation_level=S.STRICT)
                seg.add(Field(lib.SEGMENTS[other][1][0][0], version=v, validation_level=S.STRICT))
            accepted('foreign-child', foreign, True, foreign=lib.SEGMENTS[other][1][0][0])
            # a base-datatype field takes one component only (whatever the field's version)
            base_rows = [r for r in rows if r[1][0] == 'leaf' and r[1][2] in lib.get_base_datatypes()
                         and r[2][1] != 0]
            if base_rows:
                br = rng.choice(base_rows)

                def two_components():
                    f = Field(br[0], version=v, validation_level=S.STRICT)
                    f.value = 'a'
                    c = Component(datatype=br[1][2], version=v, validation_level=S.STRICT)
                    f.add(c)
                accepted('second-component-in-base-field', two_components, True, base_field=br[0], datatype=br[1][2])
            # the one unnamed field STRICT lets be constructed (datatype 'varies') is still an unknown child for a segment
            def unnamed_varies_field():
                seg = Segment(sname, version=v, validation_level=S.STRICT)
                seg.add(Field(datatype='varies', version=v, validation_level=S.STRICT))
            accepted('unknown-child', unnamed_varies_field, True, child='<unnamed Field of type varies>')
            # over-long / invalid base values
            def too_long(dt):
                try:
                    mxl = lib.get_base_datatypes()[dt]('x', validation_level=S.TOLERANT).max_length
                except Exception:  # noqa
                    return None
                return 'X' * (mxl + 1) if mxl is not None else None
            for dt, bad in (('ST', too_long('ST')), ('NM', 'abc'), ('DT', '20201301'), ('SI', '12345'),
                            ('IS', too_long('IS')), ('TN', 'ask for Mr. Smith 555-1234'), ('TN', 'n/a since 1998'),
                            ('TN', 'x 12'), ('ID', too_long('ID')), ('TX', too_long('TX'))):
                if dt in lib.get_base_datatypes() and bad is not None:
                    accepted('invalid-value', lambda dt=dt, bad=bad: SubComponent(datatype=dt, value=bad, version=v,
                             validation_level=S.STRICT), True, datatype=dt, value=bad[:20])


def value_history_probe(run, rng, dist):
    """What STRICT accepts is a function of (datatype, text), not of what was parsed before: the same digits arrive
    first for one date/time datatype and then for another (DT/DTM year or year-month vs TM hours-minutes), in both
    orders, with literals nobody has parsed yet in this process."""
    from hl7apy.factories import datatype_factory

    def obs(dt, lit, v, lvl):
        try:
            o = datatype_factory(dt, lit, v, lvl)
            return ('ok', type(o).__name__, o.to_er7())
        except Exception as ex:  # noqa
            return ('exc', type(ex).__name__)

    def tm_ok(lit):      # HH[MM[SS]]
        return len(lit) in (2, 4, 6) and int(lit[:2]) < 24 and all(int(lit[i:i + 2]) < 60 for i in range(2, len(lit), 2))

    def dt_ok(lit):      # YYYY[MM]
        return len(lit) == 4 or (len(lit) == 6 and 1 <= int(lit[4:]) <= 12)

    for v in ('2.3', '2.5', '2.7'):
        bdt = hl7apy.load_library(v).get_base_datatypes()
        for k in range(12):
            n = rng.choice((4, 6))
            lit = ''.join(rng.choice('0123456789') for _ in range(n))
            if lit[0] == '0':
                lit = '1' + lit[1:]
            if k % 3 == 0:      # hours 24..29: a year for DT, no time for TM
                lit = '2' + rng.choice('456789') + lit[2:]
            dates = [d for d in ('DT', 'DTM') if d in bdt]
            order = (dates + ['TM']) if k % 2 == 0 else (['TM'] + dates)
            for dt in order:
                dist['value_history_probes'] = dist.get('value_history_probes', 0) + 1
                want = tm_ok(lit) if dt == 'TM' else dt_ok(lit)
                got = obs(dt, lit, v, S.STRICT)
                if want and got != ('ok', dt, lit):
                    run.fail('strict-value-depends-on-history', 'a valid date/time literal is refused or re-written after the same '
                             'digits were parsed for another datatype', version=v, datatype=dt, value=lit, order=order,
                             observed=list(got), segment=None)
                elif not want and got[0] == 'ok':
                    run.fail('strict-admits-invalid-value', 'STRICT accepts an invalid date/time literal after the same digits '
                             'were parsed for another datatype', version=v, datatype=dt, value=lit, order=order,
                             observed=list(got), refusal='invalid-value', segment=None)


def datatype_object_probe(run, dist):
    """A base datatype OBJECT assigned as a value goes through the same STRICT gate as text: an object of another class, or
    one built under TOLERANT with an over-long value, is no valid value of the subcomponent's datatype."""
    from hl7apy.core import SubComponent
    from hl7apy.exceptions import HL7apyException
    for v in ('2.3', '2.5', '2.7'):
        bdt = hl7apy.load_library(v).get_base_datatypes()
        for dt, obj, why in (('NM', lambda: bdt['ST']('abc'), 'ST object into NM'),
                             ('SI', lambda: bdt['ST']('x' * 300, validation_level=S.TOLERANT), 'over-long TOLERANT ST object into SI'),
                             ('DT', lambda: bdt['NM'](3), 'NM object into DT')):
            if dt not in bdt:
                continue
            dist['datatype_object_probes'] = dist.get('datatype_object_probes', 0) + 1
            try:
                sc = SubComponent(datatype=dt, version=v, validation_level=S.STRICT)
                sc.value = obj()
                run.fail('strict-admits-invalid-value', 'STRICT construction admits what it must refuse: a datatype object that is no '
                         'value of the subcomponent\'s datatype', version=v, segment=None, field=None, datatype=dt,
                         via='datatype-object-of-another-class', value=why)
            except (HL7apyException, ValueError):
                pass
            except Exception as ex:  # noqa
                run.fail('strict-api-crash', 'a STRICT API call raised a non-library exception', version=v, segment=None, field=None,
                         what=why, exc=repr(ex))


def report(el):
    try:
        rep = el.validate(return_errors=True)
        return ('ok', sorted(str(e) for e in rep.errors), len(rep.warnings))
    except Exception as ex:  # noqa
        return ('exc', type(ex).__name__)


def only_missing_required(errors):
    return [e for e in errors if not e.startswith('Missing required child')]


def main(argv=None):
    run = Run('C05', argv)
    targets, obl = ['Oblig/WfAll.vo'], ['Oblig/WfAll.v']
    if os.path.exists(os.path.join(COQ, 'Properties', 'C05.v')):
        targets.append('Properties/C05.vo')
        obl.append('Properties/C05.v')
    ok = run.build(targets, gen=('params', 'tables'), obligation_files=obl)
    if ok and 'Properties/C05.v' in obl:
        run.print_assumptions('Properties.C05', [n for n, _ in theorems_of('Properties/C05.v')])
    rng = run.rng
    dist = {'segments': 0, 'strict_accepted': 0, 'strict_rejected': 0, 'messages': 0, 'messages_strict_accepted': 0}
    cases = []
    distinct = set()
    nlines = 100 if not run.thorough else 1200
    for v in S.VERSIONS:
        lib = hl7apy.load_library(v)
        ec = S.default_ec(v)
        corpus = ['QPD|a||q||beyond|b', 'Z0X|a'] if v == '2.5' else []     # witnesses of the recorded findings F14, F27 run first
        for it in range(nlines + len(corpus)):
            text = corpus[it] if it < len(corpus) else line(rng, lib, ec, messy=rng.random() < .3)
            if it >= len(corpus) and rng.random() < .25:
                text = overfill_base_field(rng, lib, ec, text)
            dist['segments'] += 1
            cs = S.case_of(text, v, S.STRICT, ec)
            ct = S.case_of(text, v, S.TOLERANT, ec)
            cases.append(cs)      # the segment model uses Model/LeafFull.v: datatype factories of C13 included
            cases.append(ct)
            if cs['code'] != 0:
                dist['strict_rejected'] += 1
                continue
            dist['strict_accepted'] += 1
            distinct.add((v, text[:3], text.count(ec['FIELD']), ec['COMPONENT'] in text))
            name = text[:3].upper()
            rows = lib.SEGMENTS[name][1] if name in lib.SEGMENTS else ()
            open_ended = bool(rows) and rows[-1][1][2] == 'varies'
            nfields = text.count(ec['FIELD'])
            beyond = open_ended and nfields > len(rows)
            if ct['code'] != 0:
                run.fail('strict-accepts-tolerant-rejects', 'text accepted under STRICT is rejected under TOLERANT',
                         version=v, text=text, tolerant_code=ct['code'])
                continue
            if cs['enc'] != ct['enc']:
                run.fail('strict-tolerant-encoding-differs', 'STRICT and TOLERANT parses of the same accepted text encode '
                         'differently', version=v, text=text, strict=cs['enc'], tolerant=ct['enc'], cls='Segment')
            rs, rt = report(cs['obj']), report(ct['obj'])
            if rs != rt:
                run.fail('strict-tolerant-report-differs', 'STRICT and TOLERANT parses of the same accepted text validate '
                         'differently', version=v, text=text, strict=str(rs)[:400], tolerant=str(rt)[:400])
            if rs[0] == 'ok':
                bad = only_missing_required(rs[1])
                if bad:
                    run.fail('strict-accepted-draws-validator-error', 'an element accepted by STRICT construction draws a '
                             'validator error other than a missing required child', version=v, text=text, errors=bad[:4],
                             open_ended_beyond_table=beyond, cls='Segment',
                             z_name_outside_field_regex=(name.startswith('Z') and __import__('re').match(
                                 r'^z[a-z1-9]{2}$', name, __import__('re').I) is None))
    strict_api_refusals(run, rng, dist)
    value_history_probe(run, rng, dist)
    datatype_object_probe(run, dist)
    run.log('segments: %s, %d failures' % (dist, len(run.failures)))
    # ---- messages
    nmsg = 10 if not run.thorough else 60
    for v in S.VERSIONS:
        lib = hl7apy.load_library(v)
        ec = S.default_ec(v)
        mnames = [m for m in sorted(lib.MESSAGES) if isinstance(lib.MESSAGES[m], tuple) and len(lib.MESSAGES[m]) == 2
                  and lib.MESSAGES[m][1] and '_' in m and not m.endswith('nn')]
        rng.shuffle(mnames)
        dupes = [m for m in ('ADT_A17', 'ADT_A24', 'ADT_A37') if m in lib.MESSAGES]
        for m in dupes[:2] + mnames[:nmsg]:
            try:
                names = c01.instance_names(lib.MESSAGES[m], 'all' if m in dupes else rng.choice(['req', 'all']))
            except Exception:  # noqa
                continue
            if not names or names[0] != 'MSH' or 'ANYHL7SEGMENT' in names or len(names) > 30:
                continue
            lines = [c01.msh_line(m, v)]
            good = True
            for sname in names[1:]:
                if not S.ok_segment(lib, sname) or not lib.SEGMENTS[sname][1]:
                    good = False
                    break
                # structures with duplicated child names: plain lines that STRICT accepts
                lines.append('%s|1' % sname if m in dupes else c01.canonical_line(rng, lib, ec, sname))
            if not good:
                continue
            # sometimes disturb the order / add a Z segment (F18 territory)
            disturbed = False
            if (rng.random() < .3 or m == mnames[0]) and len(lines) > 2 and m not in dupes:     # first structure of a version: always (F18)
                disturbed = True
                if rng.random() < .5:
                    lines.insert(rng.randint(1, len(lines)), 'ZZZ|1')
                else:
                    i = rng.randint(1, len(lines) - 2)
                    lines[i], lines[i + 1] = lines[i + 1], lines[i]
            text = '\r'.join(lines)
            for fg in (True, False):
                dist['messages'] += 1
                try:
                    ms = parse_message(text, validation_level=S.STRICT, find_groups=fg)
                except Exception:  # noqa
                    continue
                dist['messages_strict_accepted'] += 1
                try:
                    mt = parse_message(text, validation_level=S.TOLERANT, find_groups=fg)
                except Exception as ex:  # noqa
                    run.fail('strict-accepts-tolerant-rejects', 'message accepted under STRICT is rejected under TOLERANT',
                             version=v, text=text, tolerant_code=repr(ex))
                    continue
                rs0 = report(ms)
                if rs0[0] == 'ok':
                    bad = only_missing_required(rs0[1])
                    if bad:
                        run.fail('strict-accepted-draws-validator-error', 'a message accepted by STRICT parsing draws a '
                                 'validator error other than a missing required child', version=v, text=text,
                                 errors=bad[:4], open_ended_beyond_table=False, cls='Message', structure=m,
                                 find_groups=fg, z_name_outside_field_regex=False, disturbed=disturbed)
                es, et = ms.to_er7(), mt.to_er7()
                if es != et:
                    in_names = [l[:3] for l in text.split('\r')]
                    run.fail('strict-tolerant-encoding-differs', 'STRICT and TOLERANT parses of the same accepted message '
                             'encode differently', version=v, text=text, strict=es[:600], tolerant=et[:600], cls='Message',
                             structure=m, find_groups=fg,
                             strict_drops_or_reorders_segments=([l[:3] for l in es.split('\r')] != in_names))
                rs, rt = report(ms), report(mt)
                if rs != rt and es == et:
                    run.fail('strict-tolerant-report-differs', 'STRICT and TOLERANT parses of the same accepted message '
                             'validate differently', version=v, text=text, strict=str(rs)[:400], tolerant=str(rt)[:400])
    run.log('messages done: %d failures' % len(run.failures))
    evaluated = S.run_model(run, cases, 'c05', per_file=700)
    run.log('model evaluated %d parses (both levels), %d disagreements' % (evaluated, len(run.disagreements)))
    samples = [{'version': c['v'], 'level': c['lvl'], 'text': c['text'][:120], 'code': c['code']}
               for c in cases[:: max(1, len(cases) // 6)][:6]]
    run.finish({
        'evaluations': dist['segments'] * 2 + dist['messages'],
        'distinct_nontrivial': len(distinct),
        'rule': 'segment lines of every version with leaves from valid / invalid / over-long literal pools per base '
                'datatype (30% with surplus or blank content), parsed under both levels; messages = structure instances '
                '(30% with a swapped pair of segments or an inserted Z-segment) parsed under both levels and both group '
                'modes; distinct = distinct STRICT-accepted (version, segment, field count, has components)',
        'samples': samples,
        'traces_validated_against_impl': evaluated,
        'input_distribution': dist,
    }, assumptions=['histories of add/set/delete calls under both levels are exercised by the heap checks (C09-C12)',
                    'the model comparison skips STRICT rejections of DT/TM/DTM/NM/SI values (ValueError): C13\'s model'])


if __name__ == '__main__':
    from common import run_guarded
    run_guarded('C05', main)
