"""C05 - STRICT accepts a subset of TOLERANT and enforces what validate() checks.

Oracle: whatever text is accepted under STRICT is accepted under TOLERANT with the same ER7 encoding
and the same validation report, and an element accepted by STRICT construction draws no validator
error other than a missing required child.  Inputs: in-structure segments and messages of all
versions with leaves drawn from valid / invalid / over-long literals per base datatype.
Correspondence: the Coq parser model at both levels on the same lines.  Obligations:
Properties/C05.v (when present).
"""
import os
import sys

sys.path.insert(0, os.path.dirname(__file__))
from common import Run, COQ, theorems_of
import segcorr as S
import hl7apy
from hl7apy.parser import parse_segment, parse_message
import c01

# valid, invalid and over-long literals per base datatype
POOL = {
    'DT': ['20200101', '2020', '20201301', 'x9', '2020010', '202002301'],
    'DTM': ['20200101', '202001011230', '20200101123059.1234+0100', '2020010112306', 'q', '20200101+1500'],
    'TM': ['1200', '120000', '2500', '12', '120000.12345', 'noon'],
    'NM': ['1', '15', '-3', 'abc', '1.5', '1' * 17, '+2'],
    'SI': ['1', '12', 'x', '12345', '-1'],
    'ST': ['abc', 'a\\F\\b', 'A B', 'X' * 210, 'X' * 199],
    'ID': ['A', 'Y'], 'IS': ['A', 'B' * 25, 'B' * 20], 'TN': ['555-1234', 'zz'], 'TX': ['text'],
    'FT': ['ft'], 'WD': ['w'], 'GTS': ['g'], 'SNM': ['s1'], 'CM': ['cm'],
}


def line(rng, lib, ec, sname=None, messy=False):
    saved = S.LEAF
    S.LEAF = POOL
    try:
        return S.gen_segment_line(rng, lib, ec, sname=sname, messy=messy)
    finally:
        S.LEAF = saved


def report(el):
    try:
        rep = el.validate(return_errors=True)
        return ('ok', sorted(str(e) for e in rep.errors), len(rep.warnings))
    except Exception as ex:  # noqa
        return ('exc', type(ex).__name__)


def only_missing_required(errors):
    return [e for e in errors if not e.startswith('Missing required child')]


def main(argv=None):
    run = Run('C05', argv)
    targets, obl = ['Oblig/WfAll.vo'], ['Oblig/WfAll.v']
    if os.path.exists(os.path.join(COQ, 'Properties', 'C05.v')):
        targets.append('Properties/C05.vo')
        obl.append('Properties/C05.v')
    ok = run.build(targets, gen=('params', 'tables'), obligation_files=obl)
    if ok and 'Properties/C05.v' in obl:
        run.print_assumptions('Properties.C05', [n for n, _ in theorems_of('Properties/C05.v')])
    rng = run.rng
    dist = {'segments': 0, 'strict_accepted': 0, 'strict_rejected': 0, 'messages': 0, 'messages_strict_accepted': 0}
    cases = []
    distinct = set()
    nlines = 100 if not run.thorough else 1200
    for v in S.VERSIONS:
        lib = hl7apy.load_library(v)
        ec = S.default_ec(v)
        corpus = ['QPD|a||q||beyond|b'] if v == '2.5' else []     # witness of the recorded finding F14 runs first
        for it in range(nlines + len(corpus)):
            text = corpus[it] if it < len(corpus) else line(rng, lib, ec, messy=rng.random() < .3)
            dist['segments'] += 1
            cs = S.case_of(text, v, S.STRICT, ec)
            ct = S.case_of(text, v, S.TOLERANT, ec)
            # values the factory re-formats or length-checks as numbers are C13's model, not Model/Leaf.v's
            if '+2' not in text:
                if cs['code'] != 30 and '1' * 17 not in text and '12345' not in text:
                    cases.append(cs)
                cases.append(ct)
            if cs['code'] != 0:
                dist['strict_rejected'] += 1
                continue
            dist['strict_accepted'] += 1
            distinct.add((v, text[:3], text.count(ec['FIELD']), ec['COMPONENT'] in text))
            name = text[:3].upper()
            rows = lib.SEGMENTS[name][1] if name in lib.SEGMENTS else ()
            open_ended = bool(rows) and rows[-1][1][2] == 'varies'
            nfields = text.count(ec['FIELD'])
            beyond = open_ended and nfields > len(rows)
            if ct['code'] != 0:
                run.fail('strict-accepts-tolerant-rejects', 'text accepted under STRICT is rejected under TOLERANT',
                         version=v, text=text, tolerant_code=ct['code'])
                continue
            if cs['enc'] != ct['enc']:
                run.fail('strict-tolerant-encoding-differs', 'STRICT and TOLERANT parses of the same accepted text encode '
                         'differently', version=v, text=text, strict=cs['enc'], tolerant=ct['enc'], cls='Segment')
            rs, rt = report(cs['obj']), report(ct['obj'])
            if rs != rt:
                run.fail('strict-tolerant-report-differs', 'STRICT and TOLERANT parses of the same accepted text validate '
                         'differently', version=v, text=text, strict=str(rs)[:400], tolerant=str(rt)[:400])
            if rs[0] == 'ok':
                bad = only_missing_required(rs[1])
                if bad:
                    run.fail('strict-accepted-draws-validator-error', 'an element accepted by STRICT construction draws a '
                             'validator error other than a missing required child', version=v, text=text, errors=bad[:4],
                             open_ended_beyond_table=beyond, cls='Segment')
    run.log('segments: %s, %d failures' % (dist, len(run.failures)))
    # ---- messages
    nmsg = 10 if not run.thorough else 60
    for v in S.VERSIONS:
        lib = hl7apy.load_library(v)
        ec = S.default_ec(v)
        mnames = [m for m in sorted(lib.MESSAGES) if isinstance(lib.MESSAGES[m], tuple) and len(lib.MESSAGES[m]) == 2
                  and lib.MESSAGES[m][1] and '_' in m and not m.endswith('nn')]
        rng.shuffle(mnames)
        for m in mnames[:nmsg]:
            try:
                names = c01.instance_names(lib.MESSAGES[m], rng.choice(['req', 'all']))
            except Exception:  # noqa
                continue
            if not names or names[0] != 'MSH' or 'ANYHL7SEGMENT' in names or len(names) > 30:
                continue
            lines = [c01.msh_line(m, v)]
            good = True
            for sname in names[1:]:
                if not S.ok_segment(lib, sname) or not lib.SEGMENTS[sname][1]:
                    good = False
                    break
                lines.append(c01.canonical_line(rng, lib, ec, sname))
            if not good:
                continue
            # sometimes disturb the order / add a Z segment (F18 territory)
            disturbed = False
            if (rng.random() < .3 or m == mnames[0]) and len(lines) > 2:     # first structure of a version: always (F18)
                disturbed = True
                if rng.random() < .5:
                    lines.insert(rng.randint(1, len(lines)), 'ZZZ|1')
                else:
                    i = rng.randint(1, len(lines) - 2)
                    lines[i], lines[i + 1] = lines[i + 1], lines[i]
            text = '\r'.join(lines)
            for fg in (True, False):
                dist['messages'] += 1
                try:
                    ms = parse_message(text, validation_level=S.STRICT, find_groups=fg)
                except Exception:  # noqa
                    continue
                dist['messages_strict_accepted'] += 1
                try:
                    mt = parse_message(text, validation_level=S.TOLERANT, find_groups=fg)
                except Exception as ex:  # noqa
                    run.fail('strict-accepts-tolerant-rejects', 'message accepted under STRICT is rejected under TOLERANT',
                             version=v, text=text, tolerant_code=repr(ex))
                    continue
                es, et = ms.to_er7(), mt.to_er7()
                if es != et:
                    in_names = [l[:3] for l in text.split('\r')]
                    run.fail('strict-tolerant-encoding-differs', 'STRICT and TOLERANT parses of the same accepted message '
                             'encode differently', version=v, text=text, strict=es[:600], tolerant=et[:600], cls='Message',
                             structure=m, find_groups=fg,
                             strict_drops_or_reorders_segments=([l[:3] for l in es.split('\r')] != in_names))
                rs, rt = report(ms), report(mt)
                if rs != rt and es == et:
                    run.fail('strict-tolerant-report-differs', 'STRICT and TOLERANT parses of the same accepted message '
                             'validate differently', version=v, text=text, strict=str(rs)[:400], tolerant=str(rt)[:400])
    run.log('messages done: %d failures' % len(run.failures))
    evaluated = S.run_model(run, cases, 'c05', per_file=700)
    run.log('model evaluated %d parses (both levels), %d disagreements' % (evaluated, len(run.disagreements)))
    samples = [{'version': c['v'], 'level': c['lvl'], 'text': c['text'][:120], 'code': c['code']}
               for c in cases[:: max(1, len(cases) // 6)][:6]]
    run.finish({
        'evaluations': dist['segments'] * 2 + dist['messages'],
        'distinct_nontrivial': len(distinct),
        'rule': 'segment lines of every version with leaves from valid / invalid / over-long literal pools per base '
                'datatype (30% with surplus or blank content), parsed under both levels; messages = structure instances '
                '(30% with a swapped pair of segments or an inserted Z-segment) parsed under both levels and both group '
                'modes; distinct = distinct STRICT-accepted (version, segment, field count, has components)',
        'samples': samples,
        'traces_validated_against_impl': evaluated,
        'input_distribution': dist,
    }, assumptions=['histories of add/set/delete calls under both levels are exercised by the heap checks (C09-C12)',
                    'the model comparison skips STRICT rejections of DT/TM/DTM/NM/SI values (ValueError): C13\'s model'])


if __name__ == '__main__':
    from common import run_guarded
    run_guarded('C05', main)
