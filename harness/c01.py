"""C01 - ER7 parse -> encode is the identity on canonical messages.

Obligations: table well-formedness of every version (coq/Oblig/WfAll.v) and the round-trip theorems
of coq/Properties/C01.v about Model/Parser.v + Model/Encode.v.  Correspondence: the Coq model parses
and re-encodes the same segment lines as hl7apy (tree dump + encoding compared inside Coq).
Oracle: parse_x(text).to_er7() == text on canonical text, for parse_segment / parse_field /
parse_component and parse_message with group finding on and off.
"""
import os
import sys

sys.path.insert(0, os.path.dirname(__file__))
from common import Run, COQ, theorems_of
import segcorr as S
import hl7apy
from hl7apy.parser import parse_segment, parse_field, parse_component, parse_message

# canonical leaf pools: no leading/trailing blanks, escape characters only inside escape sequences,
# numeric leaves in plain decimal form, dates/times in HL7 form
CANON = {
    'DT': ['20200101', '2020', '202012'], 'DTM': ['20200101', '202001011230', '20200101123059', '2020'],
    'TM': ['1200', '120000', '12'], 'NM': ['1', '15', '-3', '1.5', '12.50', '150.00', '2.0', '0.5', '100'], 'SI': ['1', '12'],
    'ST': ['abc', 'a\\F\\b', 'A B', 'x\\H\\y\\N\\', 'X' * 210, 'it\\E\\s'], 'ID': ['A', 'Y'], 'IS': ['A', 'B' * 25],
    'TN': ['555-1234'], 'TX': ['text', 't\\E\\x'], 'FT': ['ft', 'f\\.br\\t'], 'WD': ['w'], 'GTS': ['g'],
    'SNM': ['s1'], 'CM': ['cm'],
}


def canonical_line(rng, lib, ec, sname=None):
    saved = S.LEAF
    S.LEAF = CANON
    try:
        return S.gen_segment_line(rng, lib, ec, sname=sname, messy=False)
    finally:
        S.LEAF = saved


def is_canonical_domain(text, ec):
    # '.' etc are fine; exclude accidental blanks-only results
    return text == text.strip() and '  ' not in text


def instance_names(ref, mode):
    out = []
    for row in ref[1]:
        name, cref, (mn, mx), kind = row
        n = 1 if (mode == 'all' or mn >= 1) else 0
        for _ in range(n):
            if kind == 'SEG':
                out.append(name)
            elif cref is not None:
                out.extend(instance_names(cref, mode))
    return out


def msh_line(mname, v):
    p = mname.split('_')
    mt = '%s^%s^%s' % (p[0], p[1] if len(p) > 1 else '', mname) if v >= '2.3.1' else '%s^%s' % (p[0], p[1] if len(p) > 1 else '')
    return 'MSH|^~\\&|A|B|C|D|20200101||%s|1|P|%s' % (mt, v)


def main(argv=None):
    run = Run('C01', argv)
    targets = ['Oblig/WfAll.vo']
    obl = ['Oblig/WfAll.v'] + ['Oblig/Wf_v%s.v' % v.replace('.', '_') for v in S.VERSIONS]
    if os.path.exists(os.path.join(COQ, 'Properties', 'C01.v')):
        targets.append('Properties/C01.vo')
        obl.append('Properties/C01.v')
    ok = run.build(targets, gen=('params', 'tables'), obligation_files=obl)
    if ok and 'Properties/C01.v' in obl:
        run.print_assumptions('Properties.C01', [n for n, _ in theorems_of('Properties/C01.v')])
    rng = run.rng
    cases = []
    dist = {'canonical_segments': 0, 'messy_segments': 0, 'fields': 0, 'components': 0, 'messages': 0}
    seen_shapes = set()
    n_seg = 60 if not run.thorough else 100000   # segments per version (thorough: all)
    n_lines = 3 if not run.thorough else 6
    versions = S.VERSIONS
    for v in versions:
        lib = hl7apy.load_library(v)
        ec = S.default_ec(v)
        names = [s for s in sorted(lib.SEGMENTS) if S.ok_segment(lib, s) and s != 'MSH']
        rng.shuffle(names)
        ec_default = ec
        # only the field separator differs from the default set (MSH-2 reads the same) and the leaves hold the
        # default separator as ordinary text: run after default-delimiter encodings of the same process
        ec2 = dict(ec_default)
        ec2['FIELD'] = '#'
        for text in ('ZXX#a|b#c|d', 'ZXX#x#|#y||z', 'ZXX#p^q|r#s'):
            if not is_canonical_domain(text, ec2):
                continue
            S.case_of('ZXX|a|b', v, S.TOLERANT, ec_default)
            c = S.case_of(text, v, S.TOLERANT, ec2)
            cases.append(c)
            dist['field_separator_only_segments'] = dist.get('field_separator_only_segments', 0) + 1
            if c['code'] != 0:
                run.fail('canonical-segment-rejected', 'parse_segment rejects a canonical segment line',
                         version=v, text=text, code=c['code'], encoding_chars=ec2)
            elif c['enc'] != text:
                run.fail('segment-roundtrip-differs', 'parse_segment(text).to_er7() != text on a canonical line',
                         version=v, text=text, output=c['enc'], segment=text[:3], encoding_chars=ec2,
                         nonstandard_escape=S.nonstandard_escape(text, ec2))
        for sname in names[:n_seg] + ['ZXX']:
            # a third of the segments are written with another set of delimiters, given explicitly to every call
            if rng.random() < 0.33:
                ec = dict(ec_default)
                ec.update({'FIELD': '!', 'COMPONENT': '@', 'SUBCOMPONENT': '$', 'REPETITION': '%'})
                dist['custom_delimiter_segments'] = dist.get('custom_delimiter_segments', 0) + 1
            else:
                ec = ec_default
            for _ in range(n_lines):
                text = canonical_line(rng, lib, ec, sname if sname != 'ZXX' else None)
                if not is_canonical_domain(text, ec):
                    continue
                c = S.case_of(text, v, S.TOLERANT, ec)
                cases.append(c)
                dist['canonical_segments'] += 1
                if c['code'] != 0:
                    run.fail('canonical-segment-rejected', 'parse_segment rejects a canonical segment line',
                             version=v, text=text, code=c['code'])
                elif c['enc'] != text:
                    run.fail('segment-roundtrip-differs', 'parse_segment(text).to_er7() != text on a canonical line',
                             version=v, text=text, output=c['enc'], segment=text[:3],
                             nonstandard_escape=S.nonstandard_escape(text, ec))
                nest = (ec['COMPONENT'] in text) + (ec['SUBCOMPONENT'] in text) + (ec['REPETITION'] in text)
                if nest >= 1:
                    seen_shapes.add((v, text[:3], nest, text.count(ec['FIELD'])))
                # field / component level on the pieces of this line
                fields = text.split(ec['FIELD'])[1:]
                for i, ftxt in enumerate(fields):
                    if not ftxt or ec['REPETITION'] in ftxt or rng.random() > 0.3:
                        continue
                    fname = '%s_%d' % (text[:3], i + 1)
                    if fname.upper() not in lib.FIELDS:
                        continue
                    dist['fields'] += 1
                    try:
                        out = parse_field(ftxt, name=fname, version=v, encoding_chars=ec,
                                          validation_level=S.TOLERANT).to_er7(ec)
                    except Exception as ex:  # noqa
                        out = 'EXC ' + repr(ex)
                    if out != ftxt:
                        run.fail('field-roundtrip-differs', 'parse_field(text).to_er7() != text', version=v,
                                 field=fname, text=ftxt, output=out,
                                 nonstandard_escape=S.nonstandard_escape(ftxt, ec))
                    fref = lib.FIELDS[fname.upper()]
                    if fref[0] == 'sequence':
                        for j, ctxt in enumerate(ftxt.split(ec['COMPONENT'])):
                            if not ctxt or j >= len(fref[1]):
                                continue
                            cname = fref[1][j][0]
                            dist['components'] += 1
                            try:
                                out = parse_component(ctxt, name=cname, datatype=fref[1][j][1][2], version=v,
                                                      encoding_chars=ec, validation_level=S.TOLERANT).to_er7(ec)
                            except Exception as ex:  # noqa
                                out = 'EXC ' + repr(ex)
                            if out != ctxt:
                                run.fail('component-roundtrip-differs', 'parse_component(text).to_er7() != text',
                                         version=v, component=cname, text=ctxt, output=out,
                                         nonstandard_escape=S.nonstandard_escape(ctxt, ec))
            # messy stream: fidelity of the model only
            for _ in range(1 if not run.thorough else 2):
                text = S.gen_segment_line(rng, lib, ec, sname if sname != 'ZXX' else None, messy=True)
                cases.append(S.case_of(text, v, S.TOLERANT, ec))
                dist['messy_segments'] += 1
        ec = ec_default
    run.log('segment level: %d cases, %d failures' % (len(cases), len(run.failures)))
    # ---- whole messages, both group modes
    nmsg = 12 if not run.thorough else 80
    for v in versions:
        lib = hl7apy.load_library(v)
        ec = S.default_ec(v)
        mnames = [m for m in sorted(lib.MESSAGES) if isinstance(lib.MESSAGES[m], tuple) and len(lib.MESSAGES[m]) == 2
                  and lib.MESSAGES[m][1] and '_' in m and not m.endswith('nn')]
        rng.shuffle(mnames)
        for m in mnames[:nmsg]:
            try:
                segs = instance_names(lib.MESSAGES[m], rng.choice(['req', 'all']))
            except Exception:  # noqa
                continue
            if not segs or segs[0] != 'MSH' or 'ANYHL7SEGMENT' in segs or len(segs) > 40:
                continue
            lines = [msh_line(m, v)]
            good = True
            for sname in segs[1:]:
                if not S.ok_segment(lib, sname) or not lib.SEGMENTS[sname][1]:
                    good = False
                    break
                lines.append(canonical_line(rng, lib, ec, sname))
            if not good:
                continue
            # Z-segments are legitimate content anywhere in a message
            if rng.random() < .4 and len(lines) > 2:
                for _z in range(rng.randint(1, 2)):
                    lines.insert(rng.randint(2, len(lines)), canonical_line(rng, lib, ec, None).replace(
                        'ZXX', 'Z%02d' % rng.randint(0, 99), 1) if False else 'Z%s|%s' % (
                        rng.choice(['PI', 'X1', 'ZZ']), S.gen_varies(rng, ec, False)))
                dist['messages_with_z_segments'] = dist.get('messages_with_z_segments', 0) + 1
            text = '\r'.join(lines)
            for fg in (True, False):
                dist['messages'] += 1
                try:
                    out = parse_message(text, validation_level=S.TOLERANT, find_groups=fg).to_er7()
                except Exception as ex:  # noqa
                    out = 'EXC ' + repr(ex)
                if out != text:
                    run.fail('message-roundtrip-differs', 'parse_message(text).to_er7() != text on a canonical message',
                             version=v, structure=m, find_groups=fg, text=text, output=out[:3000],
                             nonstandard_escape=S.nonstandard_escape(text.replace('MSH|^~\\&', 'MSH|'), ec))
    run.log('message level done: %d failures' % len(run.failures))
    # ---- fixed probes: canonical leaves that the datatype layer is known to re-format, batch/file headers
    n_probes = 0
    for v in versions:
        lib = hl7apy.load_library(v)
        first = {}
        for fname in sorted(lib.FIELDS):
            r = lib.FIELDS[fname]
            if r[0] == 'leaf' and r[2] in ('DT', 'DTM', 'NM') and r[2] not in first and fname[:3] in lib.SEGMENTS:
                first[r[2]] = fname
        probes = []
        for dt, lit, fam in (('DT', '09990101', 'year-below-1000'), ('DTM', '0999', 'year-below-1000'),
                             ('NM', '0.0000001', 'decimal-below-1e-6'), ('NM', '0.000001', None), ('DT', '10000101', None)):
            if dt in first:
                probes.append((first[dt], lit, fam))
        for fname, lit, fam in probes:
            n_probes += 1
            try:
                out = parse_field(lit, name=fname, version=v, validation_level=S.TOLERANT).to_er7()
            except Exception as ex:  # noqa
                out = repr(ex)
            if out != lit:
                run.fail('canonical-leaf-reformatted', 'a canonical leaf (plain decimal / HL7 date) does not encode back to its text',
                         version=v, field=fname, text=lit, output=out, family=fam)
        for seg in ('BHS', 'FHS'):
            if seg in lib.SEGMENTS and lib.SEGMENTS[seg][1]:
                n_probes += 1
                text = '%s|^~\\&|A' % seg
                try:
                    out = parse_segment(text, version=v, validation_level=S.TOLERANT).to_er7()
                except Exception as ex:  # noqa
                    out = repr(ex)
                if out != text:
                    run.fail('batch-header-roundtrip-differs', 'a batch/file header line does not encode back to its text',
                             version=v, segment=seg, text=text, output=out, field_2_is_the_delimiters=True)
    dist['fixed_probes'] = n_probes
    evaluated = S.run_model(run, cases, 'c01', per_file=600)
    run.log('model evaluated %d segment cases, %d disagreements' % (evaluated, len(run.disagreements)))
    samples = [{'version': c['v'], 'text': c['text'][:200], 'code': c['code'], 'enc': c['enc'][:200]}
               for c in cases[:: max(1, len(cases) // 6)][:6]]
    run.finish({
        'evaluations': len(cases) + dist['fields'] + dist['components'] + dist['messages'],
        'distinct_nontrivial': len(seen_shapes),
        'rule': 'segment lines generated from the regenerated tables of every version (segments drawn without '
                'replacement: %s per version), canonical stream judged by the oracle and messy stream (surplus '
                'fields/components, blanks, repeated non-repeatable fields, Z-segments) compared for model fidelity; '
                'non-trivial/distinct = distinct (version, segment, nesting depth, field count) with at least one '
                'component/subcomponent/repetition separator; messages = instances (required-only / all children) '
                'of message structures parsed with find_groups on and off' % ('all' if run.thorough else str(n_seg)),
        'samples': samples,
        'traces_validated_against_impl': evaluated,
        'input_distribution': dist,
    }, assumptions=[
        'model fidelity claimed for ASCII text and TOLERANT level in this check',
        'leaves of DT/TM/DTM/NM/SI fields are drawn from values the datatype factory keeps verbatim (C13 covers the rest)',
    ])


if __name__ == '__main__':
    from common import run_guarded
    run_guarded('C01', main)
