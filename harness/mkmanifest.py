"""Writes MANIFEST.json from the table below (kept in one place so it is always schema-valid)."""
import json
import os

ROOT = os.path.dirname(os.path.dirname(os.path.abspath(__file__)))

CHECKS = {
    'C06': {
        'text': 'Machine-checked (Coq 8.16.1) theorems about an executable Gallina model of '
                'TextualDataType._escape_value, for every string, every valid delimiter set and every class family: '
                'no delimiter survives (C06_no_delimiters/_no_truncation/_counts), escaping is idempotent '
                '(C06_idempotent), well-formed escaped text is a fixed point (C06_escaped_text_unchanged); the '
                '"every escape character belongs to a sequence" clause is refuted on the faithful model '
                '(C06_sequences_refuted = finding F4) and proved when the input has no escape character '
                '(C06_sequences_partial). The translation lists and regex letter classes are regenerated from /repo '
                'on every run and the parameter obligations re-checked by the kernel; model and all textual classes '
                'of all versions are run on the same ~40k cases (vm_compute inside coqc).',
        'design_ref': 'DESIGN.md section 7 C06, Appendix B',
        'note': 'Trusted: Coq kernel + vm_compute; translator harness/gen_params.py (probes the classes with sentinel '
                'characters); the correspondence harness; no axioms (Print Assumptions: closed under the global '
                'context). Modelled, not verified: _escape_value without highlights, ASCII text, punctuation delimiters.',
        'technique': 'Coq proof over a Gallina model of the escape routine + generated-parameter obligations + '
                     'vm_compute correspondence against every textual class',
    },
}

NOT_YET = {}


def main():
    props = [json.loads(l)['id'] for l in open(os.path.join(ROOT, 'properties.jsonl'))]
    checks = []
    na = []
    for p in props:
        if p in CHECKS:
            c = CHECKS[p]
            checks.append({
                'property_id': p,
                'quick_cmd': 'bin/check %s --tier quick' % p,
                'thorough_cmd': 'bin/check %s --tier thorough' % p,
                'evidence_file': 'evidence/%s.json' % p,
                'replay_cmd_template': 'bin/check %s --replay {path}' % p,
                'engine': 'coq-model',
                'level_claimed': {'category': 'proof', 'text': c['text'], 'design_ref': c['design_ref']},
                'level_note': c['note'],
                'technique': c['technique'],
            })
        else:
            na.append({'property_id': p, 'reason': NOT_YET.get(
                p, 'not claimed in this snapshot: the Coq model, theorems and correspondence check for this property '
                   'are not built yet (DESIGN.md section 9 gives the build order); nothing is asserted about it')})
    m = {
        'version': 1,
        'setup_cmd': 'bin/setup',
        'hooks': {
            'guard': 'HL7APY_VERIF',
            'enable': 'no source hooks are needed: every observation is made through the public API, '
                      'sys.settrace or loopback sockets; checks run /repo as it is (PYTHONPATH=/repo)',
            'baseline_off_cmd': 'cd /repo && /venv/bin/python -m pytest -ra -q -p no:cacheprovider --timeout=900 '
                                '--continue-on-collection-errors',
            'source_commits': [],
            'add_only': True,
        },
        'engines': [{
            'name': 'coq-model', 'path': 'coq/',
            'serves_properties': sorted(CHECKS),
            'kind_free_text': 'Coq 8.16.1 development: generated tables/constants (coq/Gen, regenerated from /repo '
                              'each run), hand-written executable Gallina model (coq/Model), lemmas (coq/Proofs), '
                              'property theorems (coq/Properties); harness/*.py runs model (vm_compute) and '
                              'implementation on the same inputs',
        }],
        'checks': checks,
        'not_applicable': na,
        'notes': 'bin/check <ID> regenerates coq/Gen from /repo, rebuilds the property\'s Coq targets, runs the '
                 'model/implementation correspondence and the implementation-side oracle, classifies failures against '
                 'known_findings.json and writes evidence/<ID>.json.',
    }
    with open(os.path.join(ROOT, 'MANIFEST.json'), 'w') as f:
        json.dump(m, f, indent=1)
    print('MANIFEST.json: %d checks, %d not claimed' % (len(checks), len(na)))


if __name__ == '__main__':
    main()
