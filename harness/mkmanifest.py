"""Writes MANIFEST.json from the table below (kept in one place so it is always schema-valid)."""
import json
import os

ROOT = os.path.dirname(os.path.dirname(os.path.abspath(__file__)))

CHECKS = {
    'C06': {
        'text': 'Machine-checked (Coq 8.16.1) theorems about an executable Gallina model of '
                'TextualDataType._escape_value, for every string, every valid delimiter set and every class family: '
                'no delimiter survives (C06_no_delimiters/_no_truncation/_counts), escaping is idempotent '
                '(C06_idempotent), well-formed escaped text is a fixed point (C06_escaped_text_unchanged); the '
                '"every escape character belongs to a sequence" clause is refuted on the faithful model '
                '(C06_sequences_refuted = finding F4) and proved when the input has no escape character '
                '(C06_sequences_partial). The translation lists and regex letter classes are regenerated from /repo '
                'on every run and the parameter obligations re-checked by the kernel; model and all textual classes '
                'of all versions are run on the same ~40k cases (vm_compute inside coqc).',
        'design_ref': 'DESIGN.md section 7 C06, Appendix B',
        'note': 'Trusted: Coq kernel + vm_compute; translator harness/gen_params.py (probes the classes with sentinel '
                'characters); the correspondence harness; no axioms (Print Assumptions: closed under the global '
                'context). Modelled, not verified: _escape_value without highlights, ASCII text, punctuation delimiters.',
        'technique': 'Coq proof over a Gallina model of the escape routine + generated-parameter obligations + '
                     'vm_compute correspondence against every textual class',
    },
    'C01': {
        'text': 'Proof. For every shipped version, every valid delimiter set and unbounded inputs: parse_segment -> to_er7 is the identity on every canonical line of every table segment, of Z-segments and of MSH (C01_segment, C01_segment_text, C01_segment_Z, C01_segment_MSH), parse_field / parse_component likewise (C01_field, C01_component), and whole messages with group finding off and on (C01_message_flat, C01_message_groups, via C08_same_encoding); built on a generic one-level codec lemma (C01_level) and split/join inverses, and on kernel-checked table obligations for all 12 regenerated versions (Oblig/Wf_v*, seg_tables_ok). The model (Model/Parser.v, Encode.v, Message.v) is run by vm_compute on the same generated lines as hl7apy (tree dump + encoding compared inside Coq); the oracle checks the identity on canonical segments, fields, components and messages (with Z-segments) of every version.',
        'design_ref': 'DESIGN.md section 0.6 and section 7 C01',
        'note': 'Trusted: Coq kernel + vm_compute; translators gen_tables.py/gen_params.py; harness segcorr.py/c01.py. No axioms. Theorems are for TOLERANT level, ASCII, the leaf function Model/Leaf.v (textual leaves exact; leaf hypotheses are discharged for escape fixed points); the message theorems assume the Message constructor accepts the header, and C01_message_groups is conditional on the grouped parse succeeding (acceptance by the group search is C08) and excludes v2.1 (inline group rows). Recorded finding F21 (escape sequences other than HNFSTRE(L)).',
        'technique': 'Coq round-trip proofs over a model of the parser/encoder + exhaustive table obligations by vm_compute + model/implementation differential',
    },
    'C07': {
        'text': 'Proof (Coq): for every valid delimiter set and version, Message._set_encoding_chars/_get_encoding_chars '
                'round-trip with TRUNCATION kept exactly from v2.7 (C07_get_set, C07_truncation_iff), the header spells '
                'the set (C07_header), split_msh of the rendered header recovers it (C07_reparse), descendants inherit '
                '(C07_inherit), missing/duplicated characters are rejected (C07_invalid_rejected), to_mllp framing '
                '(C07_mllp); model in Model/MsgEc.v + Model/Header.v run against hl7apy on random delimiter sets of all '
                'versions. The identically-encoding-tree clause is decided by the oracle.',
        'design_ref': 'DESIGN.md section 7 C07',
        'note': 'Trusted: Coq kernel + vm_compute, gen_params.py, harness c07.py/headercorr.py. No axioms. "." is '
                'excluded as a delimiter (the version string contains it); single-character delimiters; ASCII.',
        'technique': 'Coq proof over a model of the encoding-character setter/getter and header splitter + differential '
                     'run on random delimiter sets',
    },
    'C15': {
        'text': 'Proof. For ALL strings: the header functions end in Ok / ParserError / InvalidEncodingChars (C15_header_total ...); for every text, every shipped version, both levels, every delimiter set: parse_segment is Ok or an HL7 exception - never IndexError/KeyError/TypeError/AttributeError, ValueError only under STRICT from the leaf (C15_parse_segment_no_crash, _any_leaf, _full_leaf with the C13 datatype layer), every parsed segment encodes (C15_enc_segment_total), parse_field/parse_component likewise, parse_message with group finding off and on (C15_parse_message_no_crash), every parsed message encodes and its message-level validation returns a report (C15_enc_message_total, C15_validate_message_total, C15_parsed_message_encodes_and_validates); Python partial operations are explicit Crash outcomes in the model and are shown unreachable from invariants over well-formed tables (kernel-checked for the 12 versions). The real parse_message / to_er7 / validate are exercised by the oracle on byte-level mutants of valid messages of every version, instances of every structure that holds a choice group, numeric special values and junk.',
        'design_ref': 'DESIGN.md section 0.6 and section 7 C15',
        'note': 'Trusted: Coq kernel + vm_compute; translators; harness c15.py/headercorr.py. No axioms. ASCII domain. The message-level theorems are about the model of parse_message/validate (Model/Message.v, Validate.v), tied to the code by the C08/C04 correspondences and the header correspondence here.',
        'technique': 'Coq unreachability proof of crash outcomes in the parser/encoder model + outcome-class differential + crash oracle on mutants',
    },
    'C16': {
        'text': 'Proof (Coq) about a per-connection Gallina model of the MLLP server (Model/Mllp.v): to_mllp framing '
                '(C16_frame), the reader\'s result depends only on the concatenation of the TCP chunks and not on the '
                'size of the first recv (C16_chunking, unbounded), extraction returns exactly the framed ER7 text iff the '
                'payload has no empty line (C16_extract), exactly one correctly routed handler call and reply '
                '(C16_route_one/_unsupported/_invalid/_at_most_one), rejection of malformed/truncated/undecodable input '
                '(C16_reject_*). The model is compared with a live MLLPServer on thousands of connections (all 1-2-cut '
                'splittings of short frames, random splits, 1..32 simultaneous clients). Client isolation, time-outs and '
                'kernel buffering are observed, not proved.',
        'design_ref': 'DESIGN.md section 7 C16',
        'note': 'Trusted: Coq kernel + vm_compute; gen_params.py (MLLP bytes); loopback-socket harness c16.py. No axioms. '
                'Modelled: ASCII streams, abstract handlers; EOF and time-out not distinguished. Partial for the '
                'schedule/concurrency half (stress observation only).',
        'technique': 'Coq proof over a byte-fed state-machine model of the MLLP reader/router + differential against a live '
                     'server',
    },
    'C02': {
        'text': 'Proof. For every shipped version, every table segment (except the wildcard), every valid delimiter set: a leaf at field position i encodes as name + i separators + value, parses to exactly one child <SEG>_i holding it, and re-encodes to that line (C02_field_position, _varies, _untyped: every position of every version, none excluded); component j / subcomponent k likewise (C02_component_position, C02_subcomponent_position); Z-segments and varies-last segments for EVERY index i (C02_open_ended_Z, C02_open_ended_varies, unbounded). The per-row premises are kernel-checked over all ~35,000 regenerated table rows (Oblig/Wf_v*.v, seg_tables_ok). The implementation is swept exhaustively (23k field, 10k component/subcomponent positions, 29k instantiations, open-ended indices, multi-position assignment orders) and the model re-parses the position texts.',
        'design_ref': 'DESIGN.md section 0.6 and section 7 C02',
        'note': 'Trusted: Coq kernel + vm_compute (vm_cast_no_check only to avoid double evaluation; the kernel checks the cast); translator gen_tables.py; harness c02.py. No axioms. "Assigning by name" through the API is exercised on the implementation (and by the heap model of C09-C12); the theorems speak about parsing/encoding the position text. MSH positions: round trip proved (C01_segment_MSH), single-child form not stated.',
        'technique': 'Coq position theorems over the parser/encoder model + exhaustive per-row obligations by vm_compute + exhaustive implementation sweep',
    },
    'C03': {
        'text': 'Proof at segment level, for EVERY accepted line (non-canonical included: surplus fields/components/subcomponents, blank pieces, repeated non-repeatable fields): the tree holds exactly the non-blank leaf texts of the line in order (C03_segment_keeps_leaves, _all_fields), and the encoder emits every held leaf in order (C03_encoder_emits_all_leaves, C03_segment_leaves_preserved, _Z) - together leaves(encode(parse(line))) = encoded leaves(line); flattening the grouped forest gives the input segment order (C08_order). The oracle checks segment sequence and per-segment leaves on messages with foreign, Z and repeated segments in both group modes, all versions.',
        'design_ref': 'DESIGN.md section 0.6 and section 7 C03',
        'note': 'Trusted: Coq kernel + vm_compute; translators; harness c03.py/segcorr.py. No axioms. TOLERANT; the encoder theorem excludes MSH lines and is conditional on the output containing no CR; message-level no-drop rests on C08_order + C15 (flat) and the oracle.',
        'technique': 'Coq proof of leaf preservation through parser and encoder models + model differential + message oracle',
    },
    'C17': {
        'text': 'Proof (Coq), structural: in the model every entry point takes the configuration of process-wide defaults '
                'explicitly and consults it exactly where the code calls get_default_*; with explicit version, level and '
                'delimiters the result is independent of the configuration (C17_*_independent), an omitted argument does '
                'read it (C17_omitted_argument_reads_default), and set_default_* is a function on configurations that '
                'cannot touch existing elements. Derived-from-text clause: for every text whose header states a version, parse_message (tree, encoding, validation report) is the same under any two default configurations (C17_parse_message_independent, _any_stated_version), the defaults are read only where the header is silent (C17_parse_message_version_source, witnesses _default_version_used/_default_level_used), the parsed message and all descendants encode with the delimiters found in the text (C17_message_elements_encode_with_own_delimiters), datatype_factory uses the default level exactly when none is given (C17_datatype_factory). That the CODE forwards explicit arguments at every call site is checked '
                'by running a corpus of explicit calls under 30 (thorough: 72) default configurations and by comparing '
                'the configuration-free model with hl7apy running under hostile defaults.',
        'design_ref': 'DESIGN.md section 7 C17',
        'note': 'Trusted: Coq kernel + vm_compute; translators; harness c17.py. No axioms. The segment-level independence theorems are '
                'true by construction of the model, the message-level ones are not; the tie to the code is the differential under non-default '
                'configurations. A parentless element encoded or assigned text WITHOUT explicit delimiters reads the '
                'current default by design (documented, not flagged).',
        'technique': 'Coq model with explicit configuration + independence theorems + differential under many default '
                     'configurations',
    },
    'C18': {
        'text': 'Proof with one refuted clause. For every reference (standard entry or profile), text, delimiter set and level: the '
                'Segment structure is the given reference\'s (C18_segment_structure_from_reference), every Field the '
                'parser creates receives the sub-reference of its parent\'s reference and takes datatype and structure '
                'from it (C18_fields_take_parent_subreference, C18_field_structure_from_reference), restating the '
                'standard entry is a no-op (C18_restating_noop). Profiles synthesised from every version\'s segments '
                '(1-3 constraint edits) run through hl7apy and, as inline references, through the Coq model (trees '
                'compared); the oracle checks datatype read-back, profile-driven validate() verdicts, restating, '
                'MessageProfileNotFound/LegacyMessageProfile and message-level one-edit profiles. Message level (Model/MessageProf.v): no profile = the unprofiled parse (C18_message_no_profile), a profile lacking the structure - the empty one included - gives MessageProfileNotFound, a legacy entry LegacyMessageProfile (parse and constructor), a restating profile is a no-op, the message carries the profile reference, every group/segment of a grouped parse takes the sub-reference its parent declares (C18_grouped_nodes_take_profile_subreference under the decidable profile_groups_ok), validate() reads the profile only through the carried reference (C18_validate_judges_against_profile); with find_groups=False the clause is refuted (F43, C18_flat_nodes_take_profile_subreference_refuted). 1200 message-level cases per quick run go through the model.',
        'design_ref': 'DESIGN.md section 7 C18',
        'note': 'Trusted: Coq kernel + vm_compute; translators; harness c18.py/segcorr.py. No axioms. Creation through '
                'traversal/add_* helpers and the validator\'s use of the profile are covered by the oracle here and by '
                'the heap / validator models elsewhere.',
        'technique': 'Coq proof that the parser model threads the given reference + differential on synthesised profiles',
    },
    'C05': {
        'text': 'Proof at parse level: for every text, delimiter set, reference and any pair of leaf functions related STRICT=>TOLERANT: parse_segment STRICT = Ok s implies parse_segment TOLERANT = Ok s (the SAME tree), hence identical ER7 (C05_parse_segment_subset, _same_er7, field/component versions under exact side conditions; also for the full datatype layer: C05_parse_segment_subset_full_leaf); every STRICT-only branch of the acceptance checks only refuses (C05_acceptance_subset_*). The unrestricted constructor statement is refuted (C05_component_ctor_subset_refuted = F26). The "STRICT-accepted => only missing-required validator errors" clause and messages are decided by the both-levels model differential and the oracle (STRICT API refusal catalogue, per-base-datatype probes; known findings F14, F18).',
        'design_ref': 'DESIGN.md section 0.6 and section 7 C05',
        'note': 'Trusted: Coq kernel + vm_compute; translators; harness c05.py. No axioms. Histories of API calls under both levels are exercised by the heap checks; the validator-enforcement clause is oracle-only.',
        'technique': 'Coq simulation proof STRICT => TOLERANT over the parser model + both-levels differential + STRICT refusal oracle',
    },
    'C13': {
        'text': 'Partial proof (45 theorems). An implementation-shaped Gallina model of the DT/TM/DTM/NM/SI factories '
                '(length-based format choice, offset regex + str.replace, CPython strptime alternatives incl. the '
                'space-padded day, Decimal/int fragments, max length, STRICT raise vs TOLERANT fallback) and independent '
                'specification recognisers from the HL7 grammar. For DT, TM and DTM the acceptance set is characterised '
                'EXACTLY for all strings (accepts = spec || explicitly defined defect family: C13_accept_*_partial), the '
                'full statements are refuted with computed witnesses (F10), round trips are proved (C13_roundtrip_*), '
                'TOLERANT totality and verbatim fallback (C13_tolerant_total/_verbatim), max length (C13_maxlength), numerics encode to the same number (C13_NM_reparse_exact: printing then re-parsing an accepted NM gives the same decimal record; C13_NM_same_number, C13_SI_same_number); '
                'offset grid, formats and length limits are regenerated from /repo each run. 1.25M factory evaluations '
                '(exhaustive strings to length 5, time/offset/calendar grids) are judged by the oracle and sampled '
                'against the Coq model.',
        'design_ref': 'DESIGN.md section 7 C13',
        'note': 'Trusted: Coq kernel + vm_compute; gen_params.py; harness c13.py. No axioms. Model domain: ASCII, NM '
                'exponents <= 18 digits. Not proved: "same number" for every conforming NM (oracle checks it with '
                'Fraction). Recorded findings: F10 families, F22 (non-ASCII digits).',
        'technique': 'Coq proof of exact acceptance sets over an implementation-shaped datatype model + exhaustive '
                     'short-string/grid differential',
    },
    'C19': {
        'text': 'Partial proof. Threads as lists of atomic dict/import actions over a store of shared and thread-local '
                'maps (Model/Sched.v); C19_noninterference: for ALL programs and ALL schedules, if no action writes a map '
                'another thread can reach (decidable premise) every thread observes exactly its solo results; the action '
                'lists of datatype_factory / load_library / Group.__init__ / _escape_value satisfy the premise '
                '(C19_factory_ok, C19_calls_ok); with Alias in place of Copy (the pre-1.3.5 shape) a computed 2-thread '
                'schedule gives a wrong result (C19_alias_refuted). The action lists are not asserted: they are extracted '
                'from the running code with instrumented dicts/importlib and compared inside Coq; shared-object '
                'fingerprints, identity facts at touch points, cold/warm stress rounds and ~930 forced-schedule '
                'experiments compare every concurrent result with its solo result.',
        'design_ref': 'DESIGN.md section 7 C19',
        'note': 'Trusted: Coq kernel + vm_compute; harness c19.py (instrumentation via sys.setprofile / dict subclasses, '
                'forked solo runs). No axioms. The model cannot exhibit bytecode-level interleaving, the import lock or '
                'CPython dict internals: that half is observed (sampled), not proved.',
        'technique': 'Coq non-interference proof over extracted action lists + traced touch points, fingerprints, forced '
                     'schedules and stress differential',
    },
    'C04': {
        'text': 'Proof (17 obligations, all full). A Gallina transliteration of the validator over the segment/field/'
                'component/subcomponent and message/group trees with structured errors; a declarative `conforms` predicate; '
                'C04_sound_complete(_reference,_message): for every tree and every reference in the decidable domain `linked`, '
                'validate_errors = [] <-> conforms; corollaries producing the NAMED error for a missing required child, an '
                'exceeded maximum, a foreign child and an unknown element at both levels; C04_wrapper (is_valid iff no '
                'errors, raising form raises the first error, report = errors then warnings); the duplicate-bounded-name '
                'structures are refuted with a computed witness (F15). The model is compared with hl7apy on conforming '
                'instances and single-point mutations (structured error multisets, inside Coq); the oracle additionally '
                'checks purity, determinism and the three calling conventions on the real objects.',
        'design_ref': 'DESIGN.md section 7 C04',
        'note': 'Trusted: Coq kernel + vm_compute; translators; harness c04.py. No axioms. Modelled: ASCII, TOLERANT trees, '
                'sequence-shaped references; table-compliance warnings are not modelled (length warnings compared as a '
                'count); purity is a property of the real object graph and is observed, not proved.',
        'technique': 'Coq soundness/completeness proof of a validator model against a declarative conformance predicate + '
                     'structured-error differential + mutation oracle',
    },
    'C08': {
        'text': 'Proof (62 obligations). Gallina model of _get_segment_reference and the find_groups loop (Model/Groups.v) and '
                'of parse_message / Group+Message encoding (Model/Message.v). For ALL segment sequences and ALL structures: '
                'flattening the forest gives the input in order (C08_order), grouped and flat parses encode identically '
                '(C08_same_encoding*), every group/placed segment is a declared child of its parent (C08_sound*), unplaced '
                'segments are exactly those the search does not find (C08_unplaced), no empty group; per version a '
                'kernel-checked sweep over every unique-place structure x {required-only, all-children, repeat-2} that the '
                'search returns the prescribed forest, with the failing structures explicit in the statement '
                '(MFN_M10 in v2.3 = F6, OPR_O38 in v2.6 = F23, refuted witness included). Forest dumps of the model and of '
                'hl7apy are compared inside Coq on all structure instances, made-up structures and whole messages.',
        'design_ref': 'DESIGN.md section 7 C08',
        'note': 'Trusted: Coq kernel + vm_compute; translator gen_tables.py; harness c08.py. No axioms. ASCII, standard '
                'tables, no profiles in the message model. "Prescribed forest" is bounded-exhaustive (three instance families '
                'per structure), stated as such; the validate() clause is checked by the oracle.',
        'technique': 'Coq invariant proofs over the group-search fold + per-version exhaustive vm_compute sweep + forest '
                     'differential',
    },
    'C09': {
        'text': 'Partial proof. Function-heap model of the mutable element tree (Model/Heap.v: ElementList append/insert/set/'
                'remove/replace_child/create_element/_can_add_child with re-entrancy, parent/traversal_parent setters, class-'
                'specific add, effects before a raise persist) and an abstract "ordered list of repetitions per child name" '
                'specification (Model/HeapSpec.v). C09_refines: add / remove / replace refine the list edits, lifted to all '
                'histories by induction; C09_refines_indexed (set / remove by index, negative indexes included, refine replace-in-place / remove of repetition len+k); C09_order_stable; C09_encoding (encoding is a function of the abstraction); F19/F20 '
                'refuted with computed witnesses. Model and hl7apy replay the same operation histories; the full state dump '
                'of every live handle is compared after EVERY step inside Coq; the oracle compares the encoding with the '
                'plain list model after every step.',
        'design_ref': 'DESIGN.md section 7 C09',
        'note': 'Trusted: Coq kernel + vm_compute; translators; harness heapcorr.py. No axioms. Scope: Segment->Field->'
                'Component->SubComponent parents, one version per history; Group/Message parents are exercised by the oracle '
                'only. The refinement is stated for Element.add / replace_child / remove, not for whole operations with '
                'lazily created targets.',
        'technique': 'Coq refinement proof of a heap model to an ordered-list specification + step-by-step state-dump '
                     'differential on operation histories',
    },
    'C10': {
        'text': 'Partial proof (190 obligations). Invariant RInv over function heaps: listed => parent pointer, listed by one '
                'parent once, by-name indexes = list grouped by name in order, traversal children unlisted with no parent, '
                'version/level constant along parent edges. C10_init; C10_step_partial: RInv is preserved by EVERY operation '
                '(successful or rejected) when element arguments are detached (op_safe); lifted to all histories '
                '(C10_reachable_partial); C10_views_agree (name lookup, positional lookup, iteration, len, containment are '
                'functions of the list); four refuted witnesses (re-attach, add twice, parent=None, datatype object: F8, '
                'F20). The invariant is also evaluated on hl7apy\'s live object graph after every step of every history.',
        'design_ref': 'DESIGN.md section 7 C10',
        'note': 'Trusted: Coq kernel + vm_compute; translators; harness heapcorr.py. No axioms. op_safe is slightly stronger '
                'than "not listed anywhere" (also: not in a traversal index); measured equivalent on all generated histories, '
                'not proved. Same model scope as C09.',
        'technique': 'Coq invariant proof over a function-heap model (all operations, all histories) + invariant evaluated on '
                     'live objects + state-dump differential',
    },
    'C11': {
        'text': 'Partial proof. In the heap model every observer (read chains of any length by name/long name/positional '
                'path incl. .value, len, iteration, to_er7 with both trailing_children settings) leaves the children and '
                'encodings of every pre-existing element unchanged, whatever its outcome, however often repeated '
                '(C11_read_pure, C11_navigation_pure, C11_read_repeatable, C11_observers_pure). The "first write materialises '
                'exactly the chain" sentence is proved for text right-hand sides under Inv and the decidable Tidy (C11_write_materialises for the .value form, C11_assign_materialises by name, C11_write_none_materialises, C11_write_chain_abs; C11_write_materialises_untidy_refuted shows the side condition is needed) and decided by the oracle in general (before/after dumps around '
                'read chains of depth 1-4, exact materialisation count, written chain must be listed).',
        'design_ref': 'DESIGN.md section 7 C11',
        'note': 'Trusted as C09. No axioms. MSH-1/MSH-2, Segment.value and non-text right-hand sides of the materialisation clause are oracle-only; validate() as an observer is '
                'covered by the C04 purity oracle.',
        'technique': 'Coq purity proof of the read path of the heap model + before/after differential on live objects',
    },
    'C12': {
        'text': 'Partial proof. C12_encoding_of_visible (encodings are a function of the visible heap) and atomicity of the '
                'rejection causes where it holds (C12_atomic_partial_add/_assign_name/_assign_value/_assign_append/'
                '_assign_wrong_element/_delete: a raising step leaves abstraction and encoding of every element unchanged); '
                'five refuted causes with computed witnesses (replace by another level, refused datatype change, .value '
                'promotion, partly admissible value, datatype object: F9, F20). The oracle dumps target and root before and '
                'after every RAISING call of every history plus a catalogue of rejectable operations.',
        'design_ref': 'DESIGN.md section 7 C12',
        'note': 'Trusted as C09. No axioms. Atomicity is proved per rejection cause, not as one statement; '
                '`del seg.<absent>` raising AttributeError concerns the exception class, not state.',
        'technique': 'Coq per-cause atomicity proofs over the heap model with persistent partial effects + before/after '
                     'oracle on raising calls',
    },
    'C14': {
        'text': 'Proof (66 obligations). Model of find_child_reference for every element class, _find_name, the attribute-'
                'name guard and the positional-path decoding (Model/Resolve.v). For ANY structure built from a reference: '
                'resolution is case-blind (C14_case*), a unique non-reserved long name resolves to the entry of the HL7 name '
                '(C14_long), <SEG>_<i>_<j>[_<k>] designates component j (subcomponent k) (C14_positional_*), a name that '
                'designates nothing gives ChildNotFound/ChildNotValid and never another entry (C14_no_such*; refuted for '
                'varies fields = F25). Per version, kernel-checked: every field/component/subcomponent row is reached by its '
                'name and (unless exempt) long name in any case; exempt rows are COUNTED in the statement and a digest of the '
                'name->long-name map is pinned. Implementation sweep is exhaustive (4.9M operations: read/write/delete by '
                'every spelling and case, negatives).',
        'design_ref': 'DESIGN.md section 7 C14',
        'note': 'Trusted: Coq kernel + vm_compute (vm_cast_no_check is used only to avoid evaluating an obligation twice; '
                'the kernel still checks the cast by vm conversion); translators; harness c14.py. No axioms. An intended table '
                'change requires `harness/c14.py --repin` (the pinned digest is part of the obligation).',
        'technique': 'Coq proofs about a name-resolution model + per-version exhaustive vm_compute obligations + exhaustive '
                     'alias sweep',
    },
}

NOT_YET = {}


def main():
    props = [json.loads(l)['id'] for l in open(os.path.join(ROOT, 'properties.jsonl'))]
    checks = []
    na = []
    for p in props:
        if p in CHECKS:
            c = CHECKS[p]
            checks.append({
                'property_id': p,
                'quick_cmd': 'bin/check %s --tier quick' % p,
                'thorough_cmd': 'bin/check %s --tier thorough' % p,
                'evidence_file': 'evidence/%s.json' % p,
                'replay_cmd_template': 'bin/check %s --replay {path}' % p,
                'engine': 'coq-model',
                'level_claimed': {'category': 'proof', 'text': c['text'], 'design_ref': c['design_ref']},
                'level_note': c['note'],
                'technique': c['technique'],
            })
        else:
            na.append({'property_id': p, 'reason': NOT_YET.get(
                p, 'not claimed in this snapshot: the Coq model, theorems and correspondence check for this property '
                   'are not built yet (DESIGN.md section 9 gives the build order); nothing is asserted about it')})
    m = {
        'version': 1,
        'setup_cmd': 'bin/setup',
        'hooks': {
            'guard': 'HL7APY_VERIF',
            'enable': 'no source hooks are needed: every observation is made through the public API, '
                      'sys.settrace or loopback sockets; checks run /repo as it is (PYTHONPATH=/repo)',
            'baseline_off_cmd': 'cd /repo && /venv/bin/python -m pytest -ra -q -p no:cacheprovider --timeout=900 '
                                '--continue-on-collection-errors',
            'source_commits': [],
            'add_only': True,
        },
        'engines': [{
            'name': 'coq-model', 'path': 'coq/',
            'serves_properties': sorted(CHECKS),
            'kind_free_text': 'Coq 8.16.1 development: generated tables/constants (coq/Gen, regenerated from /repo '
                              'each run), hand-written executable Gallina model (coq/Model), lemmas (coq/Proofs), '
                              'property theorems (coq/Properties); harness/*.py runs model (vm_compute) and '
                              'implementation on the same inputs',
        }],
        'checks': checks,
        'not_applicable': na,
        'notes': 'bin/check <ID> regenerates coq/Gen from /repo, rebuilds the property\'s Coq targets, runs the '
                 'model/implementation correspondence and the implementation-side oracle, classifies failures against '
                 'known_findings.json and writes evidence/<ID>.json.',
    }
    with open(os.path.join(ROOT, 'MANIFEST.json'), 'w') as f:
        json.dump(m, f, indent=1)
    print('MANIFEST.json: %d checks, %d not claimed' % (len(checks), len(na)))


if __name__ == '__main__':
    main()
