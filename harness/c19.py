"""C19 - concurrent use gives the same results as sequential use.

Obligations: coq/Properties/C19.v (non-interference of threads that do not write maps another thread
can reach, for ALL thread programs and ALL schedules; the action list of datatype_factory satisfies
the premise; the pre-1.3.5 alias shape is refuted) about coq/Model/Sched.v.

Tie to the code (nothing in /repo is modified):
  (i)   extraction: BASE_DATATYPES of every version, SUPPORTED_LIBRARIES and hl7apy.importlib are
        replaced, inside this process only, by instrumented objects while the factory / load calls
        of the corpus run; the observed action list and observations go into a Coq case file where
        they are compared with Sched.datatype_factory_prog / load_library_prog and where premise 1
        (no_shared_writes) is evaluated on what was observed;
  (ii)  fingerprints of every module-level and class-level object of every hl7apy module before and
        after every corpus call, and identity facts at the touch points (sys.setprofile);
  (iii) stress differential: every call's result under 2..16 threads with switch interval 1e-6 is
        compared with the result of the same call run ALONE (a freshly forked process that executes
        only that call); cold rounds (forked, libraries not imported yet) and warm rounds;
  (iv)  forced switches: a trace function parks a thread at a touch point while the others run,
        for all orders of the segments of 2 (and 3) threads.
"""
import hashlib
import itertools
import json
import os
import pickle
import re
import select
import signal
import sys
import threading
import time
import types
import weakref

sys.path.insert(0, os.path.dirname(__file__))
from common import Run, use_repo, coq_eval_many, parse_nat_lists, theorems_of, NPROC, REPO
from coqgen import coq_str, coq_opt, coq_list, coq_bool

use_repo()

STRICT, TOLERANT = 1, 2


def versions():
    import hl7apy
    return sorted(hl7apy.SUPPORTED_LIBRARIES.keys(), key=lambda v: [int(x) for x in v.split('.')])


# ------------------------------------------------------------------------------------------------
# canonical results


def scrub(s):
    return re.sub(r' at 0x[0-9a-fA-F]+', ' at 0x?', s)


def canon_exc(e):
    return ['exc', type(e).__module__ + '.' + type(e).__name__, scrub(str(e))[:300]]


def guarded(f):
    try:
        return f()
    except Exception as e:  # noqa - the exception IS the result
        return canon_exc(e)


def canon_dt(o):
    t = type(o)
    out = ['obj', t.__module__ + '.' + t.__qualname__, guarded(lambda: o.to_er7())]
    for a in ('value', 'format', 'offset', 'microsec', 'max_length', 'validation_level'):
        if hasattr(o, a):
            out.append([a, scrub(repr(getattr(o, a, None)))[:120]])
    return out


def tree_sig(el, depth=0):
    out = [type(el).__name__, getattr(el, 'name', None)]
    try:
        out.append(getattr(el, 'datatype', None))
    except Exception as e:  # noqa
        out.append(type(e).__name__)
    ch = getattr(el, 'children', None)
    if ch is not None and depth < 12:
        out.append([tree_sig(c, depth + 1) for c in ch])
    else:
        v = getattr(el, 'value', None)
        out.append(type(v).__module__ + '.' + type(v).__name__)
    return out


def canon_msg(m, ec=None):
    er7 = guarded(lambda: m.to_er7(ec) if ec else m.to_er7())
    sig = guarded(lambda: hashlib.sha1(json.dumps(tree_sig(m)).encode()).hexdigest()[:16])

    def val():
        r = m.validate(return_errors=True)
        return [bool(r.is_valid), [scrub(str(x))[:200] for x in r.errors], [scrub(str(x))[:200] for x in r.warnings]]
    return ['msg', type(m).__name__, getattr(m, 'name', None), getattr(m, 'version', None), er7, sig, guarded(val)]


EC_ALT = {'FIELD': '!', 'COMPONENT': '@', 'REPETITION': '%', 'ESCAPE': '?', 'SUBCOMPONENT': '*',
          'SEGMENT': '\r', 'GROUP': '\r'}
EC_TABLE = {'default': None, 'alt': EC_ALT}


def blank_msh7(er7, fsep='|'):
    if not isinstance(er7, str):
        return er7
    segs = er7.split('\r')
    f = segs[0].split(fsep)
    if len(f) > 6:
        f[6] = '<T>'
    segs[0] = fsep.join(f)
    return '\r'.join(segs)


def build_message(v, level, recipe):
    from hl7apy.core import Message
    t3 = v >= '2.3.1'
    structure = 'ADT_A01' if recipe == 'adt' else 'ORU_R01'
    m = Message(structure, version=v, validation_level=level)
    steps = []

    def do(label, f):
        try:
            f()
            steps.append([label, 'ok'])
        except Exception as e:  # noqa
            steps.append([label] + canon_exc(e))
    do('msh7', lambda: setattr(m.msh, 'msh_7', '20200101120000'))
    if recipe == 'adt':
        do('msh9', lambda: setattr(m.msh, 'msh_9', 'ADT^A01^ADT_A01' if t3 else 'ADT^A01'))
        do('msh10', lambda: setattr(m.msh, 'msh_10', 'B%s' % v))
        do('msh11', lambda: setattr(m.msh, 'msh_11', 'P'))
        do('evn', lambda: setattr(m.evn, 'evn_2', '20200101'))
        do('pid3', lambda: setattr(m.pid, 'pid_3', '12345^^^HOSP^MR'))
        do('pid5', lambda: setattr(m.pid, 'pid_5', 'DOE^JOHN~ROE^JANE'))
        do('pid7', lambda: setattr(m.pid, 'pid_7', '19800101'))
        do('pv1', lambda: setattr(m.pv1, 'pv1_2', 'I'))
        do('nk1', lambda: setattr(m.add_segment('NK1'), 'nk1_1', '1'))
        do('zzz', lambda: setattr(m.add_segment('ZZ1'), 'zz1_1', 'z|z'))
    else:
        do('msh9', lambda: setattr(m.msh, 'msh_9', 'ORU^R01^ORU_R01' if t3 else 'ORU^R01'))
        do('msh10', lambda: setattr(m.msh, 'msh_10', 'O%s' % v))

        def obx():
            from hl7apy.core import Segment
            s = Segment('OBX', version=v, validation_level=level)
            s.obx_1 = '1'
            s.obx_2 = 'NM'
            s.obx_3 = 'GLU^Glucose'
            s.obx_5 = '12.5'
            s.obx_11 = 'F'
            steps.append(['obx-er7', guarded(lambda: s.to_er7())])
        do('obx', obx)
        do('nte', lambda: setattr(m.add_segment('NTE'), 'nte_3', 'a note & more'))
    r = canon_msg(m)
    r[4] = blank_msh7(r[4])
    return r + [steps]


def do_call(desc):
    """Execute one corpus call; the return value is JSON-able and canonical (no addresses, no clock)."""
    kind = desc[0]
    try:
        if kind == 'factory':
            from hl7apy.factories import datatype_factory
            _, dt, value, v, level = desc
            return canon_dt(datatype_factory(dt, value, v, level))
        if kind == 'load':
            import hl7apy
            lib = hl7apy.load_library(desc[1])
            return ['lib', lib.__name__, sorted(lib.get_base_datatypes().keys())]
        if kind == 'isbase':
            from hl7apy.core import is_base_datatype
            return ['bool', bool(is_base_datatype(desc[1], desc[2]))]
        if kind == 'parse':
            from hl7apy.parser import parse_message
            _, text, level, fg = desc
            return canon_msg(parse_message(text, validation_level=level, find_groups=fg))
        if kind == 'segment':
            from hl7apy.parser import parse_segment
            _, text, v, level = desc
            s = parse_segment(text, version=v, validation_level=level)
            return ['seg', guarded(lambda: s.to_er7()), guarded(lambda: json.dumps(tree_sig(s))[:2000])]
        if kind == 'build':
            _, v, level, recipe = desc
            return build_message(v, level, recipe)
        if kind == 'escape':
            import hl7apy
            _, v, cls, value, hl, ecname = desc
            c = hl7apy.load_library(v).get_base_datatypes()[cls]
            hl_in = [tuple(x) for x in hl] if hl is not None else None
            o = c(value, highlights=hl_in) if hl is not None else c(value)
            ec = EC_TABLE[ecname]
            er7 = guarded(lambda: o.to_er7(ec) if ec else o.to_er7())
            return ['esc', type(o).__module__ + '.' + type(o).__qualname__, er7,
                    [list(x) for x in hl_in] if hl_in is not None else None]
        if kind == 'unnamed':
            # elements without a name: the first thing they ask the library is whether their datatype is a base datatype
            from hl7apy.core import SubComponent, Component, Field
            _, v = desc
            sc = SubComponent(datatype='ST', value='a|b', version=v, validation_level=TOLERANT)
            c = Component(datatype='ST', version=v, validation_level=TOLERANT)
            c.add(sc)
            f = Field(datatype='ST', version=v, validation_level=TOLERANT)
            return ['unnamed', guarded(lambda: sc.to_er7()), guarded(lambda: c.to_er7()), f.datatype, f.version]
        if kind == 'implicit':
            # nothing given explicitly: version, level and delimiters come from the process-wide defaults
            import hl7apy
            from hl7apy.core import Segment, Message
            from hl7apy.parser import parse_segment
            from hl7apy.factories import datatype_factory
            sg = Segment('PID')
            sg.pid_5 = 'A^B'
            ps = guarded(lambda: parse_segment('PID|1||a^b').to_er7())
            m = Message('ADT_A01')
            try:
                dfo = type(datatype_factory('NM', 'abc')).__name__
            except Exception as e:  # noqa
                dfo = type(e).__name__
            return ['implicit', hl7apy.get_default_version(), hl7apy.get_default_validation_level(), sg.version,
                    sg.validation_level, guarded(lambda: sg.to_er7()), ps, m.version, blank_msh7(m.to_er7())[:12], dfo]
        if kind == 'escape_shared':
            # several values built from ONE list of highlight ranges (the caller's object): encoding reads it, never writes it
            import hl7apy
            _, v, cls = desc
            c = hl7apy.load_library(v).get_base_datatypes()[cls]
            o = c('h' * 260, highlights=SHARED_HL)
            er7 = guarded(lambda: o.to_er7())
            return ['esc-shared', er7, [list(x) for x in SHARED_HL] == SHARED_HL_ORIG]
        if kind == 'retype':
            # a local agreement: one named component of the official structure gets another complex datatype;
            # a fresh component of the same name, built afterwards, must still be the official one
            from hl7apy.core import Component
            _, v, name, new_dt = desc
            c = Component(name, version=v, validation_level=TOLERANT)
            old = c.datatype
            c.datatype = new_dt
            first = sorted(c.structure_by_name)[0] if c.structure_by_name else None
            if first:
                setattr(c, first.lower(), 'x')
            fresh = Component(name, version=v, validation_level=TOLERANT)
            return ['retype', old, c.datatype, guarded(lambda: c.to_er7()), fresh.datatype,
                    sorted(fresh.structure_by_name)[:3]]
        return ['exc', 'harness.UnknownCall', kind]
    except Exception as e:  # noqa
        return canon_exc(e)


# ------------------------------------------------------------------------------------------------
# corpus

SHARED_HL_ORIG = [[i, i + 1] for i in range(238, -2, -4)] + [[i, i + 1] for i in range(4, 240, 4)]
SHARED_HL = [tuple(x) for x in SHARED_HL_ORIG]

FACTORY_VALUES = {
    'DT': ['20200101', '202013', '2020'],
    'TM': ['1204', '2561', '120434.12+0100'],
    'DTM': ['20200101120000', '20201301', '202001011200+0100'],
    'NM': ['12.5', 'abc', ''],
    'SI': ['7', 'x', ''],
    'ST': ['a|b^c\\d', 'x' * 250, 'plain'],
    'FT': ['text \\.br\\ more'],
    'ID': ['A'],
    'XX': ['a'],
}


def translate_ec(text):
    return text.translate({ord('|'): '!', ord('^'): '@', ord('~'): '%', ord('\\'): '?', ord('&'): '*'})


def message_texts(v):
    t3 = v >= '2.3.1'
    ec = '^~\\&#' if v >= '2.7' else '^~\\&'
    adt = ('MSH|%s|SND|FAC|REC|FAC|20200101120000||ADT^A01%s|A%s|P|%s\r'
           'EVN|A01|20200101\rPID|1||12345^^^HOSP^MR||DOE^JOHN||19800101|M\rPV1|1|I\r'
           % (ec, '^ADT_A01' if t3 else '', v, v))
    oru = ('MSH|%s|LAB|FAC|REC|FAC|20200102030405||ORU^R01%s|O%s|P|%s\r'
           'PID|1||555^^^H^MR||ROE^JANE~ROE^J\rOBR|1||A1|GLU^Glucose\r'
           'OBX|1|NM|GLU^Glucose||12.5|mg/dL|||||F\rOBX|2|ST|CMT^Comment||fine \\F\\ ok||||||F\r'
           'OBX|3|DT|D^Date||20200101||||||F\rNTE|1||a note\rZZ1|z1|z2^z3\r'
           % (ec, '^ORU_R01' if t3 else '', v, v))
    bad = ('MSH|%s|SND|FAC|REC|FAC|20200101120000||ADT^A01%s|X%s|P|%s\r'
           'PID|1||1~2~3||DOE^JOHN^^^^^^^^^^^^^^^^^TOOMANY\rPID|2\rEVN|A01\r'
           % (ec, '^ADT_A01' if t3 else '', v, v))
    alt = translate_ec(adt.replace('#', '')) if v < '2.7' else None
    return [('adt', adt), ('oru', oru), ('bad', bad)] + ([('alt', alt)] if alt else [])


RSP_K21 = ('MSH|^~\\&|SEND APP|SEND FAC|REC APP|REC FAC|20110708163514||RSP^K22^RSP_K21|1234|D|%s|||||ITA||EN\r'
           'MSA|AA|26775702551812240\rQAK|111069|OK||1|1|0\r'
           'QPD|IHE PDQ Query|111069|@PID.3.1^1010110909194822~@PID.5.1^SMITH\r'
           'PID|1||10101^^^GATEWAY&1.3.6.1.4.1.21367.2011.2.5.17&ISO||JOHN^SMITH^^^^^A||19690113|M|||'
           'VIA DELLE VIE^^CAGLIARI^^^100^H^^092009||||||||||||CAGLIARI')


def retype_plan_worker(vs):
    import hl7apy
    out = []
    for v in vs:
        lib = hl7apy.load_library(v)
        D = lib.DATATYPES
        names = [k for k in sorted(D) if '_' in k and D[k][0] == 'sequence']
        if not names:
            continue
        name = 'CX_4' if 'CX_4' in names else names[0]
        structs = getattr(lib, 'DATATYPES_STRUCTS', {})
        target = [t for t in ('CE', 'CWE', 'CNE') + tuple(sorted(structs)) if t in structs and t != D[name][2]][0]
        out.append((v, name, target))
    return out


def build_corpus(run):
    """The corpus: a list of call descriptors (JSON-able lists).  The quick tier takes a seeded
    sample of the factory grid; everything else is always included."""
    vs = versions()
    corpus = []
    fac = []
    for v in vs:
        for dt in ('DT', 'TM', 'DTM', 'NM', 'SI', 'ST'):
            grid = [(level, val) for level in (STRICT, TOLERANT) for val in FACTORY_VALUES[dt]]
            if not run.thorough:   # valid/STRICT, invalid/TOLERANT (fallback path) and one more, seeded
                vals = FACTORY_VALUES[dt]
                grid = [(STRICT, vals[0]), (TOLERANT, vals[1]),
                        run.rng.choice([(TOLERANT, vals[0]), (STRICT, vals[1]), (STRICT, vals[2]), (TOLERANT, vals[2])])]
            for level, val in grid:
                fac.append(['factory', dt, val, v, level])
        for dt in ('FT', 'ID', 'XX'):
            fac.append(['factory', dt, FACTORY_VALUES[dt][0], v, run.rng.choice((STRICT, TOLERANT))])
    fac.append(['factory', 'ST', 'a', '9.9', STRICT])
    fac.append(['factory', 'DT', '20200101', '2.0', TOLERANT])
    corpus += fac
    for v in vs:
        corpus.append(['load', v])
        corpus.append(['isbase', run.rng.choice(['ST', 'DTM', 'CX', 'TM']), v])
    corpus.append(['load', '3.0'])
    for v in vs:
        for name, text in message_texts(v):
            combos = [(STRICT, True), (TOLERANT, True), (TOLERANT, False), (STRICT, False)]
            if not run.thorough:
                combos = [combos[0], combos[1 + run.rng.randrange(3)]] if name != 'alt' else [combos[1]]
            for level, fg in combos:
                corpus.append(['parse', text, level, fg])
    for v in ('2.5', '2.7'):
        for level in (STRICT, TOLERANT):
            corpus.append(['parse', RSP_K21 % v, level, True])
    for v in vs:
        for level in (STRICT, TOLERANT):
            corpus.append(['build', v, level, 'adt'])
        corpus.append(['build', v, run.rng.choice((STRICT, TOLERANT)), 'oru'])
        corpus.append(['segment', 'PID|1||12345^^^HOSP^MR~777||DOE^JOHN||19800101|M', v, TOLERANT])
        corpus.append(['segment', 'OBX|1|NM|GLU||12.5', v, STRICT])
        for ecname in ('default', 'alt'):
            corpus.append(['escape', v, 'ST', 'ab|cd^ef!gh@i', [[5, 6], [0, 1]], ecname])
        corpus.append(['escape', v, 'FT', 'x~y\\z', None, 'default'])
        corpus.append(['escape', v, 'ST', 'abcdef', [[0, 3], [2, 4]], 'default'])
        corpus.append(['escape_shared', v, 'ST'])
        corpus.append(['unnamed', v])
        corpus.append(['isbase', 'ST', v])
        corpus.append(['escape_shared', v, 'FT'])
    # (the names are looked up in a forked child: this process must not import the version libraries before the cold rounds)
    (st, plan), = fork_map([vs], retype_plan_worker, timeout=120)
    for v, name, target in (plan if st == 'ok' else []):
        corpus.append(['retype', v, name, target])
        # ... and calls that build that component from text afterwards
        if name == 'CX_4':
            corpus.append(['segment', 'PID|1||12345^^^HOSP&1.2.3&ISO^MR', v, TOLERANT])
            corpus.append(['segment', 'PID|1||12345^^^HOSP&1.2.3&ISO^MR', v, STRICT])
    return corpus


def key_of(desc):
    return json.dumps(desc, sort_keys=True)


def short(desc):
    d = list(desc)
    if d[0] in ('parse', 'segment'):
        d[1] = d[1][:60] + '...'
    if d[0] == 'factory' and len(d[2]) > 20:
        d[2] = d[2][:20] + '...'
    return d


# ------------------------------------------------------------------------------------------------
# fresh processes (fork): "the same call run alone", cold concurrent rounds, forced schedules


def fork_map(jobs, worker, timeout=120, workers=None):
    """worker(job) in a freshly forked child per job.  Returns a list of ('ok', value) |
    ('timeout', None) | ('crash', text).  Must be called while this process has no other thread."""
    workers = workers or NPROC
    results = [None] * len(jobs)
    active = {}
    nxt = 0

    def finish(fd, status=None):
        idx, pid, chunks, _ = active.pop(fd)
        os.close(fd)
        try:
            os.waitpid(pid, 0)
        except OSError:
            pass
        if status is not None:
            results[idx] = (status, None)
            return
        try:
            val = json.loads(b''.join(chunks).decode())
            if isinstance(val, dict) and '__crash__' in val:
                results[idx] = ('crash', val['__crash__'])
            else:
                results[idx] = ('ok', val)
        except Exception as e:  # noqa
            results[idx] = ('crash', 'no result from child: %r' % (e,))

    while nxt < len(jobs) or active:
        while nxt < len(jobs) and len(active) < workers:
            r, w = os.pipe()
            sys.stdout.flush()
            sys.stderr.flush()
            pid = os.fork()
            if pid == 0:
                code = 0
                try:
                    os.close(r)
                    out = json.dumps(worker(jobs[nxt])).encode()
                    with os.fdopen(w, 'wb') as f:
                        f.write(out)
                except BaseException as e:  # noqa
                    try:
                        os.write(w, json.dumps({'__crash__': repr(e)[:500]}).encode())
                    except Exception:  # noqa
                        pass
                    code = 1
                finally:
                    os._exit(code)
            os.close(w)
            active[r] = [nxt, pid, [], time.time()]
            nxt += 1
        rl, _, _ = select.select(list(active), [], [], 0.2)
        for fd in rl:
            data = os.read(fd, 1 << 16)
            if data:
                active[fd][2].append(data)
            else:
                finish(fd)
        now = time.time()
        for fd in list(active):
            if now - active[fd][3] > timeout:
                try:
                    os.kill(active[fd][1], signal.SIGKILL)
                except OSError:
                    pass
                finish(fd, 'timeout')
    return results


def run_threads(assignments, switch=1e-6, join_timeout=90):
    """assignments[i] = list of calls of thread i.  All threads start together; returns
    (results[i][j], indices of threads that did not finish)."""
    old = sys.getswitchinterval()
    n = len(assignments)
    results = [[None] * len(a) for a in assignments]
    barrier = threading.Barrier(n)

    def target(i):
        try:
            barrier.wait(timeout=30)
        except threading.BrokenBarrierError:
            pass
        for j, d in enumerate(assignments[i]):
            results[i][j] = do_call(d)
    ths = [threading.Thread(target=target, args=(i,), daemon=True) for i in range(n)]
    sys.setswitchinterval(switch)
    try:
        for t in ths:
            t.start()
        deadline = time.time() + join_timeout
        for t in ths:
            t.join(max(0.0, deadline - time.time()))
    finally:
        sys.setswitchinterval(old)
    return results, [i for i, t in enumerate(ths) if t.is_alive()]


def configured_worker(job):
    """The process-wide defaults are set first (main thread); the same calls then run alone in the main thread and in
    several worker threads: a default applies to the whole process, not to the thread that set it."""
    import hl7apy
    hl7apy.set_default_version(job['version'])
    hl7apy.set_default_validation_level(job['level'])
    hl7apy.set_default_encoding_chars(dict(job['ec']))
    alone = [do_call(d) for d in job['calls']]
    res, hung = run_threads([list(job['calls']) for _ in range(job.get('n', 3))], switch=1e-6, join_timeout=60)
    return {'alone': alone, 'results': res, 'hung': hung}


def cold_worker(job):
    res, hung = run_threads(job['threads'], switch=job.get('switch', 1e-6), join_timeout=job.get('timeout', 90))
    return {'results': res, 'hung': hung}


# ---- touch points and forced schedules

TOUCH = {
    'factory:entry': ('datatype_factory', 'factories.py', ('call',)),
    'factory:copied': ('datatype_factory', 'factories.py', ('local', 'factories')),
    'factory:chosen': ('datatype_factory', 'factories.py', ('local', 'factory')),
    'load:entry': ('load_library', os.path.join('hl7apy', '__init__.py'), ('call',)),
    'load:named': ('load_library', os.path.join('hl7apy', '__init__.py'), ('local', 'module_name')),
    'load:imported': ('load_library', os.path.join('hl7apy', '__init__.py'), ('local', 'lib')),
    'group:init': ('Group.__init__', 'core.py', ('return',)),
    'escape:entry': ('_escape_value', 'base_datatypes.py', ('call',)),
    'to_er7:entry': ('to_er7', 'core.py', ('call',)),
    'validate:entry': ('validate', 'validation.py', ('call',)),
}
# touch points whose position is part of the argument (the check reports when they are never reached)
CRITICAL_TOUCH = ('factory:copied', 'factory:chosen', 'load:named', 'load:imported', 'group:init')


class Sched(object):
    """Serialises the segments of the threads in a given order: order[k] = the thread that runs its
    next segment at step k.  Exactly one thread runs at a time."""

    def __init__(self, order, wait=20.0):
        self.order = list(order)
        self.pos = 0
        self.cv = threading.Condition()
        self.finished = set()
        self.broken = False
        self.wait = wait

    def _skip(self):
        while self.pos < len(self.order) and self.order[self.pos] in self.finished:
            self.pos += 1

    def wait_turn(self, tid):
        with self.cv:
            ok = self.cv.wait_for(lambda: self.broken or self.pos >= len(self.order) or
                                  self.order[self.pos] == tid, timeout=self.wait)
            if not ok:
                self.broken = True
                self.cv.notify_all()

    def yield_(self, tid):
        with self.cv:
            if self.pos < len(self.order) and self.order[self.pos] == tid:
                self.pos += 1
                self._skip()
                self.cv.notify_all()
        self.wait_turn(tid)

    def finish(self, tid):
        with self.cv:
            self.finished.add(tid)
            if self.pos < len(self.order) and self.order[self.pos] == tid:
                self.pos += 1
            self._skip()
            self.cv.notify_all()


def make_tracer(point, occurrence, on_reach, facts=None):
    """A sys.settrace function that calls on_reach() once, at the `occurrence`-th time the touch
    point is reached in this thread."""
    name, suffix, trig = TOUCH[point]
    state = {'count': 0, 'done': False}
    by_qual = '.' in name

    def matches(code):
        if not code.co_filename.endswith(suffix):
            return False
        return (code.co_qualname == name) if by_qual else (code.co_name == name)

    def hit(frame):
        state['count'] += 1
        if state['count'] == occurrence and not state['done']:
            state['done'] = True
            if facts is not None:
                facts.append(identity_facts(frame))
            on_reach()

    def local(frame, event, arg):
        if state['done']:
            return None
        if trig[0] == 'local' and event in ('line', 'return') and trig[1] in frame.f_locals:
            hit(frame)
            return None
        elif trig[0] == 'return' and event == 'return':
            hit(frame)
            return None
        return local

    def tracer(frame, event, arg):
        if state['done'] or event != 'call' or not matches(frame.f_code):
            return None
        if trig[0] == 'call':
            hit(frame)
            return None
        return local
    return tracer, state


def identity_facts(frame):
    loc = frame.f_locals
    out = {}
    if 'factories' in loc and 'base_datatypes' in loc:
        out['factories_is_base_datatypes'] = loc['factories'] is loc['base_datatypes']
    return out


def run_forced_settrace(calls, points, order, occurrences=None, wait=20.0):
    """(fallback for interpreters without sys.monitoring) Run calls[i] in thread i; thread i is split at its touch point points[i] into two segments;
    `order` lists thread ids, one entry per segment.  Deterministic: one thread runs at a time."""
    n = len(calls)
    occurrences = occurrences or [1] * n
    sched = Sched(order, wait)
    results = [None] * n
    reached = [False] * n
    facts = [[] for _ in range(n)]

    def target(i):
        sched.wait_turn(i)

        def on_reach():
            reached[i] = True
            sched.yield_(i)
        tracer, _ = make_tracer(points[i], occurrences[i], on_reach, facts[i])
        sys.settrace(tracer)
        try:
            results[i] = do_call(calls[i])
        finally:
            sys.settrace(None)
            sched.finish(i)
    ths = [threading.Thread(target=target, args=(i,), daemon=True) for i in range(n)]
    for t in ths:
        t.start()
    deadline = time.time() + 4 * wait
    for t in ths:
        t.join(max(0.0, deadline - time.time()))
    return {'results': results, 'reached': reached, 'broken': sched.broken,
            'hung': [i for i, t in enumerate(ths) if t.is_alive()], 'facts': facts}


def find_codes(name, suffix):
    """The code objects of the functions called `name` (co_name, or co_qualname when dotted) defined
    in loaded hl7apy modules whose file ends with `suffix`."""
    out = []
    by_qual = '.' in name
    for mn, m in hl7_modules():
        if not (getattr(m, '__file__', '') or '').endswith(suffix):
            continue
        for v in list(vars(m).values()):
            cands = []
            if isinstance(v, types.FunctionType):
                cands.append(v)
            elif isinstance(v, type) and v.__module__ == mn:
                for cv in list(vars(v).values()):
                    f2 = cv.__func__ if isinstance(cv, (staticmethod, classmethod)) else cv
                    if isinstance(f2, types.FunctionType):
                        cands.append(f2)
            for fn in cands:
                code = fn.__code__
                if ((code.co_qualname == name) if by_qual else (code.co_name == name)) and code not in out:
                    out.append(code)
    return out


MON_TOOL = 4


class TouchMonitor(object):
    """sys.monitoring (CPython >= 3.12): events are enabled ONLY on the code objects of the touch
    point functions, so the rest of the call (and the import of the big table modules) runs at full
    speed.  Each thread registers the touch point it has to be parked at."""

    def __init__(self, points):
        self.mon = sys.monitoring
        self.by_thread = {}
        self.codes = {}
        for p in set(points):
            name, suffix, trig = TOUCH[p]
            self.codes[p] = set(find_codes(name, suffix))
        self.all_codes = set().union(*self.codes.values()) if self.codes else set()

    def start(self):
        E = self.mon.events
        self.mon.use_tool_id(MON_TOOL, 'c19')
        self.mon.register_callback(MON_TOOL, E.PY_START, self.on_start)
        self.mon.register_callback(MON_TOOL, E.LINE, self.on_line)
        self.mon.register_callback(MON_TOOL, E.PY_RETURN, self.on_return)
        self.mon.register_callback(MON_TOOL, E.PY_UNWIND, self.on_unwind)
        for c in self.all_codes:
            self.mon.set_local_events(MON_TOOL, c, E.PY_START | E.LINE | E.PY_RETURN)
        self.mon.set_events(MON_TOOL, 0)

    def stop(self):
        E = self.mon.events
        for c in self.all_codes:
            try:
                self.mon.set_local_events(MON_TOOL, c, 0)
            except Exception:  # noqa
                pass
        for ev in (E.PY_START, E.LINE, E.PY_RETURN, E.PY_UNWIND):
            self.mon.register_callback(MON_TOOL, ev, None)
        self.mon.free_tool_id(MON_TOOL)

    def register(self, point, occurrence, on_reach, facts):
        self.by_thread[threading.get_ident()] = {'point': point, 'trig': TOUCH[point][2], 'codes': self.codes[point],
                                                 'occ': occurrence, 'count': 0, 'done': False,
                                                 'on_reach': on_reach, 'facts': facts, 'frames': set()}

    def unregister(self):
        self.by_thread.pop(threading.get_ident(), None)

    def _state(self, code):
        st = self.by_thread.get(threading.get_ident())
        if st is None or st['done'] or code not in st['codes']:
            return None
        return st

    def _hit(self, st, frame):
        st['count'] += 1
        if st['count'] == st['occ']:
            st['done'] = True
            st['facts'].append(identity_facts(frame))
            st['on_reach']()

    def on_start(self, code, offset):
        st = self._state(code)
        if st is not None and st['trig'][0] == 'call':
            self._hit(st, sys._getframe(1))

    def on_line(self, code, line):
        st = self._state(code)
        if st is not None and st['trig'][0] == 'local':
            fr = sys._getframe(1)
            if id(fr) not in st['frames'] and st['trig'][1] in fr.f_locals:
                st['frames'].add(id(fr))
                self._hit(st, fr)

    def on_return(self, code, offset, retval):
        st = self._state(code)
        if st is None:
            return
        fr = sys._getframe(1)
        if st['trig'][0] == 'return':
            self._hit(st, fr)
        elif st['trig'][0] == 'local' and id(fr) not in st['frames'] and st['trig'][1] in fr.f_locals:
            st['frames'].add(id(fr))
            self._hit(st, fr)
        st['frames'].discard(id(fr))

    def on_unwind(self, code, offset, exc):
        pass


def run_forced(calls, points, order, occurrences=None, wait=20.0):
    """Run calls[i] in thread i; thread i is split at its touch point points[i] into two segments;
    `order` lists thread ids, one entry per segment.  Deterministic: one thread runs at a time."""
    if not hasattr(sys, 'monitoring'):
        return run_forced_settrace(calls, points, order, occurrences, wait)
    n = len(calls)
    occurrences = occurrences or [1] * n
    sched = Sched(order, wait)
    results = [None] * n
    reached = [False] * n
    facts = [[] for _ in range(n)]
    mon = TouchMonitor(points)
    mon.start()

    def target(i):
        sched.wait_turn(i)

        def on_reach():
            reached[i] = True
            sched.yield_(i)
        mon.register(points[i], occurrences[i], on_reach, facts[i])
        try:
            results[i] = do_call(calls[i])
        finally:
            mon.unregister()
            sched.finish(i)
    ths = [threading.Thread(target=target, args=(i,), daemon=True) for i in range(n)]
    try:
        for t in ths:
            t.start()
        deadline = time.time() + 4 * wait
        for t in ths:
            t.join(max(0.0, deadline - time.time()))
    finally:
        mon.stop()
    return {'results': results, 'reached': reached, 'broken': sched.broken,
            'hung': [i for i, t in enumerate(ths) if t.is_alive()], 'facts': facts}


def cross_version_imports():
    """(version package that imports, package it imports from, how many of its source lines mention
    it) read from the __init__.py files of the version packages of the repository under test."""
    out = []
    base = os.path.join(REPO, 'hl7apy')
    for d in sorted(os.listdir(base)):
        f = os.path.join(base, d, '__init__.py')
        if not d.startswith('v2_') or not os.path.exists(f):
            continue
        lines = [l for l in open(f).read().split('\n') if not l.lstrip().startswith('#')]
        others = {}
        for l in lines:
            for m in re.finditer(r'\bv2_\d+(?:_\d+)*\b', l):
                if m.group(0) != d:
                    others.setdefault(m.group(0), 0)
            for o in others:
                if re.search(r'\b%s\b' % o, l):
                    others[o] += 1
        for o, n in sorted(others.items()):
            out.append((d, o, n))
    return out


def pkg_version(pkg):
    return pkg[1:].replace('_', '.')


def import_probe_worker(job):
    """Regression probe for the import-lock order: thread X starts importing package `xpkg` and is
    held inside importlib._find_spec (it owns the module lock, the module is not yet in sys.modules);
    thread Y, which is executing `ypkg/__init__.py`, then runs its nth line that mentions xpkg."""
    import importlib._bootstrap as boot
    import linecache
    mon = sys.monitoring
    E = mon.events
    xname = 'hl7apy.' + job['xpkg']
    ysuffix = os.path.join(job['ypkg'], '__init__.py')
    evX, evY = threading.Event(), threading.Event()
    state = {'x_reached': False, 'y_reached': False, 'n': 0, 'ycode': None}
    ids = {}
    fs_code = boot._find_spec.__code__

    def on_start(code, offset):
        if code is fs_code:
            if threading.get_ident() == ids.get('x') and not state['x_reached'] and \
                    sys._getframe(1).f_locals.get('name') == xname:
                state['x_reached'] = True
                evX.set()
                time.sleep(0.7)
            return None
        if code.co_name == '<module>' and code.co_filename.endswith(ysuffix):
            state['ycode'] = code
            mon.set_local_events(MON_TOOL, code, E.LINE)
            return None
        return mon.DISABLE

    def on_line(code, line):
        if code is not state['ycode'] or threading.get_ident() != ids.get('y') or state['y_reached']:
            return None
        src = linecache.getline(code.co_filename, line)
        if re.search(r'\b%s\b' % job['xpkg'], src) and not src.lstrip().startswith('#'):
            if state['n'] == job['nth']:
                state['y_reached'] = True
                evY.set()
                evX.wait(15)
            state['n'] += 1
        return None
    results = [None, None]

    def X():
        ids['x'] = threading.get_ident()
        evY.wait(30)
        try:
            results[0] = do_call(job['x'])
        finally:
            evX.set()

    def Y():
        ids['y'] = threading.get_ident()
        results[1] = do_call(job['y'])
        evY.set()
    mon.use_tool_id(MON_TOOL, 'c19probe')
    mon.register_callback(MON_TOOL, E.PY_START, on_start)
    mon.register_callback(MON_TOOL, E.LINE, on_line)
    mon.set_events(MON_TOOL, E.PY_START)
    ths = [threading.Thread(target=X, daemon=True), threading.Thread(target=Y, daemon=True)]
    try:
        for t in ths:
            t.start()
        for t in ths:
            t.join(90)
    finally:
        mon.set_events(MON_TOOL, 0)
        mon.free_tool_id(MON_TOOL)
    return {'results': results, 'x_reached': state['x_reached'], 'y_reached': state['y_reached'],
            'hung': [i for i, t in enumerate(ths) if t.is_alive()]}


def half_import_worker(job):
    """Thread Y is executing hl7apy/<pkg>/__init__.py for the first time and is held at its first line (the module object
    is already in sys.modules, nothing is defined in it yet); thread X then makes its call about the same version.  X has to
    wait for the import (module lock) and return what it returns alone."""
    mon = sys.monitoring
    E = mon.events
    ysuffix = os.path.join(job['pkg'], '__init__.py')
    evY, evX = threading.Event(), threading.Event()
    state = {'ycode': None, 'y_reached': False}
    ids = {}

    def on_start(code, offset):
        if code.co_name == '<module>' and code.co_filename.endswith(ysuffix):
            state['ycode'] = code
            mon.set_local_events(MON_TOOL, code, E.LINE)
            return None
        return mon.DISABLE

    def on_line(code, line):
        if code is state['ycode'] and threading.get_ident() == ids.get('y') and not state['y_reached']:
            state['y_reached'] = True
            evY.set()
            evX.wait(3)          # X either finishes (it did not wait for the import) or blocks on the module lock
        return None
    results = [None, None]

    def X():
        ids['x'] = threading.get_ident()
        evY.wait(30)
        try:
            results[0] = do_call(job['x'])
        finally:
            evX.set()

    def Y():
        ids['y'] = threading.get_ident()
        results[1] = do_call(job['y'])
        evY.set()
    mon.use_tool_id(MON_TOOL, 'c19half')
    mon.register_callback(MON_TOOL, E.PY_START, on_start)
    mon.register_callback(MON_TOOL, E.LINE, on_line)
    mon.set_events(MON_TOOL, E.PY_START)
    ths = [threading.Thread(target=X, daemon=True), threading.Thread(target=Y, daemon=True)]
    try:
        for t in ths:
            t.start()
        for t in ths:
            t.join(60)
    finally:
        mon.set_events(MON_TOOL, 0)
        mon.free_tool_id(MON_TOOL)
    return {'results': results, 'y_reached': state['y_reached'], 'hung': [i for i, t in enumerate(ths) if t.is_alive()]}


def import_probe_plan():
    jobs = []
    if not hasattr(sys, 'monitoring'):
        return jobs
    for ypkg, xpkg, n in cross_version_imports():
        vx, vy = pkg_version(xpkg), pkg_version(ypkg)
        for nth in range(n):
            jobs.append({'xpkg': xpkg, 'ypkg': ypkg, 'nth': nth,
                         'x': ['factory', 'NM', '12.5', vx, STRICT], 'y': ['factory', 'NM', '12.5', vy, STRICT]})
    return jobs


def forced_worker(job):
    out = []
    for exp in job['exps']:
        r = run_forced(exp['calls'], exp['points'], exp['order'], exp.get('occurrences'))
        out.append(r)
    return out


def interleavings(n):
    """All orders of the 2n segments of n threads (each thread's two segments in order)."""
    base = []
    for i in range(n):
        base += [i, i]
    return sorted(set(itertools.permutations(base)))


# ------------------------------------------------------------------------------------------------
# (ii) fingerprints of every shared object

SKIP_ATTRS = {'__builtins__', '__cached__', '__spec__', '__loader__', '__doc__', '__file__', '__path__',
              '__package__', '__name__', '__warningregistry__'}
REF_TYPES = (type, types.FunctionType, types.BuiltinFunctionType, types.MethodType, staticmethod, classmethod,
             property, types.ModuleType)
BIG = 64


def walk_hash(o, memo):
    """DAG-aware structural hash (used when pickle refuses)."""
    t = type(o)
    if t in (str, int, float, bool, type(None), bytes):
        return hash((t.__name__, o))
    i = id(o)
    if i in memo:
        return memo[i]
    if isinstance(o, REF_TYPES):
        return hash(('ref', i))
    memo[i] = 0
    if isinstance(o, dict):
        h = hash(('d',) + tuple((walk_hash(k, memo), walk_hash(v, memo)) for k, v in o.items()))
    elif isinstance(o, (list, tuple)):
        h = hash((t.__name__,) + tuple(walk_hash(x, memo) for x in o))
    elif isinstance(o, (set, frozenset)):
        h = hash(('s', frozenset(walk_hash(x, memo) for x in o)))
    else:
        h = hash(('o', t.__name__, i))
    memo[i] = h
    return h


def deep_fp(o):
    if isinstance(o, REF_TYPES):
        return 'ref:%x' % id(o)
    try:
        return 'p:%x:' % id(o) + hashlib.sha1(pickle.dumps(o, 4)).hexdigest()[:16]
    except Exception:  # noqa
        return 'w:%x:%x' % (id(o), walk_hash(o, {}) & 0xffffffffffff)


def shallow_fp(o):
    if isinstance(o, dict):
        return 's:%x:%d:%x' % (id(o), len(o), hash(tuple(map(id, o.values()))) & 0xffffffffffff)
    return 's:%x:%d:%x' % (id(o), len(o), hash(tuple(map(id, o))) & 0xffffffffffff)


def is_big(o):
    if not isinstance(o, (dict, list, tuple, set)):
        return False
    if len(o) > BIG:
        return True
    vals = o.values() if isinstance(o, dict) else o
    return any(isinstance(x, (dict, list, tuple, set)) and len(x) > BIG for x in vals)


def hl7_modules():
    return [(n, m) for n, m in sorted(sys.modules.items())
            if m is not None and (n == 'hl7apy' or n.startswith('hl7apy.'))]


def shared_objects():
    """(name, object) for every module-level binding and every class-level data attribute of every
    loaded hl7apy module."""
    for mn, m in hl7_modules():
        for a, v in list(vars(m).items()):
            if a in SKIP_ATTRS:
                continue
            yield mn + ':' + a, v
            if isinstance(v, type) and getattr(v, '__module__', '') == mn:
                for ca, cv in list(vars(v).items()):
                    if ca.startswith('__') or isinstance(cv, REF_TYPES) or callable(cv):
                        continue
                    yield mn + ':' + v.__name__ + '.' + ca, cv


def snapshot(deep_all=False):
    snap = {}
    memo = {}
    for name, o in shared_objects():
        if isinstance(o, types.ModuleType):
            snap[name] = 'mod:' + o.__name__
            continue
        h = memo.get(id(o))
        if h is None:
            h = shallow_fp(o) if (not deep_all and is_big(o)) else deep_fp(o)
            memo[id(o)] = h
        snap[name] = h
    return snap


def diff_snap(before, after):
    """Names whose binding or contents changed, new names in modules that existed before (submodule
    bindings created by an import are not a change)."""
    changed = []
    mods_before = {n.split(':', 1)[0] for n in before}
    for n, h in after.items():
        if n in before:
            if before[n] != h:
                changed.append(n)
        elif n.split(':', 1)[0] in mods_before and not h.startswith('mod:'):
            changed.append(n)
    for n in before:
        if n not in after:
            changed.append(n)
    return sorted(changed)


def describe(name):
    for n, o in shared_objects():
        if n == name:
            return scrub(repr(o))[:300]
    return '<gone>'


def shared_dict_ids():
    return {id(o) for _, o in shared_objects() if isinstance(o, dict)}


# ---- identity facts at the touch points (sys.setprofile: return events only)


class IdentityWatch(object):
    def __init__(self):
        self.violations = []
        self.checked = {'datatype_factory': 0, 'Group.__init__': 0, 'stale': 0}
        self.owners = {}
        self.shared_ids = set()

    def prof(self, frame, event, arg):
        if event != 'return':
            return
        code = frame.f_code
        if code.co_name == 'datatype_factory' and code.co_filename.endswith('factories.py'):
            loc = frame.f_locals
            if 'factories' in loc:
                self.checked['datatype_factory'] += 1
                f = loc['factories']
                if 'base_datatypes' in loc and f is loc['base_datatypes']:
                    self.violations.append(('factories is base_datatypes', 'hl7apy.factories:datatype_factory'))
                elif id(f) in self.shared_ids:
                    self.violations.append(('factories is a shared module-level dict', 'hl7apy.factories:datatype_factory'))
            elif 'lib' in loc:
                self.checked['stale'] += 1
        elif code.co_name == '__init__' and code.co_filename.endswith('core.py') and \
                code.co_qualname == 'Group.__init__':
            slf = frame.f_locals.get('self')
            if slf is None:
                return
            self.checked['Group.__init__'] += 1
            d = getattr(slf, '__dict__', {})
            cc = d.get('child_classes')
            if cc is None:
                if isinstance(getattr(slf, 'child_classes', None), dict):
                    self.violations.append(('child_classes is not an attribute of the instance',
                                            'hl7apy.core:Group.child_classes'))
                return
            ow = self.owners.get(id(cc))
            other = ow() if ow is not None else None
            if other is not None and other is not slf:
                self.violations.append(('two live instances share one child_classes dict',
                                        'hl7apy.core:Group.child_classes'))
            try:
                self.owners[id(cc)] = weakref.ref(slf)
            except TypeError:
                pass
            if len(self.owners) > 20000:
                self.owners.clear()


def sequential_pass(run, corpus, alone, deep_every=40):
    """Every corpus call in order, in this process, with a fingerprint of all shared state before
    and after, and the identity facts.  Returns statistics."""
    watch = IdentityWatch()
    stats = {'calls': 0, 'objects': 0, 'seq_differs_from_alone': [], 'deep_snapshots': 0}
    before = snapshot()
    deep_before = snapshot(deep_all=True)
    stats['deep_snapshots'] += 1
    since_deep = []
    for idx, d in enumerate(corpus):
        watch.shared_ids = shared_dict_ids() if idx % 25 == 0 else watch.shared_ids
        nviol = len(watch.violations)
        sys.setprofile(watch.prof)
        try:
            r = do_call(d)
        finally:
            sys.setprofile(None)
        stats['calls'] += 1
        after = snapshot()
        for name in diff_snap(before, after):
            run.fail('shared-state-mutated', 'a corpus call changed a process-wide object',
                     call=d, object=name, now=describe(name), how='fingerprint before/after the call')
        for what, obj in watch.violations[nviol:]:
            run.fail('shared-state-mutated', 'identity fact at a touch point is false: ' + what,
                     call=d, object=obj, how='touch point')
        if alone.get(key_of(d)) is not None and r != alone[key_of(d)]:
            stats['seq_differs_from_alone'].append(short(d))
        if d[0] == 'escape_shared' and r and r[0] == 'esc-shared' and r[2] is not True:
            run.fail('shared-state-mutated', 'encoding a value re-ordered the list of highlight ranges it was given (an object '
                     'the caller shares between values)', call=d, object='highlights list', now='re-ordered',
                     how='the caller\'s list after the call')
        if d[0] == 'retype' and r and r[0] == 'retype' and r[1] != r[4]:
            run.fail('shared-state-mutated', 'changing the datatype of one component changed what a fresh component of that '
                     'name is (the library structure is shared, not copied)', call=d, object='%s datatype' % d[2],
                     now='%s (was %s)' % (r[4], r[1]), how='fresh element after the call')
        before = after
        since_deep.append(d)
        if len(since_deep) >= deep_every or idx == len(corpus) - 1:
            deep_after = snapshot(deep_all=True)
            stats['deep_snapshots'] += 1
            ch = diff_snap(deep_before, deep_after)
            known = {f['data'].get('object') for f in run.failures if f['kind'] == 'shared-state-mutated'}
            for name in ch:
                if name not in known:
                    run.fail('shared-state-mutated', 'a process-wide table changed below its top level',
                             calls=[short(x) for x in since_deep[:5]], n_calls=len(since_deep), object=name,
                             now=describe(name), how='deep fingerprint over a block of calls')
            deep_before = deep_after
            since_deep = []
    stats['objects'] = len(before)
    stats['identity_checked'] = watch.checked
    return stats


# ------------------------------------------------------------------------------------------------
# (i) extraction of the action list of datatype_factory / load_library from the running code


class Extract(object):
    log = None
    nlocal = 0


def vname(v):
    if isinstance(v, str):
        return v
    return getattr(v, '__name__', None) or scrub(repr(v))[:60]


class TracedDict(dict):
    """A dict that records every operation performed on it; copies are traced too."""
    __slots__ = ('role',)

    def _rec(self, *op):
        if Extract.log is not None:
            Extract.log.append((op[0], self.role) + op[1:])

    def __contains__(self, k):
        r = dict.__contains__(self, k)
        self._rec('contains', k, r)
        return r

    def __getitem__(self, k):
        try:
            v = dict.__getitem__(self, k)
        except KeyError:
            self._rec('getitem', k, None)
            raise
        self._rec('getitem', k, vname(v))
        return v

    def get(self, k, default=None):
        self._rec('getitem', k, vname(dict.get(self, k)) if dict.__contains__(self, k) else None)
        return dict.get(self, k, default)

    def __setitem__(self, k, v):
        self._rec('setitem', k, vname(v))
        dict.__setitem__(self, k, v)

    def __delitem__(self, k):
        self._rec('mutate', '<del>', str(k))
        dict.__delitem__(self, k)

    def pop(self, *a):
        self._rec('mutate', '<pop>', str(a[:1]))
        return dict.pop(self, *a)

    def popitem(self):
        self._rec('mutate', '<popitem>', '')
        return dict.popitem(self)

    def setdefault(self, k, d=None):
        self._rec('mutate', '<setdefault>', str(k))
        return dict.setdefault(self, k, d)

    def update(self, *a, **kw):
        self._rec('mutate', '<update>', '')
        return dict.update(self, *a, **kw)

    def clear(self):
        self._rec('mutate', '<clear>', '')
        return dict.clear(self)

    def __iter__(self):
        self._rec('scan', '<iter>')
        return dict.__iter__(self)

    def keys(self):
        self._rec('scan', '<keys>')
        return dict.keys(self)

    def values(self):
        self._rec('scan', '<values>')
        return dict.values(self)

    def items(self):
        self._rec('scan', '<items>')
        return dict.items(self)

    def copy(self):
        n = TracedDict(dict.items(self))
        n.role = ('local', Extract.nlocal)
        Extract.nlocal += 1
        self._rec('copy', n.role)
        return n

    __copy__ = copy


class TracedImportlib(object):
    def __init__(self, real):
        self._real = real

    def import_module(self, name, package=None):
        try:
            m = self._real.import_module(name, package)
        except ImportError:
            if Extract.log is not None:
                Extract.log.append(('import', None, name, False))
            raise
        if Extract.log is not None:
            Extract.log.append(('import', None, name, True))
        return m

    def __getattr__(self, a):
        return getattr(self._real, a)


def coq_ref(role):
    if role[0] == 'shared':
        return '(RShared %s %s)' % (coq_str(role[1]), coq_str(role[2]))
    return '(RLocal %d)' % role[1]


def ops_to_coq(ops):
    ra, tr = [], []
    for op in ops:
        k, role = op[0], op[1]
        if k == 'contains':
            ra.append('RContains %s %s' % (coq_ref(role), coq_str(op[2])))
            tr.append('OHas %s' % coq_bool(op[3]))
        elif k == 'getitem':
            ra.append('RLookup %s %s' % (coq_ref(role), coq_str(op[2])))
            tr.append('OVal %s' % coq_opt(op[3], coq_str))
        elif k == 'setitem':
            ra.append('RWrite %s %s %s' % (coq_ref(role), coq_str(op[2]), coq_str(op[3])))
        elif k == 'mutate':
            ra.append('RWrite %s %s %s' % (coq_ref(role), coq_str(op[2]), coq_str(op[3])))
        elif k == 'scan':
            ra.append('RLookup %s %s' % (coq_ref(role), coq_str(op[2])))
        elif k == 'copy':
            ra.append('RCopy %s %d' % (coq_ref(role), op[2][1]))
        elif k == 'import':
            ra.append('RImport %s' % coq_str(op[2]))
            tr.append('OLib %s %s' % (coq_str(op[2]), coq_bool(op[3])))
    return '[' + '; '.join(ra) + ']', '[' + '; '.join(tr) + ']'


FACTORY_FUNCS = {'DT': 'date_factory', 'TM': 'timestamp_factory', 'DTM': 'datetime_factory',
                 'NM': 'numeric_factory', 'SI': 'sequence_id_factory'}


def expected_fallback(d):
    """Does the call take the TOLERANT fallback (factory raised ValueError)?  Computed by calling
    the selected factory directly, outside datatype_factory."""
    import hl7apy
    from hl7apy import factories as F
    _, dt, value, v, level = d
    if level != TOLERANT or v not in hl7apy.SUPPORTED_LIBRARIES:
        return False
    bdt = dict(hl7apy.load_library(v).get_base_datatypes())
    if dt not in bdt:
        return False
    try:
        if dt in FACTORY_FUNCS:
            getattr(F, FACTORY_FUNCS[dt])(value, bdt[dt], validation_level=level)
        else:
            bdt[dt](value, validation_level=level)
    except ValueError:
        return True
    except Exception:  # noqa
        return False
    return False


def extract_actions(run, corpus):
    """Run the factory / load calls with instrumented shared dicts; returns the case rows
    (call descriptor, Coq `call` term, observed ractions, observed trace, raw ops)."""
    import hl7apy
    calls = [d for d in corpus if d[0] in ('factory', 'load')]
    fallbacks = {key_of(d): expected_fallback(d) for d in calls if d[0] == 'factory'}
    saved = []
    rows = []
    try:
        sup = TracedDict(hl7apy.SUPPORTED_LIBRARIES)
        sup.role = ('shared', 'hl7apy', 'SUPPORTED_LIBRARIES')
        saved.append((hl7apy, 'SUPPORTED_LIBRARIES', hl7apy.SUPPORTED_LIBRARIES))
        hl7apy.SUPPORTED_LIBRARIES = sup
        saved.append((hl7apy, 'importlib', hl7apy.importlib))
        hl7apy.importlib = TracedImportlib(hl7apy.importlib)
        for v, modname in sorted(dict.items(sup)):
            lib = sys.modules.get(modname) or __import__(modname, fromlist=['x'])
            b = TracedDict(lib.BASE_DATATYPES)
            b.role = ('shared', modname, 'BASE_DATATYPES')
            saved.append((lib, 'BASE_DATATYPES', lib.BASE_DATATYPES))
            lib.BASE_DATATYPES = b
        for d in calls:
            Extract.log = []
            Extract.nlocal = 0
            try:
                do_call(d)
            finally:
                ops, Extract.log = Extract.log, None
            if d[0] == 'factory':
                _, dt, value, v, level = d
                lib = dict.get(sup, v)
                term = 'CFactory %s %s (keys_of %s) %s %s' % (coq_str(v), coq_opt(lib, coq_str), coq_str(v),
                                                             coq_str(dt), coq_bool(fallbacks[key_of(d)]))
            else:
                v = d[1]
                lib = dict.get(sup, v)
                term = 'CLoad %s %s' % (coq_str(v), coq_opt(lib, coq_str))
                # do_call reads the key set of BASE_DATATYPES after load_library returned: not part
                # of load_library
                ops = [o for o in ops if not (o[0] == 'scan')]
            ra, tr = ops_to_coq(ops)
            rows.append({'call': d, 'term': term, 'ractions': ra, 'trace': tr, 'ops': ops})
    finally:
        Extract.log = None
        for obj, attr, val in reversed(saved):
            setattr(obj, attr, val)
    return rows


CASE_HEADER = '''From Coq Require Import List Bool Arith Init.Byte.
From HL7 Require Import Lib.Str Model.Sched Properties.C19.
Import ListNotations.
Open Scope bs_scope.
Definition case := (call * list raction * list obs)%type.
Definition ok_actions (c : case) : bool :=
  match c with (cl, ra, _) => ractions_eqb (resolved [] 0 (prog_of cl)) ra end.
Definition ok_nowrites (c : case) : bool :=
  match c with (_, ra, _) => match rshared_writes ra with [] => true | _ => false end end.
Definition ok_trace (c : case) : bool :=
  match c with (cl, _, tr) => trace_eqb (solo_trace img0 S0 (prog_of cl)) tr end.
Definition ok_premises (c : case) : bool :=
  match c with (cl, _, _) =>
    no_shared_writes (init_threads [prog_of cl; prog_of cl]) &&
    imports_before_use img0 S0 (init_threads [prog_of cl]) end.
Fixpoint failing (f : case -> bool) (n : nat) (l : list case) : list nat :=
  match l with [] => [] | c :: r => (if f c then [] else [n]) ++ failing f (S n) r end.
Definition cases : list case := [
'''
CASE_FOOTER = '''].
Eval vm_compute in failing ok_actions 0 cases.
Eval vm_compute in failing ok_nowrites 0 cases.
Eval vm_compute in failing ok_trace 0 cases.
Eval vm_compute in failing ok_premises 0 cases.
(* premise 1 evaluated on what was OBSERVED, the first 80 calls taken as concurrent threads *)
Eval vm_compute in (if no_shared_writes_fp (List.map (fun c : case => rfootprint (snd (fst c))) (firstn 80 cases))
                    then @nil nat else [0]).
(* ... and on the model's action lists of the same calls *)
Eval vm_compute in (if no_shared_writes (init_threads (List.map (fun c : case => prog_of (fst (fst c))) (firstn 80 cases)))
                    then @nil nat else [0]).
'''


def correspondence(run, rows):
    text = CASE_HEADER + ';\n'.join('(%s, %s, %s)' % (r['term'], r['ractions'], r['trace']) for r in rows) + CASE_FOOTER
    (rc, out), = coq_eval_many([('c19_%d' % os.getpid(), text)])
    lists = parse_nat_lists(out)
    if rc != 0 or len(lists) != 6:
        run.disagree('sched-case-file', why='case file did not evaluate', output=out[-1200:])
        return 0
    names = ['action list of the code differs from the model (resolved (prog_of call))',
             'the observed action list writes a shared map',
             'observations (dict lookups / imports) differ from the model run',
             'the model action list of this call does not satisfy the premises']
    for k in range(4):
        for idx in lists[k][:10]:
            r = rows[idx]
            run.disagree('sched-' + ['actions', 'shared-write', 'trace', 'premises'][k], why=names[k],
                         call=r['call'], observed=[list(map(str, o)) for o in r['ops']][:40], model_call=r['term'])
    if lists[4]:
        run.disagree('sched-observed-premise', why='no_shared_writes is false on the observed action lists taken '
                     'as concurrent threads')
    if lists[5]:
        run.disagree('sched-model-premise', why='no_shared_writes is false on the model action lists of the corpus')
    return len(rows)


# ------------------------------------------------------------------------------------------------
# plans


def version_of(d):
    k = d[0]
    if k == 'factory':
        return d[3]
    if k in ('load',):
        return d[1]
    if k in ('isbase', 'segment'):
        return d[2]
    if k in ('build', 'escape', 'unnamed', 'escape_shared', 'retype'):
        return d[1]
    if k == 'parse':
        m = re.search(r'[|!]P[|!]([0-9.]+)', d[1]) or re.search(r'[|!]D[|!]([0-9.]+)', d[1])
        return m.group(1) if m else None
    return None


def points_for(d):
    k = d[0]
    if k == 'factory':
        return ['factory:copied', 'factory:chosen', 'factory:entry', 'load:named']
    if k == 'load':
        return ['load:named', 'load:imported', 'load:entry']
    if k == 'isbase':
        return ['load:named', 'load:imported']
    if k == 'parse':
        return ['to_er7:entry', 'factory:copied', 'group:init', 'validate:entry', 'load:named']
    if k == 'build':
        return ['group:init', 'factory:copied', 'to_er7:entry', 'validate:entry']
    if k == 'escape':
        return ['escape:entry', 'load:imported']
    if k == 'segment':
        return ['factory:copied', 'to_er7:entry', 'load:named']
    return ['load:named']


def is_cold_point(p):
    return p.startswith('load:')


def stress_assignments(run, corpus, n_threads, per, same_version_start=True):
    by_version = {}
    for d in corpus:
        by_version.setdefault(version_of(d), []).append(d)
    v0 = run.rng.choice([v for v in by_version if v in versions()])
    out = []
    for i in range(n_threads):
        calls = []
        if same_version_start and run.rng.random() < 0.75:
            calls.append(run.rng.choice(by_version[v0]))
        while len(calls) < per:
            calls.append(run.rng.choice(corpus))
        out.append(calls)
    return out


def forced_plan(run, corpus):
    """Forced-switch experiments: (calls, points, order) grouped into jobs (one forked child per job;
    a job whose touch points are inside load_library holds ONE experiment, so that the library is
    not imported yet when the threads meet there)."""
    rng = run.rng

    def F(dt, val, v, lvl):
        return ['factory', dt, val, v, lvl]
    texts = {v: dict(message_texts(v)) for v in ('2.3', '2.5', '2.7', '2.8.2')}
    pairs = [
        [F('DT', '20200101', '2.5', STRICT), F('DT', '20200101', '2.7', TOLERANT)],
        [F('DT', '20200101', '2.5', STRICT), F('ST', 'a|b', '2.5', STRICT)],
        [F('NM', 'abc', '2.1', TOLERANT), F('NM', 'abc', '2.1', STRICT)],
        [F('TM', '1204', '2.1', STRICT), F('TM', '1204', '2.8.2', STRICT)],
        [F('ST', 'a|b#c', '2.3', TOLERANT), F('ST', 'a|b#c', '2.8', TOLERANT)],
        [['load', '2.5'], ['load', '2.5']],
        [['load', '2.3'], ['load', '2.6']],
        [F('SI', '7', '2.4', STRICT), ['load', '2.4']],
        [['isbase', 'DTM', '2.2'], F('DTM', '2020', '2.2', TOLERANT)],
        [['parse', texts['2.5']['alt'], TOLERANT, True], ['parse', texts['2.7']['adt'], TOLERANT, True]],
        [['parse', texts['2.3']['alt'], TOLERANT, False], ['parse', texts['2.3']['oru'], TOLERANT, True]],
        [['parse', texts['2.5']['oru'], STRICT, True], ['build', '2.5', TOLERANT, 'adt']],
        [['parse', texts['2.8.2']['oru'], TOLERANT, True], F('NM', '12.5', '2.8.2', STRICT)],
        [['build', '2.4', STRICT, 'adt'], ['build', '2.6', TOLERANT, 'oru']],
        [['escape', '2.5', 'ST', 'ab|cd^ef!gh@i', [[5, 6], [0, 1]], 'alt'],
         ['escape', '2.7', 'ST', 'ab|cd^ef!gh@i', [[5, 6], [0, 1]], 'default']],
        [['segment', 'OBX|1|NM|GLU||12.5', '2.5', STRICT], ['parse', texts['2.5']['alt'], TOLERANT, True]],
    ]
    for _ in range(24 if not run.thorough else 120):
        a, b = rng.choice(corpus), rng.choice(corpus)
        if key_of(a) != key_of(b):
            pairs.append([a, b])
    jobs = []
    orders2 = [list(o) for o in interleavings(2)]
    for a, b in pairs:
        pa_all = points_for(a)
        npts = len(pa_all) if run.thorough else min(4, len(pa_all))
        for pa in pa_all[:npts]:
            pb_all = points_for(b)
            pb = pa if pa in pb_all else rng.choice(pb_all)
            exps = [{'calls': [a, b], 'points': [pa, pb], 'order': o} for o in orders2]
            if is_cold_point(pa) or is_cold_point(pb):
                jobs += [{'exps': [e]} for e in exps]
            else:
                jobs.append({'exps': exps})
    orders3 = [list(o) for o in interleavings(3)]
    triples = [
        ([F('DT', '20200101', '2.5', STRICT), F('DT', '20200101', '2.7', TOLERANT), F('NM', 'abc', '2.1', TOLERANT)],
         ['factory:copied'] * 3, False),
        ([['parse', texts['2.5']['alt'], TOLERANT, True], ['parse', texts['2.7']['adt'], TOLERANT, True],
          ['build', '2.3', TOLERANT, 'adt']], ['to_er7:entry', 'to_er7:entry', 'group:init'], False),
        ([['load', '2.5'], ['load', '2.5'], F('ST', 'x', '2.5', STRICT)], ['load:named'] * 3, True),
    ]
    for calls, pts, cold in triples:
        os3 = orders3 if run.thorough else rng.sample(orders3, 30 if not cold else 15)
        exps = [{'calls': calls, 'points': pts, 'order': o} for o in os3]
        if cold:
            jobs += [{'exps': [e]} for e in exps]
        else:
            jobs.append({'exps': exps})
    return jobs


# ------------------------------------------------------------------------------------------------
# comparison


class Compare(object):
    def __init__(self, run, alone):
        self.run = run
        self.alone = alone
        self.compared = 0
        self.concurrent_keys = set()
        self.reported = set()
        self.failing = []

    def check(self, d, got, mode, context):
        k = key_of(d)
        exp = self.alone.get(k)
        if exp is None or got is None:
            return
        self.compared += 1
        if got != exp:
            self.failing.append((d, context))
            sig = (k, mode)
            if sig in self.reported and len(self.reported) > 3:
                return
            self.reported.add(sig)
            if isinstance(got, list) and got[:1] == ['exc'] and '_DeadlockError' in str(got[1]):
                self.run.fail('concurrent-import-deadlock',
                              'a call run while another thread was importing a version library raised the import '
                              "system's _DeadlockError instead of returning what it returns alone",
                              call=d, mode=mode, got_exception=got[1], expected=exp, got=got, context=context)
                return
            self.run.fail('concurrent-result-differs',
                          'a call run concurrently returned something else than the same call run alone',
                          call=d, mode=mode, expected=exp, got=got, context=context)


def minimise(run, cmp, alone):
    """For calls that differed: look for a single other call X such that `X; call` in one fresh
    process already differs from `call` alone (a deterministic two-call witness)."""
    seen = set()
    jobs = []
    for d, ctx in cmp.failing:
        if key_of(d) in seen or len(seen) >= 4:
            continue
        seen.add(key_of(d))
        others = []
        for x in ctx.get('others', []):
            if key_of(x) != key_of(d) and key_of(x) not in {key_of(o) for o in others}:
                others.append(x)
        for x in others[:24]:
            jobs.append({'first': x, 'then': d})
    if not jobs:
        return
    res = fork_map(jobs, lambda j: [do_call(j['first']), do_call(j['then'])], timeout=120)
    for j, (st, val) in zip(jobs, res):
        if st == 'ok' and val[1] != alone.get(key_of(j['then'])):
            run.fail('concurrent-result-differs',
                     'two-call witness: after the first call the second call no longer returns what it returns alone '
                     '(any schedule in which the first call comes first fails)',
                     call=j['then'], mode='sequence', first=j['first'], expected=alone.get(key_of(j['then'])),
                     got=val[1], context={})
            return


# ------------------------------------------------------------------------------------------------


ASSUMPTIONS = [
    'the Coq model (Model/Sched.v) treats one dict operation / one import as ONE atomic action: interleaving at '
    'bytecode level inside an action, the import lock (a thread seeing a partially executed module) and CPython '
    'dict internals (resize during iteration, GIL-free builds) cannot be exhibited by the model; they are only '
    'observed by the stress and forced-switch runs on this CPython build',
    'the non-interference theorem covers the map operations on the shared objects named in the model '
    '(SUPPORTED_LIBRARIES, BASE_DATATYPES per version, the library table) and thread-private maps; the rest of a '
    'call (parsing, validation, datatype construction) is covered by the fingerprints (no process-wide object '
    'changes) and by the differential runs, not by the proof',
    'the action lists of datatype_factory and load_library are extracted from the running code by instrumented '
    'dict / importlib objects (C-level accesses that bypass dict subclass methods would not be seen); the action '
    'lists of Group.__init__ and _escape_value are asserted in the model and checked only through identity facts '
    '(sys.setprofile) and fingerprints',
    'real interleavings are sampled (switch interval 1e-6, 2..16 threads) and forced only at the listed touch '
    'points (one split per thread); this is not an exhaustive exploration of CPython schedules',
    '"run alone" = the call executed as the only call of a freshly forked process that has imported hl7apy and '
    'nothing else',
]


def main(argv=None):
    run = Run('C19', argv)
    if run.replay:
        return replay(run)
    ok = run.build(['Properties/C19.vo'], gen=('params',), obligation_files=['Properties/C19.v'])
    if ok:
        run.print_assumptions('Properties.C19', [n for n, _ in theorems_of('Properties/C19.v')])
    import hl7apy  # noqa - the package only; version libraries stay unloaded until a call needs them
    import hl7apy.core, hl7apy.parser, hl7apy.validation, hl7apy.factories  # noqa
    corpus = build_corpus(run)
    keys = [key_of(d) for d in corpus]
    run.log('corpus: %d calls' % len(corpus))
    infra = []

    # ---- the same call run alone
    extra = []
    fjobs = forced_plan(run, corpus)
    known_keys = set(keys)
    for d in [d for j in fjobs for e in j['exps'] for d in e['calls']] + \
            [d for j in import_probe_plan() for d in (j['x'], j['y'])]:
        if key_of(d) not in known_keys:
            known_keys.add(key_of(d))
            extra.append(d)
    everything = corpus + extra
    res = fork_map(everything, do_call, timeout=120)
    alone = {}
    for d, (st, val) in zip(everything, res):
        if st == 'ok':
            alone[key_of(d)] = val
        else:
            infra.append('alone run of %s: %s' % (short(d), st))
    run.log('alone: %d calls each in its own process (%d unusable)' % (len(everything), len(everything) - len(alone)))
    # determinism of "alone": a sample is run a second time
    again = run.rng.sample(everything, min(40, len(everything)))
    for d, (st, val) in zip(again, fork_map(again, do_call, timeout=120)):
        if st == 'ok' and key_of(d) in alone and val != alone[key_of(d)]:
            infra.append('alone result not reproducible, call excluded: %s' % short(d))
            del alone[key_of(d)]
    cmp = Compare(run, alone)

    # ---- cold concurrent rounds + forced schedules (fresh processes)
    n_cold = 10 if not run.thorough else 48
    cold_jobs = []
    for r in range(n_cold):
        n = 2 + (r * 5) % 15
        cold_jobs.append({'threads': stress_assignments(run, corpus, n, 5 if not run.thorough else 8),
                          'timeout': 120})
    # first use of a version from several threads at once, one of them through an unnamed element / is_base_datatype
    vs_all = versions()
    for v in (vs_all if run.thorough else run.rng.sample(vs_all, 5)):
        firsts = [d for d in corpus if d[0] in ('parse', 'build', 'segment') and version_of(d) == v][:2]
        cold_jobs.append({'threads': [[['load', v]] + firsts[:1], [['unnamed', v]], [['isbase', 'ST', v]], [['unnamed', v]] + firsts[1:2]],
                          'timeout': 120, 'first_use_of': v})
    cjobs = []
    for ver, lvl, ecs in (('2.3', STRICT, {'FIELD': '!', 'COMPONENT': '@', 'SUBCOMPONENT': '$', 'REPETITION': '%', 'ESCAPE': '/',
                                           'SEGMENT': '\r', 'GROUP': '\r'}),
                          ('2.6', TOLERANT, {'FIELD': '#', 'COMPONENT': ':', 'SUBCOMPONENT': '=', 'REPETITION': ';', 'ESCAPE': '?',
                                             'SEGMENT': '\r', 'GROUP': '\r'})):
        cjobs.append({'version': ver, 'level': lvl, 'ec': ecs, 'calls': [['implicit'], ['implicit']], 'n': 4})
    t0 = time.time()
    pjobs = import_probe_plan()
    workers = {'cold': cold_worker, 'forced': forced_worker, 'probe': import_probe_worker}
    hjobs = []
    if hasattr(sys, 'monitoring'):
        for v in (vs_all if run.thorough else run.rng.sample(vs_all, 4)):
            for x in (['unnamed', v], ['isbase', 'ST', v]):
                hjobs.append({'pkg': 'v' + v.replace('.', '_'), 'x': x, 'y': ['load', v]})
    half_res = fork_map(hjobs, half_import_worker, timeout=120)
    for j, (st, val) in zip(hjobs, half_res):
        if st != 'ok' or val['hung'] or not val['y_reached']:
            infra.append('half-import round %s did not run as planned (%s)' % (j['pkg'], st))
            continue
        for d, got in zip((j['x'], j['y']), val['results']):
            cmp.concurrent_keys.add(key_of(d))
            cmp.check(d, got, 'forced-import', {'half_import_of': j['pkg'], 'others': [j['x'], j['y']]})
    run.log('half-import rounds: %d planned, %d ran as planned' % (len(hjobs), sum(1 for st, val in half_res if st == 'ok' and val
                                                                                 and val.get('y_reached') and not val.get('hung'))))
    conf_res = fork_map(cjobs, configured_worker, timeout=120)
    for j, (st, val) in zip(cjobs, conf_res):
        if st != 'ok' or val['hung']:
            infra.append('configured round (%s) did not finish (%s)' % (j['version'], st))
            continue
        for th in val['results']:
            for k, got in enumerate(th):
                cmp.compared += 1
                if got != val['alone'][k]:
                    run.fail('concurrent-result-differs', 'a call that takes version, level and delimiters from the process-wide '
                             'defaults returns something else in a worker thread than in the thread that set the defaults',
                             call=j['calls'][k], alone=val['alone'][k], concurrent=got, mode='configured-defaults',
                             configuration=[j['version'], j['level'], ''.join(j['ec'][x] for x in ('FIELD', 'COMPONENT', 'REPETITION', 'ESCAPE', 'SUBCOMPONENT'))])
    both = fork_map([('cold', j) for j in cold_jobs] + [('forced', j) for j in fjobs] + [('probe', j) for j in pjobs],
                    lambda kj: workers[kj[0]](kj[1]), timeout=240)
    cold_res, forced_res = both[:len(cold_jobs)], both[len(cold_jobs):len(cold_jobs) + len(fjobs)]
    probe_res = both[len(cold_jobs) + len(fjobs):]
    n_probe = 0
    for j, (st, val) in zip(pjobs, probe_res):
        if st != 'ok' or val['hung']:
            infra.append('import-order probe %s/%s did not finish (%s)' % (j['ypkg'], j['xpkg'], st))
            continue
        if not val['y_reached']:
            continue
        n_probe += 1
        for d, got in zip((j['x'], j['y']), val['results']):
            cmp.concurrent_keys.add(key_of(d))
            cmp.check(d, got, 'forced-import', {'probe': j, 'x_reached': val['x_reached'], 'others': [j['x'], j['y']]})
    n_conc_calls = 0
    hang_jobs = []
    for j, (st, val) in zip(cold_jobs, cold_res):
        if st != 'ok':
            hang_jobs.append(('cold', j, st))
            continue
        if val['hung']:
            hang_jobs.append(('cold', j, 'hung threads %s' % val['hung']))
        flat = [d for th in j['threads'] for d in th]
        for i, th in enumerate(j['threads']):
            for k, d in enumerate(th):
                n_conc_calls += 1
                cmp.concurrent_keys.add(key_of(d))
                cmp.check(d, val['results'][i][k], 'cold-stress',
                          {'threads': len(j['threads']), 'thread': i, 'position': k, 'others': flat[:60]})
    reach = {}
    n_forced = 0
    forced_samples = []
    for j, (st, val) in zip(fjobs, forced_res):
        if st != 'ok':
            hang_jobs.append(('forced', j, st))
            continue
        for e, r in zip(j['exps'], val):
            n_forced += 1
            if r['broken'] or r['hung']:
                hang_jobs.append(('forced', {'exps': [e]}, 'schedule broken / hung'))
                continue
            for i, d in enumerate(e['calls']):
                n_conc_calls += 1
                cmp.concurrent_keys.add(key_of(d))
                st_ = reach.setdefault(e['points'][i], [0, 0])
                st_[0] += 1
                st_[1] += 1 if r['reached'][i] else 0
                cmp.check(d, r['results'][i], 'forced', {'schedule': e, 'reached': r['reached'], 'others': e['calls']})
                for fct in r['facts'][i]:
                    if fct.get('factories_is_base_datatypes'):
                        run.fail('shared-state-mutated', 'identity fact at a touch point is false: factories is '
                                 'base_datatypes', call=d, object='hl7apy.factories:datatype_factory',
                                 how='touch point (forced schedule)')
            if len(forced_samples) < 3 and all(r['reached']):
                forced_samples.append({'calls': [short(d) for d in e['calls']], 'points': e['points'],
                                       'order': e['order'], 'results_equal_alone': all(
                                           r['results'][i] == alone.get(key_of(d)) for i, d in enumerate(e['calls']))})
    run.log('cold rounds %d, forced experiments %d (%d jobs) in %.1fs; %d comparisons, %d differ'
            % (len(cold_jobs), n_forced, len(fjobs), time.time() - t0, cmp.compared, len(cmp.failing)))
    for p in CRITICAL_TOUCH:
        if p in reach and reach[p][1] == 0:
            run.disagree('touch-point', why='touch point never reached: the code no longer has the shape the check '
                         'locates it by', point=p, located_by=list(map(str, TOUCH[p])), experiments=reach[p][0])
    # hangs: reproduce three times before calling it a finding
    if hang_jobs:
        kind, j, why = hang_jobs[0]
        infra.append('%d job(s) did not finish (%s: %s); first one re-run 3 times' % (len(hang_jobs), kind, why))
        rr = fork_map([(kind, j)] * 3, lambda kj: cold_worker(kj[1]) if kj[0] == 'cold' else forced_worker(kj[1]),
                      timeout=240)
        bad = 0
        for st, val in rr:
            if st != 'ok':
                bad += 1
            elif kind == 'cold' and val['hung']:
                bad += 1
            elif kind == 'forced' and any(r['hung'] for r in val):
                bad += 1
        if bad == 3:
            run.fail('concurrent-call-hangs', 'concurrent calls did not finish, three times out of three',
                     mode=kind, job=j, why=why)

    # ---- sequential pass in this process: fingerprints + identity facts
    t0 = time.time()
    seq = sequential_pass(run, corpus, alone, deep_every=60 if not run.thorough else 25)
    run.log('sequential pass: %d calls, %d shared objects fingerprinted around each, identity facts %s, %.1fs'
            % (seq['calls'], seq['objects'], seq['identity_checked'], time.time() - t0))
    if seq['identity_checked']['datatype_factory'] == 0 or seq['identity_checked']['Group.__init__'] == 0:
        run.disagree('touch-point', why='identity facts could not be evaluated (names not found)',
                     checked=seq['identity_checked'])

    # ---- extraction + Coq
    t0 = time.time()
    rows = extract_actions(run, corpus)
    validated = correspondence(run, rows)
    run.log('extraction: %d action lists compared inside Coq, %d disagreements, %.1fs'
            % (validated, len(run.disagreements), time.time() - t0))

    # ---- warm stress in this process
    t0 = time.time()
    n_warm = 40 if not run.thorough else 160
    budget = 25 if not run.thorough else 150
    warm_done = 0
    for r in range(n_warm):
        if time.time() - t0 > budget:
            break
        n = 2 + (r * 3) % 15
        asg = stress_assignments(run, corpus, n, 5 if not run.thorough else 7, same_version_start=False)
        before = snapshot()
        results, hung = run_threads(asg, 1e-6, join_timeout=120)
        if hung:
            infra.append('warm round %d: threads %s did not finish; warm rounds stopped' % (r, hung))
            break
        warm_done += 1
        for name in diff_snap(before, snapshot()):
            run.fail('shared-state-mutated', 'a concurrent round changed a process-wide object', object=name,
                     now=describe(name), how='fingerprint before/after a warm round', call=None)
        flat = [d for th in asg for d in th]
        for i, th in enumerate(asg):
            for k, d in enumerate(th):
                n_conc_calls += 1
                cmp.concurrent_keys.add(key_of(d))
                cmp.check(d, results[i][k], 'warm-stress',
                          {'threads': n, 'thread': i, 'position': k, 'round': r, 'others': flat[:60]})
    run.log('warm rounds %d in %.1fs; %d comparisons so far, %d differ' % (warm_done, time.time() - t0, cmp.compared,
                                                                           len(cmp.failing)))
    if cmp.failing and not any(threading.enumerate()[1:]):
        minimise(run, cmp, alone)
    for s in infra[:8]:
        run.note('infrastructure: ' + s)
    # keep at most 3 failures per (kind, object / call); most concrete witnesses first
    prio = {'sequence': 0, 'forced': 1, 'forced-import': 1}
    seen_f = {}
    kept = []
    for f in sorted(run.failures, key=lambda f: prio.get(f['data'].get('mode'), 2)):
        k = (f['kind'], f['data'].get('object') or key_of(f['data'].get('call')), f['data'].get('how') or f['data'].get('mode'))
        seen_f[k] = seen_f.get(k, 0) + 1
        if seen_f[k] <= 3:
            kept.append(f)
    dropped = len(run.failures) - len(kept)
    run.failures = kept
    if dropped:
        run.note('%d further oracle failures of the same (kind, object/call, mechanism) not listed' % dropped)
    sample_row = rows[0] if rows else None
    run.finish({
        'evaluations': len(everything) + len(again) + n_conc_calls + seq['calls'] + len(rows),
        'distinct_nontrivial': len(cmp.concurrent_keys),
        'rule': 'a case is one corpus call (datatype_factory for DT/TM/DTM/NM/SI/ST... of every version, both levels, '
                'valid and invalid values; load_library; is_base_datatype; parse_message + to_er7 + validate of ADT/ORU/'
                'malformed/custom-delimiter messages of every version; Message building + to_er7 + validate; '
                'parse_segment; textual datatypes with highlights). Each is run alone (fresh process), sequentially '
                'with fingerprints, and concurrently (cold forked rounds, warm rounds with 2..16 threads at switch '
                'interval 1e-6, forced schedules at touch points); distinct_nontrivial = distinct call descriptors '
                'that ran concurrently with other calls and were compared with their alone result',
        'samples': [{'extracted_action_list': {'call': short(sample_row['call']), 'model_call': sample_row['term'],
                                               'observed': [list(map(str, o)) for o in sample_row['ops']]}}
                    if sample_row else {}] + forced_samples,
        'traces_validated_against_impl': validated,
        'corpus_calls': len(corpus),
        'corpus_by_kind': {k: sum(1 for d in corpus if d[0] == k) for k in sorted({d[0] for d in corpus})},
        'alone_runs': len(alone),
        'cold_rounds': len(cold_jobs),
        'warm_rounds': warm_done,
        'forced_experiments': n_forced,
        'import_order_probes': n_probe,
        'cross_version_imports': [list(x) for x in cross_version_imports()],
        'touch_points_reached': {p: {'experiments': v[0], 'reached': v[1]} for p, v in sorted(reach.items())},
        'concurrent_comparisons': cmp.compared,
        'concurrent_differences': len(cmp.failing),
        'shared_objects_fingerprinted': seq['objects'],
        'identity_facts_checked': seq['identity_checked'],
        'sequential_differs_from_alone': seq['seq_differs_from_alone'][:10],
        'python': sys.version.split()[0],
    }, assumptions=ASSUMPTIONS)


def replay(run):
    r = json.load(open(run.replay))
    inp = r.get('input', {})
    kind = r.get('kind')
    import hl7apy  # noqa
    import hl7apy.core, hl7apy.parser, hl7apy.validation, hl7apy.factories  # noqa
    d = inp.get('call')
    n = 0
    if kind in ('concurrent-result-differs', 'concurrent-import-deadlock') and d is not None:
        (st, exp), = fork_map([d], do_call, timeout=120)
        alone = {key_of(d): exp} if st == 'ok' else {}
        cmp = Compare(run, alone)
        mode = inp.get('mode')
        if mode == 'forced':
            e = inp['context']['schedule']
            for x in e['calls']:
                (s2, v2), = fork_map([x], do_call, timeout=120)
                if s2 == 'ok':
                    alone[key_of(x)] = v2
            (st, val), = fork_map([{'exps': [e]}], forced_worker, timeout=240)
            if st == 'ok':
                for i, x in enumerate(e['calls']):
                    n += 1
                    cmp.check(x, val[0]['results'][i], 'forced', {'schedule': e})
        elif mode == 'forced-import':
            j = inp['context']['probe']
            for x in (j['x'], j['y']):
                (s2, v2), = fork_map([x], do_call, timeout=120)
                if s2 == 'ok':
                    alone[key_of(x)] = v2
            (st, val), = fork_map([j], import_probe_worker, timeout=240)
            if st == 'ok':
                for x, got in zip((j['x'], j['y']), val['results']):
                    n += 1
                    cmp.check(x, got, 'forced-import', {'probe': j})
        elif mode == 'sequence':
            (st, val), = fork_map([0], lambda _: [do_call(inp['first']), do_call(d)], timeout=120)
            n += 1
            if st == 'ok':
                cmp.check(d, val[1], 'sequence', {'first': inp['first']})
        else:
            others = inp.get('context', {}).get('others', [])
            nthreads = max(2, min(8, inp.get('context', {}).get('threads', 4)))
            for attempt in range(10):
                asg = [[d]] + [[o for o in others[i::nthreads - 1]][:6] or [d] for i in range(nthreads - 1)]
                (st, val), = fork_map([{'threads': asg}], cold_worker, timeout=240)
                n += 1
                if st == 'ok':
                    cmp.check(d, val['results'][0][0], 'cold-stress', {'attempt': attempt})
                if run.failures:
                    break
    elif kind == 'shared-state-mutated' and d is not None:
        for v in versions():
            hl7apy.load_library(v)
        sequential_pass(run, [d], {})
        n += 1
    for f in run.failures:
        print('replayed failure:', f['kind'], json.dumps(f['data'], default=str)[:600])
    if not run.failures:
        print('replay: the stored case did not fail this time')
    run.finish({'evaluations': max(n, 1), 'distinct_nontrivial': 2, 'rule': 'replay of one stored case',
                'samples': [{'kind': kind, 'call': short(d) if d else None}]}, assumptions=ASSUMPTIONS)


if __name__ == '__main__':
    from common import run_guarded
    run_guarded('C19', main)
