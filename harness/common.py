"""Shared machinery of the hl7apy verification checks.

One check run = Run(property id):
  build()        regenerate coq/Gen from /repo, (re)build the Coq targets of the property under a
                 lock; a failed build is a broken proof obligation (recorded, not fatal here)
  coq_eval()     evaluate generated case files inside coqc (vm_compute) - the correspondence runs
  fail()         the implementation-side oracle found an input on which the property fails
  disagree()     model and implementation differ on an input (correspondence)
  finish()       classify against known_findings.json, write replays + evidence, print the
                 KNOWN-FINDING / VIOLATION lines, exit 0/1
"""
import fcntl
import hashlib
import json
import os
import random
import re
import subprocess
import sys
import time
from concurrent.futures import ThreadPoolExecutor

ROOT = os.path.dirname(os.path.dirname(os.path.abspath(__file__)))
COQ = os.path.join(ROOT, 'coq')
REPO = os.environ.get('HL7APY_REPO', '/repo')
PY = '/venv/bin/python'
NPROC = int(os.environ.get('VERIF_JOBS', '16'))

TRUSTED_BASE_COMMON = [
    'Coq 8.16.1 kernel and its vm_compute evaluator (no native_compute)',
    'translator harness/gen_*.py (imports /repo and serialises tables/constants into coq/Gen)',
    'correspondence harness: input generators, observation canonicaliser, case-file writer (harness/*.py)',
    'the hand-written Gallina model (coq/Model) is modelled, not verified, code; it is tied to /repo by the correspondence run of this check',
]


def child_env():
    env = dict(os.environ)
    env['PYTHONPATH'] = REPO
    env['PYTHONHASHSEED'] = '0'
    env['PIP_NO_INDEX'] = '1'
    return env


def use_repo():
    """Make `import hl7apy` resolve to /repo in this process."""
    if REPO not in sys.path[:1]:
        sys.path.insert(0, REPO)


# ----------------------------------------------------------------------------------------------
# Coq project handling


def v_files():
    out = []
    for d, _, fs in os.walk(COQ):
        rel = os.path.relpath(d, COQ)
        if rel.startswith('Cases') or rel.startswith('.'):
            continue
        for f in fs:
            if f.endswith('.v') and not f.startswith('.'):
                out.append(os.path.normpath(os.path.join(rel, f)))
    return sorted(out)


COQ_ARGS = ['-arg', '-w', '-arg',
            '-notation-overridden,-deprecated-hint-without-locality,-deprecated-instance-without-locality,'
            '-deprecated-syntactic-definition,-abstract-large-number']


def ensure_makefile():
    proj = '-R . HL7\n' + ' '.join(COQ_ARGS) + '\n' + '\n'.join(v_files()) + '\n'
    p = os.path.join(COQ, '_CoqProject')
    old = open(p).read() if os.path.exists(p) else None
    if old != proj or not os.path.exists(os.path.join(COQ, 'Makefile')):
        with open(p, 'w') as f:
            f.write(proj)
        subprocess.run(['coq_makefile', '-f', '_CoqProject', '-o', 'Makefile'], cwd=COQ, check=True,
                       stdout=subprocess.DEVNULL, stderr=subprocess.DEVNULL)


class BuildLock(object):
    def __enter__(self):
        self.f = open(os.path.join(COQ, '.buildlock'), 'w')
        fcntl.flock(self.f, fcntl.LOCK_EX)
        return self

    def __exit__(self, *a):
        fcntl.flock(self.f, fcntl.LOCK_UN)
        self.f.close()


GENERATORS = {
    'params': 'gen_params.py',
    'tables': 'gen_tables.py',
}


def regenerate(which):
    logs = []
    for g in which:
        r = subprocess.run([PY, os.path.join(ROOT, 'harness', GENERATORS[g])], env=child_env(),
                           capture_output=True, text=True, timeout=600)
        logs.append(r.stdout.strip())
        if r.returncode != 0:
            raise RuntimeError('translator %s failed:\n%s\n%s' % (g, r.stdout, r.stderr))
    return logs


THEOREM_RE = re.compile(r'^\s*(Theorem|Lemma|Example|Corollary|Fact)\s+([A-Za-z0-9_\']+)', re.M)


def theorems_of(relpath):
    p = os.path.join(COQ, relpath)
    if not os.path.exists(p):
        return []
    text = open(p).read()
    out = []
    for m in THEOREM_RE.finditer(text):
        out.append((m.group(2), text.count('\n', 0, m.start()) + 1))
    return out


def make(targets, timeout=1500):
    ensure_makefile()
    cmd = ['timeout', str(timeout), 'make', '-j%d' % NPROC, '-k'] + targets
    r = subprocess.run(cmd, cwd=COQ, capture_output=True, text=True)
    return r.returncode, r.stdout + '\n' + r.stderr


ERR_RE = re.compile(r'File "\./([^"]+)", line (\d+), characters [^\n]*\n((?:.*\n){0,12}?)(?=File "|make|\Z)')


def parse_make_errors(out):
    errs = []
    for m in ERR_RE.finditer(out):
        if 'Error' in m.group(3) or 'error' in m.group(3):
            errs.append({'file': m.group(1), 'line': int(m.group(2)), 'message': m.group(3).strip()[:600]})
    return errs


def enclosing_theorem(relpath, line):
    best = None
    for name, ln in theorems_of(relpath):
        if ln <= line:
            best = name
    return best


# ----------------------------------------------------------------------------------------------
# running case files


def coq_eval(name, text, timeout=900, keep=False):
    """Compile one generated file with coqc and return (returncode, stdout+stderr)."""
    d = os.path.join(COQ, 'Cases')
    os.makedirs(d, exist_ok=True)
    base = os.path.join(d, name)
    with open(base + '.v', 'w') as f:
        f.write(text)
    try:
        r = subprocess.run(['timeout', str(timeout), 'coqc', '-R', COQ, 'HL7', '-w', 'none', base + '.v'],
                           capture_output=True, text=True)
        return r.returncode, r.stdout + r.stderr
    finally:
        if not keep:
            for ext in ('.v', '.vo', '.vok', '.vos', '.glob'):
                try:
                    os.remove(base + ext)
                except OSError:
                    pass
            try:
                os.remove(os.path.join(d, '.' + name + '.aux'))
            except OSError:
                pass


def coq_eval_many(files, timeout=900, jobs=None):
    """files: list of (name, text). Returns list of (returncode, output) in order."""
    with ThreadPoolExecutor(max_workers=jobs or NPROC) as ex:
        return list(ex.map(lambda nt: coq_eval(nt[0], nt[1], timeout), files))


NATLIST_RE = re.compile(r'=\s*(\[[^\]]*\])\s*:\s*list nat', re.S)


def parse_nat_lists(out):
    res = []
    for m in NATLIST_RE.finditer(out):
        res.append([int(x) for x in re.findall(r'\d+', m.group(1))])
    return res


def shard(xs, n):
    return [xs[i:i + n] for i in range(0, len(xs), n)]


# ----------------------------------------------------------------------------------------------
# known findings


def load_known():
    p = os.path.join(ROOT, 'known_findings.json')
    if not os.path.exists(p):
        return []
    return json.load(open(p)).get('findings', [])


def matches(entry, prop, kind, data):
    if entry.get('property') != prop:
        return False
    m = entry.get('match', {})
    if m.get('kind') != kind:
        return False
    for k, v in m.get('where', {}).items():
        dv = data.get(k)
        if isinstance(v, list):
            if dv not in v:
                return False
        elif dv != v:
            return False
    return True


# ----------------------------------------------------------------------------------------------


class Run(object):
    def __init__(self, prop, argv=None, level='proof'):
        self.prop = prop
        self.level = level
        self.t0 = time.time()
        argv = list(sys.argv[1:] if argv is None else argv)
        self.tier = os.environ.get('VERIF_TIER', 'quick')
        self.replay = None
        i = 0
        while i < len(argv):
            if argv[i] == '--tier':
                self.tier = argv[i + 1]
                i += 2
            elif argv[i] == '--replay':
                self.replay = argv[i + 1]
                i += 2
            else:
                i += 1
        if self.tier not in ('quick', 'thorough'):
            self.tier = 'quick'
        self.seed = int(os.environ.get('VERIF_SEED', '20260927'))
        self.rng = random.Random(self.seed)
        self.obligations = 0
        self.discharged = 0
        self.broken = []          # broken proof obligations (file, theorem, message)
        self.assumptions_printed = []
        self.failures = []        # oracle failures (property fails on the implementation)
        self.disagreements = []   # model vs implementation
        self.notes = []
        self.checker_cmd = ''
        self.gen_logs = []
        self.known = load_known()

    @property
    def thorough(self):
        return self.tier == 'thorough'

    def log(self, msg):
        print('[%s %6.1fs] %s' % (self.prop, time.time() - self.t0, msg), flush=True)

    # -- proof obligations -------------------------------------------------------------------
    def build(self, targets, gen=('params',), obligation_files=None, timeout=1500):
        """Regenerate Gen/, build `targets` (paths of .vo relative to coq/).  Returns True when
        every obligation was discharged."""
        obligation_files = obligation_files or [t[:-1] for t in targets]
        with BuildLock():
            self.gen_logs = regenerate(gen)
            rc, out = make(targets, timeout)
        self.checker_cmd = 'make -C coq -j%d %s  (after regenerating coq/Gen from /repo)' % (NPROC, ' '.join(targets))
        names = []
        for f in obligation_files:
            names += [(f, n) for n, _ in theorems_of(f)]
        self.obligations = len(names)
        if rc == 0:
            self.discharged = len(names)
            return True
        errs = parse_make_errors(out)
        broken_files = set()
        for e in errs:
            thm = enclosing_theorem(e['file'], e['line'])
            self.broken.append({'file': e['file'], 'line': e['line'], 'theorem': thm, 'message': e['message']})
            broken_files.add(e['file'])
        if not errs:
            self.broken.append({'file': '?', 'line': 0, 'theorem': None,
                                'message': 'make failed (rc=%d): %s' % (rc, out[-1500:])})
        # an obligation counts as discharged only if its file compiled
        ok = 0
        for f, n in names:
            if os.path.exists(os.path.join(COQ, f + 'o')) and f not in broken_files and \
                    os.path.getmtime(os.path.join(COQ, f + 'o')) >= os.path.getmtime(os.path.join(COQ, f)):
                ok += 1
        self.discharged = ok
        self.log('BUILD FAILED: %s' % json.dumps(self.broken)[:1500])
        return False

    def print_assumptions(self, module, names):
        """Ask Coq for the axioms each theorem depends on (recorded in the evidence)."""
        text = 'From HL7 Require Import %s.\n' % module + ''.join('Print Assumptions %s.\n' % n for n in names)
        rc, out = coq_eval('assum_%s_%d' % (self.prop, os.getpid()), text, timeout=300)
        res = []
        if rc != 0:
            res.append('Print Assumptions failed: ' + out[-300:])
        else:
            blocks = [b.strip() for b in re.split(r'(?=Closed under the global context|Axioms:)', out) if b.strip()]
            closed = sum(1 for b in blocks if b.startswith('Closed under'))
            axioms = sorted(set(re.findall(r'^\s*([A-Za-z_][\w\.]*)\s*:', out, re.M)))
            res.append('Print Assumptions on %d theorems: %d closed under the global context; axioms: %s'
                       % (len(names), closed, ', '.join(axioms) if axioms else 'none'))
        self.assumptions_printed = res
        return res

    # -- findings ----------------------------------------------------------------------------
    def fail(self, kind, what, **data):
        self.failures.append({'kind': kind, 'what': what, 'data': data})

    def disagree(self, component, **data):
        self.disagreements.append({'component': component, 'data': data})

    def note(self, s):
        self.notes.append(s)

    def write_replay(self, payload):
        d = os.path.join(ROOT, 'replays')
        os.makedirs(d, exist_ok=True)
        h = hashlib.sha1(json.dumps(payload, sort_keys=True, default=str).encode()).hexdigest()[:10]
        p = os.path.join(d, '%s-%s.json' % (self.prop, h))
        payload = dict(payload)
        payload['property'] = self.prop
        payload['replay_cmd'] = 'bin/check %s --replay %s' % (self.prop, p)
        with open(p, 'w') as f:
            json.dump(payload, f, indent=1, default=str)
        return p

    def finish(self, coverage, assumptions=None):
        known_hit = {}
        new = []
        for f in self.failures:
            hit = None
            for e in self.known:
                if matches(e, self.prop, f['kind'], f['data']):
                    hit = e
                    break
            if hit is not None:
                known_hit.setdefault(hit['id'], [hit, 0])[1] += 1
            else:
                new.append(f)
        lines = []
        for fid, (e, n) in sorted(known_hit.items()):
            lines.append('KNOWN-FINDING: property=%s %s [%s, %d witness(es) this run]' % (self.prop, e['what'], fid, n))
        violations = 0
        seen_kinds = {}
        for f in new:
            seen_kinds.setdefault(f['kind'], []).append(f)
        for kind, fs in seen_kinds.items():
            p = self.write_replay({'kind': kind, 'what': fs[0]['what'], 'input': fs[0]['data'],
                                   'more_of_this_kind': len(fs) - 1,
                                   'broken_obligations': self.broken,
                                   'disagreements': self.disagreements[:5]})
            lines.append('VIOLATION property=%s replay=%s' % (self.prop, p))
            violations += 1
        if not new and (self.broken or self.disagreements):
            p = self.write_replay({'kind': 'unexplained-break',
                                   'what': 'a proof obligation or the model/implementation correspondence no longer '
                                           'checks and the search found no input on which the property fails',
                                   'broken_obligations': self.broken,
                                   'disagreements': self.disagreements[:20]})
            lines.append('VIOLATION property=%s replay=%s no-failing-input-found' % (self.prop, p))
            violations += 1
        cov = dict(coverage)
        cov.setdefault('obligations', self.obligations)
        cov.setdefault('discharged', self.discharged)
        cov.setdefault('checker_cmd', self.checker_cmd or 'make -C coq')
        cov.setdefault('trusted_base', TRUSTED_BASE_COMMON + self.assumptions_printed)
        cov['broken_obligations'] = self.broken
        cov['correspondence_disagreements'] = len(self.disagreements)
        cov['oracle_failures_known'] = sum(n for _, n in known_hit.values())
        cov['oracle_failures_new'] = len(new)
        cov['translator_log'] = self.gen_logs
        if self.notes:
            cov['notes'] = self.notes
        ev = {
            'property_id': self.prop, 'tier': self.tier, 'seed': self.seed, 'level': self.level,
            'coverage': cov,
            'assumptions': assumptions or [],
            'wall_s': round(time.time() - self.t0, 2),
            'violations': violations,
        }
        os.makedirs(os.path.join(ROOT, 'evidence'), exist_ok=True)
        with open(os.path.join(ROOT, 'evidence', '%s.json' % self.prop), 'w') as f:
            json.dump(ev, f, indent=1, default=str)
        for l in lines:
            print(l)
        print('[%s] obligations %d/%d, correspondence disagreements %d, oracle failures: %d known, %d new; %.1fs'
              % (self.prop, self.discharged, self.obligations, len(self.disagreements),
                 cov['oracle_failures_known'], len(new), time.time() - self.t0), flush=True)
        sys.exit(1 if violations else 0)


def run_guarded(prop, main):
    """Run a check's main(); an unexpected exception inside the harness (typically the implementation
    raising where the harness did not expect it) is reported as a violation with the traceback as
    replay instead of a bare crash."""
    import traceback
    try:
        main()
    except SystemExit:
        raise
    except BaseException:   # noqa
        tb = traceback.format_exc()
        d = os.path.join(ROOT, 'replays')
        os.makedirs(d, exist_ok=True)
        p = os.path.join(d, '%s-harness-%d.json' % (prop, os.getpid()))
        with open(p, 'w') as f:
            json.dump({'property': prop, 'kind': 'harness-exception',
                       'what': 'the check itself raised: the implementation behaved in a way the harness does not '
                               'handle; the traceback names the call', 'traceback': tb}, f, indent=1)
        print(tb)
        print('VIOLATION property=%s replay=%s no-failing-input-found' % (prop, p))
        sys.exit(1)
