"""C08 - group finding is sound, order preserving and deterministic.

Obligations: coq/Properties/C08.v (general theorems about Model/Groups.v: order, no empty group,
equal encodings, soundness, determinism, the MFN_M10 refutation) and the per-version kernel-checked
sweeps coq/Oblig/C08_v2_X.v (every structure whose segment names occur at a single place x
{required-only, all-children, repeatable groups twice}: the search returns the prescribed forest;
the failing structures are an explicit list in the statement).
Oracle: the property's clauses on hl7apy for instances generated from every message structure.
Correspondence: (1) the same structure names + segment-name sequences (instances and random
sequences with foreign and Z segments) go to `find_groups_names`, forest dumps compared inside Coq,
together with the instance generator of the theorem statement; (2) whole messages (both levels,
both group modes, unknown / lower-case / Z names) go to Model/Message.v parse_message +
enc_message, outcome code, tree dump and encoding compared inside Coq.
"""
import collections
import json
import os
import random
import sys
from concurrent.futures import ProcessPoolExecutor

sys.path.insert(0, os.path.dirname(__file__))
from common import Run, COQ, theorems_of, coq_eval_many, parse_nat_lists, shard
from coqgen import coq_str
import segcorr as S
import hl7apy
from hl7apy.core import Group
from hl7apy.parser import parse_message, parse_segment

VERSIONS = S.VERSIONS
MODES = ('req', 'all', 'rep2', 'rep2x')
# rep2x (oracle and names-level model only, not part of the Coq sweep): a repeatable group appears twice, first with
# all its children, then in its required-only form, when that form starts with a NON-repeatable direct member that
# is not the group's first child - the recurrence of that member must open the new repetition
MODE_CODE = {'req': 1, 'all': 2, 'rep2': 3, 'rep2x': 0, None: 0}

# ------------------------------------------------------------------------------------------
# instance families (the same definition as coq/Model/Groups.v `instance`; agreement is checked
# inside Coq for every instance case)


def copies(mode, kind, depth, card):
    mn, mx = card
    if mode == 'req':
        return 1 if mn >= 1 else 0
    if mode == 'all':
        return 1
    if kind == 'GRP' and (mx == -1 or mx > 1) and depth < 3:
        return 2
    return 1


def first_member(ref):
    rows = ref[1]
    if not rows:
        return []
    name, cref, card, kind = rows[0]
    if kind == 'SEG':
        return [name]
    if kind == 'GRP':
        k = instance(cref, 'req', 1) or first_member(cref)
        return [(name, k)] if k else []
    return []


def instance(ref, mode, depth=0):
    """prescribed forest: list of segment names / (group name, children)"""
    out = []
    if mode == 'rep2x':
        for name, cref, card, kind in ref[1]:
            if kind == 'SEG':
                out.append(name)
            elif kind == 'GRP':
                kids1 = instance(cref, 'all', depth + 1)
                if not kids1:
                    continue
                out.append((name, kids1))
                mn, mx = card
                if (mx == -1 or mx > 1) and depth < 3:
                    kids2 = instance(cref, 'req', depth + 1) or first_member(cref)
                    lead = kids2[0] if kids2 else None
                    rows = {r[0]: r for r in cref[1]}
                    if isinstance(lead, str) and lead in rows and rows[lead][3] == 'SEG' and rows[lead][2][1] == 1 \
                            and cref[1][0][0] != lead:
                        out.append((name, kids2))
        return out
    for name, cref, card, kind in ref[1]:
        if kind == 'SEG':
            out.extend([name] * copies(mode, kind, depth, card))
        elif kind == 'GRP':
            kids = instance(cref, mode, depth + 1)
            if not kids and mode == 'req':
                kids = first_member(cref)
            if kids:
                out.extend([(name, kids)] * copies(mode, kind, depth, card))
    return out


def flat(forest):
    o = []
    for x in forest:
        if isinstance(x, str):
            o.append(x)
        else:
            o.extend(flat(x[1]))
    return o


def dump(forest):
    return ' '.join(x if isinstance(x, str) else '(%s%s)' % (x[0], ''.join(' ' + dump([y]) for y in x[1]))
                    for x in forest)


def places(ref, acc=None):
    acc = collections.Counter() if acc is None else acc
    for name, cref, card, kind in ref[1]:
        if kind == 'SEG':
            acc[name] += 1
        elif kind == 'GRP':
            places(cref, acc)
    return acc


def dup_bounded(ref):
    """a level of the structure lists one child name twice and one of the occurrences is bounded"""
    seen = {}
    for name, cref, card, kind in ref[1]:
        seen.setdefault(name, []).append(card)
    if any(len(c) > 1 and any(mx != -1 for _, mx in c) for c in seen.values()):
        return True
    return any(kind == 'GRP' and dup_bounded(cref) for name, cref, card, kind in ref[1])


def recurrence_attrs(ref, forest):
    """How the second and later repetitions of a group start, in the prescribed forest:
    nested_max1_recurrence   - with a group whose own maximum is 1 (F6: the finder repeats that inner
                               group instead of the repeatable ancestor)
    repeatable_leading_member - with a repeatable segment or a repeatable group (the finder sees no
                               non-repeatable member recur, so it opens no new repetition)"""
    res = {'nested_max1_recurrence': False, 'repeatable_leading_member': False}

    def rows_of(r):
        return {name: (cref, card, kind) for name, cref, card, kind in reversed(r[1])}

    def walk(r, kids):
        rows = rows_of(r)
        prev = None
        for k in kids:
            if isinstance(k, str):
                prev = k
                continue
            gname, gkids = k
            cref = rows[gname][0]
            if prev == gname and gkids:
                grows = rows_of(cref)
                first = gkids[0]
                fname = first if isinstance(first, str) else first[0]
                mx = grows[fname][1][1]
                if isinstance(first, str):
                    if mx != 1:
                        res['repeatable_leading_member'] = True
                else:
                    if mx == 1:
                        res['nested_max1_recurrence'] = True
                    else:
                        res['repeatable_leading_member'] = True
            prev = gname
            walk(cref, gkids)
    walk(ref, forest)
    return res


# ------------------------------------------------------------------------------------------
# ER7 text


def msh_line(mname, v):
    p = mname.split('_')
    if v >= '2.3.1':
        mt = '%s^%s^%s' % (p[0], p[1] if len(p) > 1 else '', mname)
    else:
        mt = '%s^%s' % (p[0], p[1] if len(p) > 1 else '')
    return 'MSH|^~\\&|A|B|C|D|20200101||%s|1|P|%s' % (mt, v)


LEAFVAL = {'DT': '20200101', 'DTM': '20200101', 'TM': '1200', 'NM': '1', 'SI': '1'}


def leaf_value(dt):
    return LEAFVAL.get(dt, 'A')


def ref_value(ref, seps):
    """a value for a required field / component: required sub-elements and the first one"""
    if ref is None or ref[0] == 'leaf' or len(ref) < 2 or not ref[1] or not seps:
        return leaf_value(ref[2] if ref is not None and len(ref) > 2 else 'ST')
    parts = []
    for i, (name, cref, (mn, mx), kind) in enumerate(ref[1]):
        parts.append(ref_value(cref, seps[1:]) if (mn >= 1 or i == 0) else '')
    while parts and parts[-1] == '':
        parts.pop()
    return seps[0].join(parts)


_LINES = {}


def valid_line(v, lib, sname):
    """(line, standalone validation errors) - a canonical line carrying every required field"""
    key = (v, sname)
    if key not in _LINES:
        ref = lib.SEGMENTS[sname]
        fs = []
        for i, (name, fref, (mn, mx), kind) in enumerate(ref[1]):
            fs.append(ref_value(fref, '^&') if (mn >= 1 or i == 0) else '')
        while fs and fs[-1] == '':
            fs.pop()
        line = sname + ''.join('|' + f for f in fs)
        try:
            rep = parse_segment(line, version=v, validation_level=S.TOLERANT).validate(return_errors=True)
            errs = sorted(str(e) for e in rep.errors)
        except Exception as ex:  # noqa
            errs = ['EXC ' + repr(ex)]
        _LINES[key] = (line, errs)
    return _LINES[key]


_HDR = {}


def header_errors(v, line):
    """validation errors of the MSH line on its own (v2.1/v2.2 require components the canonical header
    does not carry): not attributed to group finding"""
    if line not in _HDR:
        try:
            rep = parse_segment(line, version=v, validation_level=S.TOLERANT).validate(return_errors=True)
            _HDR[line] = sorted(str(e) for e in rep.errors)
        except Exception as ex:  # noqa
            _HDR[line] = ['EXC ' + repr(ex)]
    return _HDR[line]


def impl_tree(el):
    return [(c.name, impl_tree(c)) if isinstance(c, Group) else c.name for c in el.children]


def declared_ok(ref, el):
    """clause (a): every child of el is a declared child of the reference, recursively"""
    bad = []
    for c in el.children:
        if isinstance(c, Group):
            rows = [r for r in ref[1] if r[3] == 'GRP' and r[0] == c.name]
            if not rows:
                bad.append('group %s under %s' % (c.name, el.name))
            else:
                bad.extend(declared_ok(rows[0][1], c))
        else:
            if not any(r[3] == 'SEG' and r[0] == c.name for r in ref[1]):
                bad.append('segment %s under %s' % (c.name, el.name))
    return bad


def addressable(m, ref):
    """a structure parse_message can be asked for: a sequence whose name survives Message's upper()"""
    return isinstance(ref, tuple) and len(ref) == 2 and ref[0] == 'sequence' and m == m.upper()


# ------------------------------------------------------------------------------------------
# the oracle on one instance


def line_end_variants(lines):
    """The same segment lines written with other line ends.  parse_segments strips every CR-separated piece
    BEFORE it takes the segment name and skips the pieces that are blank, so LF after CR, blank lines, a
    trailing CR LF and blanks around a line must not change the group tree (Properties/C08.v
    C08_crlf_same_forest, C08_blank_padding_same_forest, C08_trailing_blank_same_forest)."""
    return [('crlf', '\r\n'.join(lines)),
            ('crlf-trailing', '\r\n'.join(lines) + '\r\n'),
            ('blank-lines', '\r \r'.join(lines) + '\r\r\n\r'),
            ('padded', '\r'.join([lines[0]] + [' ' + l + ' \t' for l in lines[1:]]))]


def check_instance(run, v, lib, m, mode, stats, all_variants=False):
    """Returns the names-level correspondence case (or None)."""
    ref = lib.MESSAGES[m]
    forest = instance(ref, mode)
    names = flat(forest)
    pl = places(ref)
    if not names or names[0] != 'MSH':
        stats['skipped_no_msh'] += 1
        return None
    if 'ANYHL7SEGMENT' in pl:
        stats['skipped_wildcard'] += 1
        return None
    if any(not S.ok_segment(lib, n) or not lib.SEGMENTS[n][1] for n in names):
        stats['skipped_undefined_segment'] += 1
        return None
    lines = [msh_line(m, v)]
    seg_errs = set(header_errors(v, lines[0]))
    for n in names[1:]:
        line, errs = valid_line(v, lib, n)
        lines.append(line)
        seg_errs.update(errs)
    text = '\r'.join(lines)
    ident = dict(version=v, structure=m, mode=mode)
    try:
        mg = parse_message(text, validation_level=S.TOLERANT, find_groups=True)
        mf = parse_message(text, validation_level=S.TOLERANT, find_groups=False)
        mg2 = parse_message(text, validation_level=S.TOLERANT, find_groups=True)
    except Exception as ex:  # noqa
        run.fail('instance-rejected', 'parse_message raises on an instance of a message structure', exc=repr(ex),
                 names=names, **ident)
        return None
    if mg.name != m:
        stats['skipped_unaddressable'] += 1      # MSH-9 cannot name this structure (ACK before v2.3.1)
        return None
    stats['instances'] += 1
    got = impl_tree(mg)
    # the structure is named by MSH-9.3: another trigger event in MSH-9.2 (PPR^PC2^PPR_PC1 ...) prescribes the same tree
    if v >= '2.3.1' and mode == 'req':
        p9 = m.split('_')
        other = lines[0].replace('%s^%s^%s' % (p9[0], p9[1] if len(p9) > 1 else '', m), '%s^%s^%s' % (p9[0], 'Z99', m))
        if other != lines[0]:
            stats['foreign_event_instances'] += 1
            try:
                mo = parse_message('\r'.join([other] + lines[1:]), validation_level=S.TOLERANT, find_groups=True)
                if mo.name != m or impl_tree(mo) != got:
                    run.fail('forest-differs', 'the group tree depends on the trigger event although MSH-9.3 names the same '
                             'structure', names=names, with_own_event=got, with_other_event=impl_tree(mo), resolved=mo.name,
                             **ident)
            except Exception as ex:  # noqa
                run.fail('instance-rejected', 'parse_message raises on an instance whose MSH-9.2 is another trigger event',
                         exc=repr(ex), names=names, **ident)
    attrs = recurrence_attrs(ref, forest)
    unique_inst = all(pl[n] == 1 for n in names)
    unique_struct = all(c == 1 for c in pl.values())
    stats['unique_place_instances'] += int(unique_inst)
    if any(not isinstance(x, str) for x in got):
        stats['instances_with_groups'] += 1
    # (a) declared children
    bad = declared_ok(ref, mg)
    if bad:
        run.fail('undeclared-child', 'an element of the group tree is not a declared child of its parent',
                 undeclared=bad[:5], names=names, **ident)
    # (b) order
    if flat(got) != names:
        run.fail('order-changed', 'flattening the group tree does not give the input segment sequence',
                 names=names, flattened=flat(got), **ident)
    # (c) same encoding
    try:
        eg, ef = mg.to_er7(), mf.to_er7()
    except Exception as ex:  # noqa
        eg, ef = 'EXC ' + repr(ex), None
    if eg != ef:
        run.fail('encoding-differs', 'the same text parsed with and without group finding encodes differently',
                 names=names, grouped=str(eg)[:600], flat=str(ef)[:600], **ident)
    # (e) determinism
    if impl_tree(mg2) != got or mg2.to_er7() != eg:
        run.fail('not-deterministic', 'parsing the same text twice gives different group trees', names=names, **ident)
    # (f) line ends: the same lines with CR LF / blank lines / blank padding give the same tree and encoding
    variants = line_end_variants(lines)
    chosen = variants if all_variants else [variants[0], variants[1 + run.rng.randrange(len(variants) - 1)]]
    for vk, vtext in chosen:
        stats['line_end_variants'] += 1
        try:
            mv = parse_message(vtext, validation_level=S.TOLERANT, find_groups=True)
            vt, ve = impl_tree(mv), mv.to_er7()
        except Exception as ex:  # noqa
            vt, ve = 'EXC ' + repr(ex), None
        if vt != got or ve != eg:
            run.fail('line-ends-change-tree', 'the same segment lines written with other line ends (LF after CR, '
                     'blank lines, blanks around a line) do not give the group tree of the CR-separated text',
                     variant=vk, text=vtext, names=names, cr_tree=dump(got),
                     found=(vt if isinstance(vt, str) else dump(vt)), same_encoding=(ve == eg), **ident)
    # (d) prescribed forest and validation
    try:
        rep = mg.validate(return_errors=True)
        verrs = [str(e) for e in rep.errors]
    except Exception as ex:  # noqa
        verrs = ['EXC ' + repr(ex)]
    structural = [e for e in verrs if e not in seg_errs]
    if unique_inst:
        if got != forest:
            run.fail('not-prescribed', 'the group tree is not the one the message structure prescribes',
                     names=names, prescribed=dump(forest), found=dump(got), unique_structure=unique_struct,
                     **dict(ident, **attrs))
        if structural:
            run.fail('does-not-validate', 'a conforming instance with single-place segment names does not validate',
                     names=names, errors=structural[:5], unique_places=True, dup_bounded=dup_bounded(ref),
                     tree_is_prescribed=(got == forest), **dict(ident, **attrs))
    elif got == forest and structural:
        stats['nonunique_not_validating'] += 1
        if dup_bounded(ref):
            # F15: outside the quantifier of the property's last clause; listed, never a new violation
            run.fail('does-not-validate', 'a conforming instance of a structure that lists a bounded child name '
                     'twice does not validate', names=names, errors=structural[:5], unique_places=False,
                     dup_bounded=True, tree_is_prescribed=True, **dict(ident, **attrs))
        else:
            stats['nonunique_not_validating_other'] += 1
    return {'v': v, 'm': m, 'mode': mode, 'names': names, 'dump': dump(got), 'presc': dump(forest)}


def random_case(run, v, lib, m, pool, stats):
    """fidelity only: a random sequence over the structure's own segments, foreign ones and Z names"""
    rng = run.rng
    ref = lib.MESSAGES[m]
    base = [n for n in places(ref) if n != 'MSH' and S.ok_segment(lib, n) and lib.SEGMENTS[n][1]] or ['PID']
    names = ['MSH'] + [rng.choice(base) if rng.random() < .8 else rng.choice(pool)
                       for _ in range(rng.randint(1, 12))]
    text = '\r'.join(msh_line(m, v) if i == 0 else n + '|1' for i, n in enumerate(names))
    try:
        mg = parse_message(text, validation_level=S.TOLERANT, find_groups=True)
    except Exception:  # noqa
        stats['random_rejected'] += 1
        return None
    if mg.name != m:
        return None
    got = impl_tree(mg)
    stats['random_sequences'] += 1
    # the order clause holds for every accepted message, not only for instances
    if flat(got) != [n.upper() for n in names]:
        run.fail('order-changed', 'flattening the group tree does not give the input segment sequence',
                 version=v, structure=m, mode='random', names=names, flattened=flat(got))
    return {'v': v, 'm': m, 'mode': None, 'names': names, 'dump': dump(got), 'presc': ''}


# ------------------------------------------------------------------------------------------
# synthetic structures: parse_segments(text, references=<made-up structure>, find_groups=True).
# The shipped tables only use the cardinalities (0|1, 1|-1); made-up structures also exercise bounded
# maxima above 1, nested groups of any shape and repeated names.  Order and declared-children are
# judged by the oracle; the forest goes to the model with the structure written inline.

SYN_CARDS = [(0, 1), (1, 1), (0, -1), (1, -1), (0, 2), (1, 3), (0, 1), (1, 1)]


def syn_structure(rng, lib, segpool, depth, counter):
    rows = []
    for _ in range(rng.randint(1, 4)):
        card = rng.choice(SYN_CARDS)
        if depth < 3 and rng.random() < .4:
            counter[0] += 1
            rows.append(('SYN_G%d' % counter[0], syn_structure(rng, lib, segpool, depth + 1, counter), card, 'GRP'))
        else:
            sn = rng.choice(segpool)
            rows.append((sn, lib.SEGMENTS[sn], card, 'SEG'))
    return ('sequence', tuple(rows))


def syn_term(ref):
    def z(n):
        return '(%d)' % n if n < 0 else '%d' % n
    rows = []
    for name, cref, (mn, mx), kind in ref[1]:
        if kind == 'SEG':
            rows.append('SByName SEG %s %s%%Z %s%%Z' % (coq_str(name), z(mn), z(mx)))
        else:
            rows.append('SIn GRP %s %s %s%%Z %s%%Z' % (coq_str(name), syn_term(cref), z(mn), z(mx)))
    return '(SSeqIn false [%s] None)' % '; '.join(rows)


def synthetic_cases(run, v, lib, count, stats):
    from hl7apy.parser import parse_segments
    rng = run.rng
    allsegs = [s for s in sorted(lib.SEGMENTS) if S.ok_segment(lib, s) and lib.SEGMENTS[s][1] and s != 'MSH'
               and not s.startswith('Z')]
    out = []
    for k in range(count):
        segpool = rng.sample(allsegs, 6)
        ref = syn_structure(rng, lib, segpool, 0, [0])
        term = syn_term(ref)
        seqs = [flat(instance(ref, mode)) for mode in MODES]
        own = list(places(ref)) or segpool
        for _ in range(3):
            seqs.append([rng.choice(own) if rng.random() < .8 else rng.choice(allsegs + ['ZZZ'])
                         for _ in range(rng.randint(1, 10))])
        for names in seqs:
            if not names:
                continue
            text = '\r'.join(n + '|1' for n in names)
            try:
                kids = parse_segments(text, v, None, S.TOLERANT, ref, True)
            except Exception as ex:  # noqa
                run.fail('synthetic-rejected', 'parse_segments raises on a made-up structure', version=v,
                         structure=repr(ref_brief(ref)), names=names, exc=repr(ex))
                continue

            class Top(object):
                children = kids
                name = None
            got = impl_tree(Top)
            stats['synthetic_sequences'] += 1
            if flat(got) != names:
                run.fail('order-changed', 'flattening the group tree does not give the input segment sequence',
                         version=v, structure=repr(ref_brief(ref)), mode='synthetic', names=names, flattened=flat(got))
            bad = [b for b in declared_ok(ref, Top) if not b.startswith('segment')]
            if bad:
                run.fail('undeclared-child', 'an element of the group tree is not a declared child of its parent',
                         undeclared=bad[:5], names=names, version=v, structure=repr(ref_brief(ref)), mode='synthetic')
            out.append({'v': v, 'term': term, 'names': names, 'dump': dump(got)})
    return out


def ref_brief(ref):
    return [(n if k == 'SEG' else (n, ref_brief(r)), c) for n, r, c, k in ref[1]]


SYN_PRELUDE = '''From Coq Require Import List NArith ZArith Init.Byte.
From HL7 Require Import Lib.Str Model.Result Model.Ref Model.Groups.
From HL7 Require Gen.%(mod)s.
Import ListNotations. Open Scope bs_scope.
Definition t := Gen.%(mod)s.tables.
Definition case := (sref * list str * str)%%type.
Definition model_ok (c : case) : bool :=
  match c with (r, names, d) =>
    match find_groups_names t r names with Ok f => streqb (dump_nforest f) d | Err _ => false end end.
Fixpoint failing (n : nat) (l : list case) : list nat :=
  match l with [] => [] | c :: r => (if model_ok c then [] else [n]) ++ failing (S n) r end.
'''


def run_synth_model(run, cases):
    byv = collections.OrderedDict()
    for c in cases:
        byv.setdefault(c['v'], []).append(c)
    files, index = [], []
    for v, cs in byv.items():
        for k, sh in enumerate(shard(cs, 400)):
            L = [SYN_PRELUDE % {'mod': S.modname(v)}, 'Definition cases : list case := [']
            L.append(';\n'.join('(%s, [%s], %s)' % (c['term'], '; '.join(coq_str(n) for n in c['names']),
                                                    coq_str(c['dump'])) for c in sh))
            L.append('].')
            L.append('Eval vm_compute in failing 0 cases.')
            files.append(('c08s_%d_%s_%d' % (os.getpid(), v.replace('.', '_'), k), '\n'.join(L) + '\n'))
            index.append(sh)
    results = coq_eval_many(files, timeout=1500)
    evaluated = 0
    for sh, (rc, out) in zip(index, results):
        lists = parse_nat_lists(out)
        if rc != 0 or len(lists) != 1:
            run.disagree('group-search-synthetic', why='case file did not evaluate', version=sh[0]['v'],
                         output=out[-1200:])
            continue
        evaluated += len(sh)
        if lists[0]:
            print('[C08] version %s: failing synthetic case indices %s' % (sh[0]['v'], lists[0][:20]), flush=True)
        for i in lists[0]:
            c = sh[i]
            run.disagree('group-search-synthetic', version=c['v'], structure=c['term'][:1500], names=c['names'],
                         implementation=c['dump'])
    return evaluated


# ------------------------------------------------------------------------------------------
# Coq side, names level

NAMES_PRELUDE = '''From Coq Require Import List NArith ZArith Init.Byte.
From HL7 Require Import Lib.Str Model.Result Model.Ref Model.Groups.
From HL7 Require Gen.%(mod)s.
Import ListNotations. Open Scope bs_scope.
Definition t := Gen.%(mod)s.tables.
Definition case := (str * nat * list str * str * str)%%type.
Definition mode_of (n : nat) : option imode :=
  match n with 1%%nat => Some IReq | 2%%nat => Some IAll | 3%%nat => Some IRep2 | _ => None end.
(* the model's forest for the same names = the implementation's *)
Definition model_ok (c : case) : bool :=
  match c with (m, _, names, d, _) =>
    match slookup m (t_messages t) with
    | Some r => match find_groups_names t r names with Ok f => streqb (dump_nforest f) d | Err _ => false end
    | None => false
    end end.
(* the instance generator of the theorem statement = the harness's *)
Definition gen_ok (c : case) : bool :=
  match c with (m, k, names, _, p) =>
    match mode_of k, slookup m (t_messages t) with
    | Some md, Some r => let e := instance t inst_fuel md 0 r in
                         leqb streqb (eflatten e) names && streqb (dump_eforest e) p
    | None, _ => true
    | _, None => false
    end end.
Fixpoint failing (f : case -> bool) (n : nat) (l : list case) : list nat :=
  match l with [] => [] | c :: r => (if f c then [] else [n]) ++ failing f (S n) r end.
'''


def run_names_model(run, cases):
    byv = collections.OrderedDict()
    for c in cases:
        byv.setdefault(c['v'], []).append(c)
    files, index = [], []
    for v, cs in byv.items():
        for k, sh in enumerate(shard(cs, 160)):
            L = [NAMES_PRELUDE % {'mod': S.modname(v)}, 'Definition cases : list case := [']
            L.append(';\n'.join('(%s, %d%%nat, [%s], %s, %s)' % (
                coq_str(c['m']), MODE_CODE[c['mode']], '; '.join(coq_str(n) for n in c['names']),
                coq_str(c['dump']), coq_str(c['presc'])) for c in sh))
            L.append('].')
            L.append('Eval vm_compute in failing model_ok 0 cases.')
            L.append('Eval vm_compute in failing gen_ok 0 cases.')
            files.append(('c08n_%d_%s_%d' % (os.getpid(), v.replace('.', '_'), k), '\n'.join(L) + '\n'))
            index.append(sh)
    results = coq_eval_many(files, timeout=1500)
    evaluated = 0
    for sh, (rc, out) in zip(index, results):
        lists = parse_nat_lists(out)
        if rc != 0 or len(lists) != 2:
            run.disagree('group-search', why='case file did not evaluate', version=sh[0]['v'], output=out[-1200:])
            continue
        evaluated += len(sh)
        if lists[0] or lists[1]:
            print('[C08] version %s: failing case indices model=%s generator=%s' % (sh[0]['v'], lists[0][:20],
                                                                                  lists[1][:20]), flush=True)
        for i in lists[0]:
            c = sh[i]
            run.disagree('group-search', version=c['v'], structure=c['m'], mode=c['mode'], names=c['names'],
                         implementation=c['dump'])
        for i in lists[1]:
            c = sh[i]
            run.disagree('instance-generator', version=c['v'], structure=c['m'], mode=c['mode'], names=c['names'],
                         prescribed=c['presc'])
    return evaluated


# ------------------------------------------------------------------------------------------
# Coq side, message level (Model/Message.v)

MSG_PRELUDE = '''From Coq Require Import List NArith ZArith Init.Byte.
From HL7 Require Import Lib.Str Model.Result Model.Ref Model.Tree Model.MsgTree Model.Groups Model.Message.
From HL7 Require Gen.%(mod)s.
Import ListNotations. Open Scope bs_scope.
Definition t := Gen.%(mod)s.tables.
Definition lib (v : str) : option tables := if streqb v (t_version t) then Some t else None.
Definition case := (nat * bool * str * nat * str * nat * str)%%type.
Definition run1 (c : case) : bool :=
  match c with (l, fg, text, code, d, ecode, enc) =>
    let lvl := match l with 1%%nat => STRICT | _ => TOLERANT end in
    match parse_message lib (t_version t) lvl fg text with
    | Err x => Nat.eqb (exn_code x) code
    | Ok (t', m) =>
        Nat.eqb code 0 && streqb (dump_message m) d &&
        match enc_message t' lvl m with
        | Ok s => Nat.eqb ecode 0 && streqb s enc
        | Err x => Nat.eqb (exn_code x) ecode
        end
    end end.
Fixpoint failing (n : nat) (l : list case) : list nat :=
  match l with [] => [] | c :: r => (if run1 c then [] else [n]) ++ failing (S n) r end.
'''


def dump_message(m):
    def d(c):
        if isinstance(c, Group):
            return '(%s%s)' % (c.name or '-', ''.join(' ' + d(y) for y in c.children))
        return c.name
    return (m.name or '-') + ':' + ' '.join(d(c) for c in m.children)


def simple_line(rng, lib, sn):
    """a line whose leaves are in the domain Model/Leaf.v claims under both levels"""
    r = lib.SEGMENTS.get(sn.upper())
    ok = sn.upper().startswith('Z') or (r and len(r) > 1 and r[1] and r[1][0][1] is not None and
                                        r[1][0][1][0] == 'leaf' and r[1][0][1][2] in ('SI', 'ST', 'NM', 'ID', 'IS', 'TX'))
    return sn + (rng.choice(['|1', '|1', '', '|']) if ok else rng.choice(['', '|']))


def message_cases(run, v, lib, count):
    rng = run.rng
    pool = [s for s in sorted(lib.SEGMENTS) if S.ok_segment(lib, s) and lib.SEGMENTS[s][1] and s != 'MSH'] + \
           ['ZZZ', 'ZAB', 'XXX', 'zab', 'pid']
    ms = [m for m in sorted(lib.MESSAGES) if addressable(m, lib.MESSAGES[m]) and '_' in m
          and 'ANYHL7SEGMENT' not in places(lib.MESSAGES[m])]
    rng.shuffle(ms)
    out = []
    for m in ms[:count]:
        ref = lib.MESSAGES[m]
        kind = rng.choice(['req', 'all', 'rep2', 'rand', 'rand'])
        if kind == 'rand':
            base = [n for n in places(ref) if n != 'MSH'] or ['PID']
            names = ['MSH'] + [rng.choice(base) if rng.random() < .75 else rng.choice(pool)
                               for _ in range(rng.randint(1, 7))]
        else:
            names = flat(instance(ref, kind))[:8]
        if not names or names[0] != 'MSH':
            continue
        mname = m if rng.random() < .8 else rng.choice(['ZAB_Z01', 'XXX_Y01', m.lower(), m.split('_')[0]])
        mlines = [msh_line(mname, v) if i == 0 else simple_line(rng, lib, n) for i, n in enumerate(names)]
        # line ends: CR, CR LF, blank lines; blanks around a line (parse_segments strips the piece first)
        if rng.random() < .3:
            mlines = [l if i == 0 or rng.random() < .5 else rng.choice([' ', '\t', '\n ']) + l + rng.choice(['', ' ', ' \t'])
                      for i, l in enumerate(mlines)]
        text = rng.choice(['\r', '\r', '\r\n', '\r\n', '\r \r', '\r\r']).join(mlines)
        text += rng.choice(['', '\r', '\r\n', '\r \r\n'])
        if rng.random() < .1:
            text = rng.choice([' ', '\n', '\r']) + text
        for lvl in (S.TOLERANT, S.STRICT):
            for fg in (True, False):
                try:
                    mm = parse_message(text, validation_level=lvl, find_groups=fg)
                    code, d = 0, dump_message(mm)
                    try:
                        enc, ecode = mm.to_er7(), 0
                    except Exception as ex:  # noqa
                        enc, ecode = '', S.outcome_code(ex)
                except Exception as ex:  # noqa
                    code, d, enc, ecode = S.outcome_code(ex), '', '', 0
                out.append({'v': v, 'lvl': lvl, 'fg': fg, 'text': text, 'code': code, 'dump': d, 'ecode': ecode,
                            'enc': enc})
    return out


def run_message_model(run, cases):
    byv = collections.OrderedDict()
    for c in cases:
        byv.setdefault(c['v'], []).append(c)
    files, index = [], []
    for v, cs in byv.items():
        for k, sh in enumerate(shard(cs, 24)):
            L = [MSG_PRELUDE % {'mod': S.modname(v)}, 'Definition cases : list case := [']
            L.append(';\n'.join('(%d%%nat, %s, %s, %d%%nat, %s, %d%%nat, %s)' % (
                c['lvl'], 'true' if c['fg'] else 'false', coq_str(c['text']), c['code'], coq_str(c['dump']),
                c['ecode'], coq_str(c['enc'])) for c in sh))
            L.append('].')
            L.append('Eval vm_compute in failing 0 cases.')
            files.append(('c08m_%d_%s_%d' % (os.getpid(), v.replace('.', '_'), k), '\n'.join(L) + '\n'))
            index.append(sh)
    results = coq_eval_many(files, timeout=1500)
    evaluated = 0
    for sh, (rc, out) in zip(index, results):
        lists = parse_nat_lists(out)
        if rc != 0 or len(lists) != 1:
            run.disagree('message-parser', why='case file did not evaluate', version=sh[0]['v'], output=out[-1200:])
            continue
        evaluated += len(sh)
        if lists[0]:
            print('[C08] version %s: failing message case indices %s' % (sh[0]['v'], lists[0][:20]), flush=True)
        for i in lists[0]:
            c = sh[i]
            run.disagree('message-parser', version=c['v'], level=c['lvl'], find_groups=c['fg'], text=c['text'],
                         implementation={'code': c['code'], 'dump': c['dump'], 'ecode': c['ecode'],
                                         'enc': c['enc'][:400]})
    return evaluated


# ------------------------------------------------------------------------------------------


def obligation_files():
    obl = ['Properties/C08.v']
    targets = ['Properties/C08.vo']
    for v in VERSIONS:
        f = 'Oblig/C08_v%s.v' % v.replace('.', '_')
        if os.path.exists(os.path.join(COQ, f)):
            obl.append(f)
            targets.append(f + 'o')
    return targets, obl


class Collector(object):
    """stands in for Run inside a worker process: collects oracle failures"""

    def __init__(self, seed, thorough):
        self.rng = random.Random(seed)
        self.thorough = thorough
        self.failures = []

    def fail(self, kind, what, **data):
        self.failures.append((kind, what, data))


def impl_version(job):
    """implementation side for one version (runs in a worker process)"""
    v, seed, thorough = job
    run = Collector(seed, thorough)
    stats = collections.Counter()
    ncases = []
    per_version = 25 if not thorough else 100000
    nrand = 2 if not thorough else 3
    nmsg = 5 if not thorough else 28
    lib = hl7apy.load_library(v)
    pool = [s for s in sorted(lib.SEGMENTS) if S.ok_segment(lib, s) and lib.SEGMENTS[s][1] and s != 'MSH'] + \
           ['ZZZ', 'ZAB']
    ms = [m for m in sorted(lib.MESSAGES) if addressable(m, lib.MESSAGES[m])]
    stats['structures_total'] += len(lib.MESSAGES)
    run.rng.shuffle(ms)
    structures = 0
    for m in ms[:per_version]:
        structures += 1
        for mode in MODES:
            c = check_instance(run, v, lib, m, mode, stats)
            if c is not None:
                ncases.append(c)
        if 'ANYHL7SEGMENT' not in places(lib.MESSAGES[m]):
            for _ in range(nrand):
                c = random_case(run, v, lib, m, pool, stats)
                if c is not None:
                    ncases.append(c)
    mcases = message_cases(run, v, lib, nmsg)
    scases = synthetic_cases(run, v, lib, 25 if not thorough else 150, stats)
    return {'structures': structures, 'stats': dict(stats), 'ncases': ncases, 'mcases': mcases, 'scases': scases,
            'failures': run.failures, 'bad_lines': sorted('%s/%s' % k for k, (l, e) in _LINES.items() if e)}


def segment_rows_oracle(run):
    """In every message and group structure a row of kind SEG named X carries the reference of segment X (the parser
    builds the segment from the row's reference when group finding is on, from SEGMENTS[X] when it is off)."""
    import gen_tables
    n = 0
    for v in VERSIONS:
        lib = hl7apy.load_library(v)
        for tname, table in (('MESSAGES', lib.MESSAGES), ('GROUPS', lib.GROUPS)):
            for key in sorted(table):
                ref = table[key]
                if not (isinstance(ref, (tuple, list)) and len(ref) >= 2 and isinstance(ref[1], (tuple, list))):
                    continue
                for row in ref[1]:
                    if len(row) == 4 and row[3] == 'SEG':
                        n += 1
                        std = lib.SEGMENTS.get(row[0])
                        if row[1] is None and std is None:
                            continue
                        if row[1] is not std and not gen_tables.eq(row[1], std):
                            run.fail('row-reference-mismatch', 'a structure row named after a segment carries another '
                                     'reference than that segment\'s', version=v, table=tname, structure=key, child=row[0],
                                     row_reference_is=[k for k in lib.SEGMENTS if lib.SEGMENTS[k] is row[1]][:3],
                                     row_reference_none=row[1] is None)
    return n


def main(argv=None):
    run = Run('C08', argv)
    if run.replay:
        return replay(run)
    targets, obl = obligation_files()
    ok = run.build(targets, gen=('params', 'tables'), obligation_files=obl)
    run.log('obligations built: %s' % ok)
    if ok:
        run.print_assumptions('Properties.C08', [n for n, _ in theorems_of('Properties/C08.v')])
    stats = collections.Counter()
    ncases, mcases, scases, bad_lines = [], [], [], []
    structures = 0
    nrand = 2 if not run.thorough else 3
    per_version = 25 if not run.thorough else 100000
    jobs = [(v, run.seed * 100 + i, run.thorough) for i, v in enumerate(VERSIONS)]
    with ProcessPoolExecutor(max_workers=min(12, int(os.environ.get('VERIF_JOBS', '16')))) as ex:
        for res in ex.map(impl_version, jobs):
            structures += res['structures']
            stats.update(res['stats'])
            ncases.extend(res['ncases'])
            mcases.extend(res['mcases'])
            scases.extend(res['scases'])
            bad_lines.extend(res['bad_lines'])
            for kind, what, data in res['failures']:
                run.fail(kind, what, **data)
    stats['segment_rows_checked'] = segment_rows_oracle(run)
    run.log('implementation side: %d structures, %d instances, %d random sequences, %d message cases; '
            '%d oracle failures' % (structures, stats['instances'], stats['random_sequences'], len(mcases),
                                    len(run.failures)))
    ev_n = run_names_model(run, ncases)
    run.log('names-level model: %d cases evaluated, %d disagreements' % (ev_n, len(run.disagreements)))
    ev_s = run_synth_model(run, scases)
    run.log('names-level model on made-up structures: %d cases evaluated, %d disagreements' % (ev_s, len(run.disagreements)))
    ev_m = run_message_model(run, mcases)
    run.log('message-level model: %d cases evaluated, %d disagreements' % (ev_m, len(run.disagreements)))
    nontrivial = len({(c['v'], c['m'], c['mode'], c['dump']) for c in ncases if '(' in c['dump']})
    samples = [{'version': c['v'], 'structure': c['m'], 'mode': c['mode'], 'names': c['names'][:30],
                'forest': c['dump'][:300]} for c in ncases[:: max(1, len(ncases) // 6)][:6]]
    run.finish({
        'evaluations': len(ncases) + len(mcases) + len(scases),
        'distinct_nontrivial': nontrivial,
        'rule': 'for %s message structures of every version: the instances required-only / all-children / '
                'repeatable-groups-twice (depth 3) written as ER7 (MSH-9 names the structure; every segment line '
                'carries its required fields), parsed under TOLERANT with group finding on (twice) and off, and again '
                'with CR LF line ends and one of {trailing CR LF, blank lines, blank-padded lines} (same tree demanded); plus %d '
                'random sequences per structure over its own, foreign and Z segment names (model fidelity and order '
                'only); plus made-up structures (nested groups, repeated names, bounded maxima above 1) given to parse_segments directly; plus whole messages under both levels and both group modes with unknown, lower-case and Z '
                'names for the message-level model.  non-trivial/distinct = distinct (version, structure, mode, forest) '
                'whose forest contains at least one group' % ('all' if run.thorough else '%d seed-chosen' % per_version,
                                                              nrand),
        'samples': samples,
        'traces_validated_against_impl': ev_n + ev_m + ev_s,
        'input_distribution': dict(stats),
        'names_level_cases': len(ncases), 'message_level_cases': len(mcases), 'synthetic_structure_cases': len(scases),
        'segment_lines_not_validating_standalone': bad_lines[:60],
        'exhaustive': False, 'instance_families_enumerated_completely': bool(run.thorough),
    }, assumptions=[
        'model fidelity is claimed for ASCII text; message profiles are not modelled',
        'validation errors that a segment line also produces standalone are not attributed to group finding',
        'the validates clause is evaluated for instances whose segment names each occur at a single place of the '
        'structure; for the other instances a validation failure is only listed when the structure repeats a bounded '
        'child name (F15)',
    ])


def replay(run):
    r = json.load(open(run.replay))
    inp = r.get('input', {})
    stats = collections.Counter()
    v, m, mode = inp.get('version'), inp.get('structure'), inp.get('mode')
    if v in VERSIONS and mode in MODES:
        lib = hl7apy.load_library(v)
        if m in lib.MESSAGES:
            check_instance(run, v, lib, m, mode, stats, all_variants=True)
    for f in run.failures:
        print('replayed failure:', f['kind'], {k: f['data'][k] for k in list(f['data'])[:8]})
    run.finish({'evaluations': 1, 'distinct_nontrivial': 1, 'rule': 'replay of one stored instance', 'samples': [inp]})


if __name__ == '__main__':
    from common import run_guarded
    run_guarded('C08', main)
