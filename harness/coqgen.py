"""Emit Coq text for Python values (byte strings, lists, options, numbers).

Everything the harness hands to Coq goes through these functions so that the
literal syntax is decided in one place.  Strings are `str` = `list byte`,
written as byte-string literals (scope bs_scope, coerced to list byte) with
non-printable bytes spliced in by constructor name.
"""

PRINTABLE = set(range(32, 127))


def byte_ctor(b):
    return 'x%02x' % b


def coq_str(s):
    """Coq term of type `str` for a Python str (ASCII / latin-1 range) or bytes."""
    if isinstance(s, str):
        b = s.encode('latin-1')
    else:
        b = bytes(s)
    if not b:
        return '(@nil byte)'
    parts = []
    cur = []
    for c in b:
        if c in PRINTABLE:
            cur.append('""' if c == 34 else chr(c))
        else:
            if cur:
                parts.append('(unbs "%s")' % ''.join(cur))
                cur = []
            parts.append('[%s]' % byte_ctor(c))
    if cur:
        parts.append('(unbs "%s")' % ''.join(cur))
    if len(parts) == 1:
        return parts[0]
    return '(' + ' ++ '.join(parts) + ')'


def is_model_str(s):
    """True when the string lies in the model's domain (code points < 256 so it fits bytes;
    fidelity is claimed for ASCII only)."""
    try:
        s.encode('latin-1')
        return True
    except UnicodeEncodeError:
        return False


def coq_byte(c):
    if isinstance(c, str):
        c = ord(c)
    return byte_ctor(c)


def coq_opt(x, f):
    return 'None' if x is None else '(Some %s)' % f(x)


def coq_list(xs, f, sep='; '):
    return '[' + sep.join(f(x) for x in xs) + ']'


def coq_bool(b):
    return 'true' if b else 'false'


def coq_Z(n):
    return '(%d)%%Z' % n


def coq_N(n):
    return '%d%%N' % n


def coq_nat(n):
    return '%d%%nat' % n


def write_if_changed(path, text):
    try:
        with open(path) as f:
            if f.read() == text:
                return False
    except FileNotFoundError:
        pass
    tmp = path + '.tmp'
    with open(tmp, 'w') as f:
        f.write(text)
    import os
    os.replace(tmp, path)
    return True
