"""C14 - name, long name, position and letter case all address the same child.

Obligations: coq/Properties/C14.v (general theorems about Model/Resolve.v: letter case, long names,
positional paths, names that designate nothing) and the per-version finite obligations
coq/Oblig/C14_v2_X.v (every field row of every segment, every component row of every complex
datatype, every subcomponent row of every component parent, by HL7 name and by long name; exempt
rows COUNTED and pinned together with a digest of the alias map).
Implementation side (exhaustive in both tiers): versions x segments x fields x components x
subcomponents, three spellings (HL7 name, long name, positional path) x upper/lower/mixed case,
for reads (which child name the proxy designates), writes and deletes (dump of the parent), plus
names of other parents' children, non-existent indices and malformed paths.
Correspondence: the same (version, parent, spelling) queries are answered by the Coq model
`resolve` and compared inside Coq (quick: 3 seed-chosen versions; thorough: all versions).

    /venv/bin/python harness/c14.py --repin     re-pin coq/Oblig/C14_v2_X.v after an INTENDED table change
"""
import os
import re
import sys
import time

sys.path.insert(0, os.path.dirname(__file__))
from common import Run, COQ, use_repo, coq_eval_many, parse_nat_lists, shard, theorems_of, BuildLock, regenerate, make
from coqgen import coq_str, is_model_str

use_repo()
import hl7apy
from hl7apy.core import Segment, Field, Component, SubComponent, ElementProxy
from hl7apy.exceptions import ChildNotFound, ChildNotValid, HL7apyException

VERSIONS = sorted(hl7apy.SUPPORTED_LIBRARIES.keys(), key=lambda v: [int(x) for x in v.split('.')])


def vtag(v):
    return 'v' + v.replace('.', '_')


# ------------------------------------------------------------------------------------------------
# per-version obligation files (pinned tallies)

OBLIG_TEMPLATE = '''(* C14 obligation for HL7 v%(v)s, decided by complete enumeration inside the kernel (vm_compute):
   - every field row of every segment is reached by its HL7 name and, unless exempt, by its long name
     (seg_getattr on the Segment the library builds), and neither spelling is an attribute name;
   - likewise every component row of every complex datatype under a field of that datatype, and every
     subcomponent row under every component parent (DATATYPES entry);
   - child keys are the entries' own names, upper case and pairwise distinct; field parents are
     <SEG>_<i> in upper case with a leaf reference or the components of a complex datatype; no
     DATATYPES key or long name has the shape of a positional path of a field (premise of C14_positional);
   - ANYHL7SEGMENT (a structure wildcard, not a segment) is skipped.
   Letter case and positional paths are covered for all inputs by C14_case / C14_positional.
   The tallies are PINNED: rows, long names checked, exempt (shared long name / long name equal to a
   child name / long name equal to an attribute name of the class), rows without long name -- at the
   three levels -- then the parent counts and a digest of the alias map (child name -> long name).
   A table change that alters an exemption or an alias breaks this file; after an INTENDED table
   change re-pin with  /venv/bin/python harness/c14.py --repin *)
From Coq Require Import List Bool NArith Init.Byte.
From HL7 Require Import Lib.Str Model.Ref Model.Tree Model.Resolve.
From HL7 Require Gen.%(mod)s.
Import ListNotations. Open Scope N_scope.

Definition rep_%(tag)s : c14_report := report Gen.%(mod)s.tables TOLERANT.

Theorem C14_tables_%(tag)s :
  summary rep_%(tag)s =
  (true,
   %(seg)s,     (* field rows of segments *)
   %(st)s,     (* component rows of complex datatypes *)
   %(cmp)s,     (* subcomponent rows of component parents *)
   %(par)s,     (* segments, complex datatypes, component parents, field parents *)
   %(dig)s).
Proof. vm_cast_no_check (eq_refl (summary rep_%(tag)s)). Qed.

(* projections of the pinned summary (generic in the report, so nothing is recomputed) *)
Local Lemma summary_fine r x : summary r = x -> report_fine r = fst (fst (fst (fst (fst x)))).
Proof. intros <-. reflexivity. Qed.
Local Lemma summary_exempt r x : summary r = x ->
  exempt_rows r = (exempt_of (snd (fst (fst (fst (fst x))))), exempt_of (snd (fst (fst (fst x)))),
                   exempt_of (snd (fst (fst x)))).
Proof. intros <-. reflexivity. Qed.

Theorem C14_fine_%(tag)s : report_fine rep_%(tag)s = true.
Proof. exact (summary_fine _ _ C14_tables_%(tag)s). Qed.

(* rows whose long name is NOT claimed to address them: (fields of segments, components of datatypes,
   subcomponents of components) *)
Theorem C14_exempt_rows_%(tag)s : exempt_rows rep_%(tag)s = (%(e1)s, %(e2)s, %(e3)s).
Proof. exact (summary_exempt _ _ C14_tables_%(tag)s). Qed.
'''

SUMMARY_RE = re.compile(r'\((true|false),\s*(\[[^\]]*\]),\s*(\[[^\]]*\]),\s*(\[[^\]]*\]),\s*(\[[^\]]*\]),\s*(\d+)%N\)', re.S)


def eval_summaries(versions):
    """Evaluate `summary (report tables TOLERANT)` of the given versions inside coqc."""
    files = []
    for v in versions:
        files.append(('c14pin_%d_%s' % (os.getpid(), vtag(v)),
                      'From Coq Require Import List Bool NArith Init.Byte.\n'
                      'From HL7 Require Import Lib.Str Model.Ref Model.Tree Model.Resolve.\n'
                      'From HL7 Require Gen.Tables_%s.\nImport ListNotations.\n'
                      'Definition rep := report Gen.Tables_%s.tables TOLERANT.\n'
                      'Eval vm_compute in (summary rep).\n'
                      'Eval vm_compute in (map BS (r_bad_segments rep ++ r_bad_structs rep ++ r_bad_components rep '
                      '++ r_bad_field_parents rep)).\n' % (vtag(v), vtag(v))))
    out = {}
    for v, (rc, text) in zip(versions, coq_eval_many(files, timeout=1200)):
        m = SUMMARY_RE.search(text)
        if rc != 0 or not m:
            out[v] = {'error': text[-800:]}
            continue
        lists = [[int(x) for x in re.findall(r'(\d+)%N', g)] for g in m.groups()[1:5]]
        bad = re.findall(r'"([^"]*)"', text[m.end():])
        out[v] = {'fine': m.group(1) == 'true', 'seg': lists[0], 'struct': lists[1], 'comp': lists[2],
                  'parents': lists[3], 'digest': int(m.group(6)), 'bad': bad}
    return out


def oblig_text(v, s):
    fmt = lambda l: '[' + '; '.join(str(x) for x in l) + ']'
    ex = [l[2] + l[3] + l[4] for l in (s['seg'], s['struct'], s['comp'])]
    return OBLIG_TEMPLATE % dict(v=v, mod='Tables_' + vtag(v), tag=vtag(v), seg=fmt(s['seg']), st=fmt(s['struct']),
                                 cmp=fmt(s['comp']), par=fmt(s['parents']), dig=s['digest'],
                                 e1=ex[0], e2=ex[1], e3=ex[2])


def repin():
    with BuildLock():
        regenerate(('params', 'tables'))
        rc, out = make(['Model/Resolve.vo'] + ['Gen/Tables_%s.vo' % vtag(v) for v in VERSIONS])
    if rc != 0:
        print(out[-2000:])
        sys.exit(2)
    sums = eval_summaries(VERSIONS)
    for v in VERSIONS:
        s = sums[v]
        if 'error' in s or not s['fine']:
            print('version %s: NOT pinned (%s)' % (v, s.get('error') or ('failing: %s' % s['bad'][:20])))
            continue
        with open(os.path.join(COQ, 'Oblig', 'C14_%s.v' % vtag(v)), 'w') as f:
            f.write(oblig_text(v, s))
        print('version %s pinned: seg %s struct %s comp %s parents %s digest %d' % (
            v, s['seg'], s['struct'], s['comp'], s['parents'], s['digest']))



# ------------------------------------------------------------------------------------------------
# implementation side: the exhaustive alias sweep of one version (runs in a worker process)

WRITE_VALUE = '2020'     # a value every base datatype accepts (year / time / number / text)
NOT_SUCH = (ChildNotFound, ChildNotValid)


def reserved_of(cls):
    """The element's own attribute names (cls_attrs and everything dir() lists), upper-cased: the
    names the property exempts; the same set harness/gen_params.py emits as reserved_<Class>."""
    return {n.upper() for n in set(cls.cls_attrs) | set(dir(cls))}


def classify_rows(names, longs, reserved):
    """Per row: 'nolong' | 'dup' (long name shared within the parent) | 'shadow' (long name is also a
    child name of the parent) | 'reserved' (long name is an attribute name) | 'ok'."""
    out = []
    up_names = set(n.upper() for n in names)
    for l in longs:
        if l is None:
            out.append('nolong')
        elif longs.count(l) > 1:
            out.append('dup')
        elif l.upper() in up_names:
            out.append('shadow')
        elif l.upper() in reserved:
            out.append('reserved')
        else:
            out.append('ok')
    return out


def tally_of(classes):
    return [len(classes), classes.count('ok'), classes.count('dup'), classes.count('shadow'),
            classes.count('reserved'), classes.count('nolong')]


def mixed_case(s, rng):
    """A letter-case variant that is neither all upper nor all lower when the name has two letters."""
    out = [c.upper() if rng.random() < .5 else c.lower() for c in s]
    letters = [i for i, c in enumerate(s) if c.isalpha()]
    if len(letters) >= 2:
        out[letters[0]] = s[letters[0]].lower()
        out[letters[-1]] = s[letters[-1]].upper()
    return ''.join(out)


def case_variants(sp, rng):
    return [('upper', sp.upper()), ('lower', sp.lower()), ('mixed', mixed_case(sp, rng))]


def shape(el, depth=0):
    """Structural dump of an element: names and datatypes of the tree below it, and its encoding."""
    kids = []
    if depth < 3 and not isinstance(el, SubComponent):
        try:
            kids = [shape(c, depth + 1) for c in el.children]
        except Exception as ex:   # noqa
            kids = ['EXC ' + type(ex).__name__]
    extra = ()
    if isinstance(el, Segment):
        extra = (el._last_child_index,)
    dt = el.datatype if isinstance(el, (Field, Component, SubComponent)) else None
    return (el.name, dt, tuple(kids)) + extra


def dump(el):
    """Encoding and structure below the element (its own name left out: the dumps of two fields of the
    same datatype are comparable)."""
    try:
        enc = el.to_er7()
    except Exception as ex:   # noqa
        enc = 'EXC ' + type(ex).__name__
    return (enc, shape(el)[1:])


def exc_code(ex):
    from segcorr import outcome_code
    return 100 + outcome_code(ex)


def is_seq(ref):
    return isinstance(ref, (tuple, list)) and len(ref) > 1 and ref[0] in ('sequence', 'choice') and \
        isinstance(ref[1], (tuple, list))


def long_of(ref):
    try:
        return ref[3]
    except (IndexError, TypeError):
        return None


class Sweep(object):
    def __init__(self, v, seed, limit=None, chunk=0, nchunks=1):
        import random
        self.v = v
        self.chunk, self.nchunks = chunk, nchunks
        self.lib = hl7apy.load_library(v)
        self.rng = random.Random('%d/%s/%d' % (seed, v, chunk))
        self.failures = []
        self.cases = []        # model queries: (kind, seg, field, comp, spelling, code, n1, n2)
        self.counts = {'reads': 0, 'writes': 0, 'deletes': 0, 'negatives': 0, 'aliases_nontrivial': 0,
                       'same_exception_writes': 0, 'untyped_leaf_fields': 0, 'standalone_field_parents': 0,
                       'same_child_probes': 0}
        self.distinct = set()
        self.samples = []
        self.limit = limit
        self.res = {Segment: reserved_of(Segment), Field: reserved_of(Field), Component: reserved_of(Component)}
        self.dirs = {cls: set(dir(cls)) - set(cls.cls_attrs) for cls in (Segment, Field, Component)}
        self.canon = {}        # canonical write/delete dumps, keyed by (structure identity, position)
        self.comp_done = set()
        self.tally = {'seg': [0] * 6, 'struct': [0] * 6, 'comp': [0] * 6}

    def fail(self, kind, what, **data):
        data['version'] = self.v
        self.failures.append({'kind': kind, 'what': what, 'data': data})

    # -- observation of one attribute read ------------------------------------------------------
    def observe(self, parent, sp):
        """(code, name1, name2) in the model's vocabulary, plus the raw result."""
        try:
            r = getattr(parent, sp)
        except Exception as ex:   # noqa
            return (exc_code(ex), '', ''), ex
        if isinstance(r, ElementProxy):
            owner = r.element_list.element
            if owner is parent:
                return (0, r.element_name, ''), r
            return (1, owner.name or '', r.element_name), r
        return (2, '', ''), r

    def model_case(self, kind, sn, fn, cn, sp, obs, cls):
        if sp in self.dirs[cls]:         # found by normal attribute lookup: __getattr__ is not reached
            return
        if not all(is_model_str(x) for x in (sp, obs[1], obs[2])):
            return
        self.cases.append((kind, sn, fn or '', cn or '', sp, obs[0], obs[1], obs[2]))

    # -- positive aliases -------------------------------------------------------------------------
    def check_read(self, parent, pk, pname, mode, sp_base, expect, kind, sn, fn, cn, cls, pick, make=None, adder=None):
        """All letter cases of one spelling must designate `expect` (child name, or (comp, sub))."""
        variants = case_variants(sp_base, self.rng)
        for i, (cname, sp) in enumerate(variants):
            obs, _ = self.observe(parent, sp)
            self.counts['reads'] += 1
            want = (0, expect, '') if not isinstance(expect, tuple) else (1, expect[0], expect[1])
            if sp != want[1 if want[0] == 0 else 2]:
                self.distinct.add((pk, pname, sp))
            if obs != want:
                self.fail('alias-resolves-elsewhere',
                          'a spelling of a child does not designate that child when read',
                          parent_kind=pk, parent=pname, mode=mode, case=cname, spelling=sp,
                          expected=list(want), observed=list(obs))
            if i == pick:
                self.model_case(kind, sn, fn, cn, sp, obs, cls)
                if mode != 'positional' and (kind != 1 or pick == 0):
                    # the method itself, on the spelling as it is (correspondence only; a third of the field level)
                    try:
                        fo = (0, parent.find_child_reference(sp)['name'], '')
                    except Exception as ex:   # noqa
                        fo = (exc_code(ex), '', '')
                    if all(is_model_str(x) for x in (sp, fo[1])):
                        self.cases.append((kind, sn, fn or '', cn or '', sp, fo[0], fo[1], fo[2], 1))
            if adder is not None and mode != 'positional':
                # the add_field / add_component / add_subcomponent API reaches a child by name too
                try:
                    made = getattr(make(), adder)(sp).name
                except Exception as ex:   # noqa
                    made = 'EXC ' + type(ex).__name__
                self.counts['adds'] = self.counts.get('adds', 0) + 1
                if made != expect:
                    self.fail('alias-resolves-elsewhere', 'a spelling of a child does not create that child through '
                              '%s()' % adder, parent_kind=pk, parent=pname, mode=adder, case=cname, spelling=sp,
                              expected=expect, observed=made)
        if len(self.samples) < 4 and self.rng.random() < .0005:
            self.samples.append({'version': self.v, 'parent': '%s %s' % (pk, pname), 'mode': mode,
                                 'spellings': [sp for _, sp in variants], 'designates': expect})

    def write_delete(self, make, pk, pname, mode, sp, canon_key, canon_sp, path=None):
        """Write through spelling sp on a fresh parent, then delete through it; both dumps must equal
        those obtained through the canonical HL7 name(s)."""
        def run(spelling):
            p = make()
            target = p
            try:
                if path is not None:     # canonical form of a subcomponent: component name, then its own name
                    target = getattr(p, path)
                setattr(target, spelling, WRITE_VALUE)
                w = dump(p)
            except Exception as ex:   # noqa
                return ('EXC ' + type(ex).__name__,), None
            try:
                if path is not None:
                    target = getattr(p, path)
                delattr(target, spelling)
                d = dump(p)
            except Exception as ex:   # noqa
                d = ('EXC ' + type(ex).__name__,)
            return w, d
        if canon_key not in self.canon:
            self.canon[canon_key] = run(canon_sp)
        cw, cd = self.canon[canon_key]
        if path is not None:
            path = None                 # the alias itself is applied to the parent directly
        w, d = run(sp)
        self.counts['writes'] += 1
        self.counts['deletes'] += 1
        if len(cw) == 1:
            self.counts['same_exception_writes'] += 1
        if path is None and len(w) != 1:
            self.read_write_delete_same(make, pk, pname, mode, sp, canon_sp)
        if w != cw:
            self.fail('alias-write-differs', 'writing through a spelling of a child gives a different element '
                      'than writing through its HL7 name', parent_kind=pk, parent=pname, mode=mode, spelling=sp,
                      canonical=canon_sp, observed=repr(w)[:600], expected=repr(cw)[:600])
        elif d != cd:
            self.fail('alias-delete-differs', 'deleting through a spelling of a child gives a different element '
                      'than deleting through its HL7 name', parent_kind=pk, parent=pname, mode=mode, spelling=sp,
                      canonical=canon_sp, observed=repr(d)[:600], expected=repr(cd)[:600])

    def read_write_delete_same(self, make, pk, pname, mode, sp, canon_sp):
        """With two repetitions of the child in place, a read, a write and a delete through spelling sp
        must all address one and the same child (the one the read returns), identified by object identity."""
        try:
            p = make()
            setattr(p, canon_sp, 'R1')
            first = getattr(p, canon_sp)[0]
            second = type(first)(first.name, version=first.version, validation_level=first.validation_level)
            second.value = 'R2'
            p.add(second)
            listed = [c for c in p.children if c.name == first.name]
            if len(listed) != 2 or listed[0] is not first or listed[1] is not second:
                return
        except Exception:   # noqa  (parents that take no second repetition are another property's business)
            return
        self.counts['same_child_probes'] += 1
        what = None
        try:
            read = getattr(p, sp)[0]
            if read is not first:
                what = 'the read returns %r, not the first repetition' % (read,)
            else:
                setattr(p, sp, 'W1')
                now = [c for c in p.children if c.name == first.name]
                vals = [c.to_er7() for c in now]
                if vals != ['W1', 'R2']:
                    what = 'after writing W1 the repetitions encode %r, expected [W1, R2]' % (vals,)
                else:
                    delattr(p, sp)
                    left = [c for c in p.children if c.name == first.name]
                    if len(left) != 1 or left[0] is not second:
                        what = 'after the delete the repetitions left encode %r, expected [R2] ' \
                               '(the delete removed another child than the read and the write addressed)' \
                               % ([c.to_er7() for c in left],)
        except Exception as ex:   # noqa
            what = 'raised %s: %s' % (type(ex).__name__, str(ex)[:200])
        if what:
            self.fail('read-write-delete-address-different-children', 'with two repetitions in place, a read, a '
                      'write and a delete through one spelling do not address one and the same child: ' + what,
                      parent_kind=pk, parent=pname, mode=mode, spelling=sp, canonical=canon_sp)

    # -- names that designate nothing ---------------------------------------------------------------
    def negative(self, make, pk, pname, sp, why, kind, sn, fn, cn, cls, extra=None, prep=None, model=True):
        """`prep` puts an instance of the intermediate component in place before a delete, so that the
        delete reaches the name resolution (deleting below an absent element is another matter)."""
        if sp in self.dirs[cls] or sp in cls.cls_attrs:
            return                      # an attribute of the element, not a candidate child name
        for op in ('read', 'write', 'delete'):
            p = make()
            if prep is not None and op == 'delete':
                prep(p)
            before = dump(p)
            self.counts['negatives'] += 1
            try:
                if op == 'read':
                    r = getattr(p, sp)
                elif op == 'write':
                    setattr(p, sp, WRITE_VALUE)
                    r = None
                else:
                    delattr(p, sp)
                    r = None
            except NOT_SUCH as ex:
                r = ex
            except Exception as ex:   # noqa
                data = dict(parent_kind=pk, parent=pname, spelling=sp, op=op, why=why, exception=type(ex).__name__)
                data.update(extra or {})
                self.fail('missing-name-other-exception', 'a name that designates no child raises something else '
                          'than ChildNotFound / ChildNotValid', **data)
                r = ex
            else:
                data = dict(parent_kind=pk, parent=pname, spelling=sp, op=op, why=why,
                            result=repr(r)[:200])
                data.update(extra or {})
                self.fail('missing-name-no-exception', 'a name that designates no child is accepted', **data)
            after = dump(p)
            if after != before:
                data = dict(parent_kind=pk, parent=pname, spelling=sp, op=op, why=why, before=repr(before)[:400],
                            after=repr(after)[:400])
                data.update(extra or {})
                self.fail('missing-name-creates-child', 'a name that designates no child changed the element', **data)
            if op == 'read' and model:
                obs = (exc_code(r), '', '') if isinstance(r, Exception) else self.observe(make(), sp)[0]
                self.model_case(kind, sn, fn, cn, sp, obs, cls)

    # -- one component parent (a component row of a datatype): its subcomponent rows ----------------
    def sweep_component(self, sn, fname, cname, cref):
        v = self.v
        key = id(cref)
        if key in self.comp_done or not is_seq(cref) or (sn and self.lib.DATATYPES.get(cname) is cref):
            return              # DATATYPES entries are swept once per version (chunk 0), as parents of their own
        self.comp_done.add(key)
        rows = cref[1]
        names = [r[0] for r in rows]
        longs = [long_of(r[1]) for r in rows]
        classes = classify_rows(names, longs, self.res[Component])
        self.tally['comp'] = [a + b for a, b in zip(self.tally['comp'], tally_of(classes))]
        make = lambda: Component(cname, version=v, reference=cref)
        c = make()
        for k, (row, cl) in enumerate(zip(rows, classes)):
            pick = self.rng.randrange(3)
            self.check_read(c, 'component', cname, 'name', row[0], row[0], 2, sn, fname, cname, Component, pick,
                            make, 'add_subcomponent')
            for _, sp in case_variants(row[0], self.rng):
                self.write_delete(make, 'component', cname, 'name', sp, ('c', key, k), row[0])
            if cl == 'ok':
                self.check_read(c, 'component', cname, 'long', longs[k], row[0], 2, sn, fname, cname, Component, pick,
                                make, 'add_subcomponent')
                for _, sp in case_variants(longs[k], self.rng):
                    self.write_delete(make, 'component', cname, 'long', sp, ('c', key, k), row[0])
        dt = cref[2]
        foreign = next((n for n in sorted(self.lib.DATATYPES) if not n.startswith(dt + '_')), None)
        for sp, why in (('%s_%d' % (dt, len(rows) + 1), 'index beyond the subcomponents'),
                        ('%s_0' % dt, 'index 0'), (foreign, 'component of another datatype'),
                        ('XQZ_1', 'unknown name'), (dt, 'the datatype itself')):
            if sp:
                self.negative(make, 'component', cname, sp.lower(), why, 2, sn, fname, cname, Component)

    # -- positional paths of OTHER fields whose number merely begins with this field's number -------
    def sibling_paths(self, make, sn, fname, fref, siblings, standalone):
        """<SEG>_<i'>_<j>[_<k>] with str(i) a proper decimal prefix of str(i') (3 -> 30..39, 1 -> 10..19) is a
        path of another field: on field i it designates nothing.  Every such sibling of the segment, and one
        number beyond the table; the field holds its first component, so that a path wrongly applied to
        it would read, overwrite or delete something."""
        try:
            prefix, idx = fname.rsplit('_', 1)
            i = int(idx)
        except ValueError:
            return
        nums = []
        for n in siblings:
            try:
                nums.append(int(n.rsplit('_', 1)[1]))
            except (ValueError, IndexError):
                pass
        others = [n for n in sorted(set(nums)) if n != i and str(n).startswith(str(i))]
        beyond = i * 10 + 7
        dt = fref[2] if len(fref) > 2 else None
        if is_seq(fref) and fref[1]:
            first = fref[1][0][0]
            jc = next((j + 1 for j, r in enumerate(fref[1]) if is_seq(r[1])), 1)
        elif dt == 'varies':
            first, jc = 'VARIES_1', 1
        elif dt is not None and self.lib.is_base_datatype(dt):
            first, jc = dt, 1
        else:
            return
        prep = lambda p: setattr(p, first, WRITE_VALUE)
        held = lambda: (lambda p: (prep(p), p)[1])(make())     # the parent already holds its first component
        for n in others + ([beyond] if beyond not in nums else []):
            paths = [('%s_%d_1' % (prefix, n), 'component path of another field whose number begins with this one')]
            if n != beyond:
                paths.append(('%s_%d_%d_1' % (prefix, n, jc),
                              'subcomponent path of another field whose number begins with this one'))
            for sp, why in paths:
                self.negative(held, 'field', fname, sp.lower(), why, 1, sn, fname, None, Field,
                              extra={'sibling_prefix': True}, model=not standalone)

    # -- one field parent -----------------------------------------------------------------------------
    def sweep_field(self, sn, fname, fref, standalone=False, siblings=()):
        v = self.v
        lib = self.lib
        if standalone:
            make = lambda: Field(fname, version=v)
            self.counts['standalone_field_parents'] += 1
        else:
            make = lambda: Field(fname, version=v, reference=fref)
        f = make()
        dt = fref[2] if len(fref) > 2 else None
        k1 = 1 if not standalone else None          # the model builds field parents from segment rows only
        self.sibling_paths(make, sn, fname, fref, siblings, standalone)
        def mcase(*a):
            if k1 is not None:
                self.model_case(*a)
        if not is_seq(fref):
            if dt is not None and lib.is_base_datatype(dt):
                pick = self.rng.randrange(3)
                self.check_read(f, 'field', fname, 'positional', '%s_1' % fname, dt, 1, sn, fname, None, Field,
                                pick if k1 else -1)
                self.check_read(f, 'field', fname, 'name', dt, dt, 1, sn, fname, None, Field, pick if k1 else -1)
                sp = case_variants('%s_1' % fname, self.rng)[pick][1]
                self.write_delete(make, 'field', fname, 'positional', sp,
                                  ('fb', dt, fname if fname in ('MSH_1', 'MSH_2') else None), dt)
                negs = (('%s_2' % fname, 'base datatype field has only _1'), ('%s_0' % fname, 'index 0'),
                        ('%s_1_1' % fname, 'base datatype field has no subcomponent path'),
                        ('%s_1' % dt, 'base datatype has no components'))
            elif dt == 'varies':
                pick = self.rng.randrange(3)
                for j in (1, 2, 5):
                    self.check_read(f, 'field', fname, 'positional', '%s_%d' % (fname, j), 'VARIES_%d' % j, 1, sn,
                                    fname, None, Field, pick if k1 else -1)
                # positions start at 1: <field>_0 / VARIES_0 designate nothing (C14_no_such_varies, second clause)
                negs = (('%s_0' % fname, 'index 0'), ('VARIES_0', 'index 0'), ('VARIES_07', 'index with a leading zero'))
                # a subcomponent path of a varies field: no structure to decode it against
                self.negative(make, 'field', fname, ('%s_1_1' % fname).lower(), 'subcomponent path of a varies field',
                              1, sn, fname, None, Field, extra={'field_datatype': 'varies'}, model=not standalone)
            else:
                self.counts['untyped_leaf_fields'] += 1
                negs = ()
            for sp, why in negs + ((fname, 'the field itself (2 parts)'), ('%s_1_1_1' % fname, '5 parts'),
                                   ('XQZ_1', 'unknown name')):
                self.negative(make, 'field', fname, sp.lower(), why, 1, sn, fname, None, Field, model=not standalone)
            return
        rows = fref[1]
        names = [r[0] for r in rows]
        longs = [long_of(r[1]) for r in rows]
        classes = classify_rows(names, longs, self.res[Field])
        skey = id(rows)
        for j, (row, cl) in enumerate(zip(rows, classes)):
            cname, cref = row[0], row[1]
            pick = self.rng.randrange(3)
            mp = pick if k1 else -1
            pos = '%s_%d' % (fname, j + 1)
            self.check_read(f, 'field', fname, 'name', cname, cname, 1, sn, fname, None, Field, mp, make, 'add_component')
            self.check_read(f, 'field', fname, 'positional', pos, cname, 1, sn, fname, None, Field, mp)
            self.write_delete(make, 'field', fname, 'positional', case_variants(pos, self.rng)[pick][1],
                              ('f', skey, j), cname)
            if cl == 'ok':
                self.check_read(f, 'field', fname, 'long', longs[j], cname, 1, sn, fname, None, Field, mp, make,
                                'add_component')
            if ('fw', skey, j) not in self.canon:      # name / long name writes: once per datatype row
                self.canon[('fw', skey, j)] = True
                for _, sp in case_variants(cname, self.rng):
                    self.write_delete(make, 'field', fname, 'name', sp, ('f', skey, j), cname)
                if cl == 'ok':
                    for _, sp in case_variants(longs[j], self.rng):
                        self.write_delete(make, 'field', fname, 'long', sp, ('f', skey, j), cname)
            if is_seq(cref):
                subs = cref[1]
                g = make()
                for k, srow in enumerate(subs):
                    sp = '%s_%d' % (pos, k + 1)
                    pk = self.rng.randrange(3)
                    self.check_read(g, 'field', fname, 'positional', sp, (cname, srow[0]), 1, sn, fname, None, Field,
                                    pk if k1 else -1)
                    self.write_delete(make, 'field', fname, 'positional', case_variants(sp, self.rng)[pk][1],
                                      ('fs', skey, j, k), srow[0], path=cname)
                self.negative(make, 'field', fname, ('%s_%d' % (pos, len(subs) + 1)).lower(),
                              'index beyond the subcomponents', 1, sn, fname, None, Field,
                              prep=lambda p, c=cname: setattr(p, c, WRITE_VALUE), model=not standalone)
                if not standalone:
                    self.sweep_component(sn, fname, cname, cref)
            elif j == 0 or self.rng.random() < .2:
                self.negative(make, 'field', fname, ('%s_1' % pos).lower(), 'subcomponent path under a base component',
                              1, sn, fname, None, Field, prep=lambda p, c=cname: setattr(p, c, WRITE_VALUE),
                              model=not standalone)
        other = next((n for n in sorted(lib.DATATYPES) if not n.startswith(dt + '_')), None)
        fprefix, fidx = fname.rsplit('_', 1)
        for sp, why in (('%s_%d' % (fname, len(rows) + 1), 'index beyond the components'), ('%s_0' % fname, 'index 0'),
                        ('%s_%d_1' % (fprefix, int(fidx) + 1), 'positional path of another field'),
                        (other, 'component of another datatype'), (fname, 'the field itself (2 parts)'),
                        ('%s_1_1_1' % fname, '5 parts'), ('XQZ_1', 'unknown name'), ('%s_x' % fname, 'non-numeric index')):
            if sp:
                self.negative(make, 'field', fname, sp.lower(), why, 1, sn, fname, None, Field, model=not standalone)

    # -- one segment -------------------------------------------------------------------------------------
    def sweep_segment(self, sn, ref, make=None):
        v = self.v
        lib = self.lib
        synthetic = make is not None
        rows = ref[1]
        names = [r[0] for r in rows]
        longs = [long_of(r[1]) for r in rows]
        classes = classify_rows(names, longs, self.res[Segment])
        self.tally['seg'] = [a + b for a, b in zip(self.tally['seg'], tally_of(classes))]
        if make is None:
            make = lambda: Segment(sn, version=v)
        s = make()
        before = dump(s)
        for i, (row, cl) in enumerate(zip(rows, classes)):
            fname, fref = row[0], row[1]
            pick = self.rng.randrange(3)
            self.check_read(s, 'segment', sn, 'name', fname, fname, 0, sn, None, None, Segment, pick, make, 'add_field')
            for _, sp in case_variants(fname, self.rng):
                self.write_delete(make, 'segment', sn, 'name', sp, ('s', sn, i), fname)
            if cl == 'ok':
                self.check_read(s, 'segment', sn, 'long', longs[i], fname, 0, sn, None, None, Segment, pick, make,
                                'add_field')
                for _, sp in case_variants(longs[i], self.rng):
                    self.write_delete(make, 'segment', sn, 'long', sp, ('s', sn, i), fname)
            self.sweep_field(sn, fname, fref, siblings=names)
            std = lib.FIELDS.get(fname)
            if std is not None and std is not fref and std != fref and not synthetic:
                self.sweep_field(sn, fname, std, standalone=True, siblings=names)
        if dump(s) != before:
            self.fail('alias-read-changes-parent', 'reading children by their names changed the segment',
                      parent_kind='segment', parent=sn)
        open_ended = s.allow_infinite_children
        others = sorted(x for x in lib.SEGMENTS if x != sn and x != 'ANYHL7SEGMENT' and is_seq(lib.SEGMENTS[x])
                        and lib.SEGMENTS[x][1])
        o = others[(others.index(min(others, key=lambda x: (x < sn, x)))) % len(others)] if others else None
        negs = [('%s_0' % sn, 'index 0'), ('%s_-1' % sn, 'negative index'), ('%s_07' % sn, 'index with a leading zero'),
                ('%s_1_1' % sn, 'a positional path is not a segment child (3 parts)'),
                (sn, 'the segment itself'), ('XQZ_1', 'unknown name'), ('%s_x' % sn, 'non-numeric index'),
                ('%s_1_1_1_1' % sn, '5 parts')]
        if not open_ended:
            negs += [('%s_%d' % (sn, len(rows) + 1), 'index beyond the fields'), ('%s_999' % sn, 'index 999')]
        if o:
            orow = lib.SEGMENTS[o][1][0]
            negs.append((orow[0], 'field of another segment'))
            ol = long_of(orow[1])
            if ol and ol.upper() not in set(x.upper() for x in longs if x) and ol.upper() not in self.res[Segment]:
                negs.append((ol, 'long name of a field of another segment'))
            negs.append(('%s_99' % o, 'non-existent field of another segment'))
        if rows and is_seq(rows[0][1]):
            negs.append((rows[0][1][1][0][0], 'a component name is not a segment child'))
        for sp, why in negs:
            idx = sp[len(sn) + 1:] if sp.upper().startswith(sn + '_') else ''
            if open_ended and idx.isdigit() and idx == str(int(idx)) and int(idx) >= 1:
                continue        # <SEG>_<k>, k = 1, 2, ... written plainly, is a child of an open-ended segment
            self.negative(make, 'segment', sn, sp.lower(), why, 0, sn, None, None, Segment)

    def run(self):
        lib = self.lib
        n = 0
        segs = [sn for sn in sorted(lib.SEGMENTS) if sn != 'ANYHL7SEGMENT' and is_seq(lib.SEGMENTS[sn])]
        for i, sn in enumerate(segs):
            if i % self.nchunks != self.chunk:
                continue
            try:
                self.sweep_segment(sn, lib.SEGMENTS[sn])
            except Exception as ex:   # noqa - an access the sweep takes for granted (an existing child by its own name) raised
                import traceback
                tb = traceback.extract_tb(ex.__traceback__)
                site = next(('%s:%s' % (os.path.basename(f.filename), f.name) for f in reversed(tb) if 'hl7apy' in f.filename), '?')
                self.fail('alias-raises', 'addressing a child of a segment of the tables by one of its names raised', parent_kind='segment',
                          parent=sn, exception=type(ex).__name__, message=str(ex)[:200], site=site)
            n += 1
            if self.limit and n >= self.limit:
                break
        self.tally['comp'] = [0] * 6
        if self.chunk == 0:
            # tallies of the component rows of every complex datatype / subcomponent rows of every component
            # parent (the obligations' second and third level), and the component parents as such
            for d in sorted(lib.DATATYPES_STRUCTS):
                rows = lib.DATATYPES_STRUCTS[d]
                classes = classify_rows([r[0] for r in rows], [long_of(r[1]) for r in rows], self.res[Field])
                self.tally['struct'] = [a + b for a, b in zip(self.tally['struct'], tally_of(classes))]
            self.comp_done = set()
            for cname in sorted(lib.DATATYPES):
                cref = lib.DATATYPES[cname]
                if is_seq(cref):
                    self.comp_done.discard(id(cref))
                    self.sweep_component('', '', cname, cref)
        self.counts['aliases_nontrivial'] = len(self.distinct)
        return {'v': self.v, 'failures': self.failures, 'cases': self.cases, 'counts': self.counts,
                'samples': self.samples, 'tally': self.tally}



# ------------------------------------------------------------------------------------------------
# synthetic references (the shape of message-profile structures): collisions the shipped tables do not
# contain -- a long name equal to ANOTHER child's HL7 name (the HL7 name must win), shared long names
# (exempt; the model says which child the code picks), long names equal to attribute names

SYN_SUBS = (('HD_1', ('leaf', None, 'IS', 'HD_2', None, -1), (0, 1), 'CMP'),
            ('HD_2', ('leaf', None, 'ST', 'X_SUB', None, -1), (0, 1), 'CMP'),
            ('HD_3', ('leaf', None, 'ID', 'DATATYPE', None, -1), (0, 1), 'CMP'),
            ('HD_4', ('leaf', None, 'ID', 'TWIN', None, -1), (0, 1), 'CMP'),
            ('HD_5', ('leaf', None, 'ID', 'TWIN', None, -1), (0, 1), 'CMP'))
SYN_COMPS = (('CX_1', ('leaf', None, 'ST', 'CX_2', None, -1), (0, 1), 'CMP'),
             ('CX_2', ('leaf', None, 'ST', 'B_COMP', None, -1), (0, 1), 'CMP'),
             ('CX_3', ('leaf', None, 'ST', 'TWIN', None, -1), (0, 1), 'CMP'),
             ('CX_4', ('leaf', None, 'ST', 'TWIN', None, -1), (0, 1), 'CMP'),
             ('CX_5', ('leaf', None, 'ST', 'NAME', None, -1), (0, 1), 'CMP'),
             ('CX_6', ('sequence', SYN_SUBS, 'HD', 'SIXTH_COMP', None, -1), (0, 1), 'CMP'))
SYN_SEG = ('sequence', (
    ('PID_1', ('leaf', None, 'ST', 'PID_2', None, -1), (0, 1), 'FIE'),
    ('PID_2', ('leaf', None, 'ST', 'SECOND_FIELD', None, -1), (0, 1), 'FIE'),
    ('PID_3', ('leaf', None, 'ST', 'TWIN', None, -1), (0, 1), 'FIE'),
    ('PID_4', ('leaf', None, 'ST', 'TWIN', None, -1), (0, -1), 'FIE'),
    ('PID_5', ('leaf', None, 'ST', 'VALUE', None, -1), (0, 1), 'FIE'),
    ('PID_6', ('sequence', SYN_COMPS, 'CX', 'SIXTH', None, -1), (0, 1), 'FIE')))
SYN_VERSION = '2.5'


def coq_ref(ref):
    o = lambda x: 'None' if x is None else '(Some %s)' % coq_str(x)
    info = None
    if len(ref) == 6:
        info = '(mk_info %s %s %s (%d)%%Z)' % (o(ref[2]), o(ref[3]), o(ref[4]), ref[5])
    if ref[0] == 'leaf':
        return '(SLeaf %s)' % info
    rows = '; '.join('SIn %s %s %s (%d)%%Z (%d)%%Z' % (r[3], coq_str(r[0]), coq_ref(r[1]), r[2][0], r[2][1])
                     for r in ref[1])
    return '(SSeqIn %s [%s] %s)' % ('true' if ref[0] == 'choice' else 'false', rows,
                                   '(Some %s)' % info if info else 'None')


def synthetic_sweep(seed):
    """The whole per-segment sweep on a Segment built from SYN_SEG; also queries of the exempt
    spellings, for the correspondence only."""
    sw = Sweep(SYN_VERSION, seed)
    make = lambda: Segment('PID', version=SYN_VERSION, reference=SYN_SEG)
    sw.sweep_segment('PID', SYN_SEG, make=make)
    s = make()
    for sp in ('twin', 'TWIN', 'VALUE', 'Value', 'pid_2', 'PID_1'):
        sw.model_case(0, 'PID', None, None, sp, sw.observe(s, sp)[0], Segment)
    f = Field('PID_6', version=SYN_VERSION, reference=SYN_SEG[1][5][1])
    for sp in ('twin', 'NAME', 'Name', 'cx_2', 'pid_6_2', 'pid_6_6_1', 'PID_6_6_2', 'pid_6_6_5'):
        sw.model_case(1, 'PID', 'PID_6', None, sp, sw.observe(f, sp)[0], Field)
    c = Component('CX_6', version=SYN_VERSION, reference=SYN_COMPS[5][1])
    for sp in ('twin', 'DATATYPE', 'hd_2', 'datatype'):
        sw.model_case(2, 'PID', 'PID_6', 'CX_6', sp, sw.observe(c, sp)[0], Component)
    return sw


def synthetic_file(sw):
    files = model_files(SYN_VERSION, sw.cases, 10 ** 9)
    name, text, flat = files[0]
    text = text.replace('Definition run_seg (g :', 'Definition syn_ref : sref := %s.\nDefinition run_seg (g :' % coq_ref(SYN_SEG))
    text = text.replace('let s := parent_segment t sn in', 'let s := mk_segment t sn (Some syn_ref) in')
    return ('c14_%d_synthetic' % os.getpid(), text, flat)

def sweep_worker(args):
    v, seed, limit, chunk, nchunks = args
    t0 = time.time()
    r = Sweep(v, seed, limit, chunk, nchunks).run()
    r['seconds'] = round(time.time() - t0, 1)
    return r



# ------------------------------------------------------------------------------------------------
# model side: the same queries answered by Model/Resolve.v, compared inside Coq

CASE_PRELUDE = """From Coq Require Import List Bool NArith ZArith Init.Byte.
From HL7 Require Import Lib.Str Model.Result Model.Ref Model.Tree Model.Parser Model.Resolve Gen.Params.
From HL7 Require Gen.%(mod)s.
Import ListNotations. Open Scope bs_scope.
Definition t := Gen.%(mod)s.tables.
Definition lv := TOLERANT.
(* a query: spelling, mode (0 = attribute access, 1 = find_child_reference on the spelling as it is),
   expected outcome code (0 child / 1 grandchild / 2 attribute / 100 + exception), names *)
Definition q := (str * nat * nat * str * str)%%type.
Definition agree (r : result target) (c : q) : bool :=
  match c with (_, _, code, n1, n2) =>
    match target_obs r with (code', n1', n2') => Nat.eqb code code' && streqb n1 n1' && streqb n2 n2' end end.
Definition sp (c : q) : str := fst (fst (fst (fst c))).
Definition mode (c : q) : nat := snd (fst (fst (fst c))).
Definition find (p : parent) (n : str) : result target :=
  match (match p with
         | PSeg s => seg_find_child_reference t s n
         | PField f => field_find_child_reference t f n
         | PComp c => comp_find_child_reference t c n
         end) with Ok e => Ok (TChild e) | Err x => Err x end.
Definition ask {P} (p : result P) (mk : P -> parent) (c : q) : bool :=
  agree (match p with
         | Ok x => if Nat.eqb (mode c) 0 then resolve t lv (mk x) (sp c) else find (mk x) (sp c)
         | Err e => Err e end) c.
(* parents are built once per group (call by value) *)
Definition run_comp (f : result field) (g : str * list q) : list bool :=
  let c := match f with Ok f' => parent_component t lv f' (fst g) | Err e => Err e end in
  map (ask c PComp) (snd g).
Definition run_field (s : result seg) (g : str * list q * list (str * list q)) : list bool :=
  match g with (fn, qs, comps) =>
    let f := match s with Ok s' => parent_field t lv s' fn | Err e => Err e end in
    map (ask f PField) qs ++ flat_map (run_comp f) comps end.
Definition run_seg (g : str * list q * list (str * list q * list (str * list q))) : list bool :=
  match g with (sn, qs, fields) =>
    let s := parent_segment t sn in
    map (ask s PSeg) qs ++ flat_map (run_field s) fields end.
(* a component parent built from its DATATYPES entry *)
Definition run_dt (g : str * list q) : list bool :=
  let c := match slookup (fst g) (t_components t) with
           | Some r => component_of_entry t lv (mk_sentry (fst g) r CMP)
           | None => Err (HL7 EChildNotFound) end in
  map (ask c PComp) (snd g).
Fixpoint failing (n : nat) (l : list bool) : list nat :=
  match l with [] => [] | b :: r => (if b then [] else [n]) ++ failing (S n) r end.
"""


def q_term(c):
    return '(%s, %d%%nat, %d%%nat, %s, %s)' % (coq_str(c[4]), c[8] if len(c) > 8 else 0, c[5], coq_str(c[6]), coq_str(c[7]))


def model_files(v, cases, per_file):
    """Group the queries of one version by segment / field / component parent (document order) and
    pack whole segments into case files.  Returns [(name, text, flat list of cases in result order)]."""
    segs, dts = {}, {}
    for c in cases:
        kind, sn, fn, cn = c[0], c[1], c[2], c[3]
        if kind == 2 and not sn:
            dts.setdefault(cn, []).append(c)
            continue
        g = segs.setdefault(sn, {'q': [], 'f': {}})
        if kind == 0:
            g['q'].append(c)
        else:
            fg = g['f'].setdefault(fn, {'q': [], 'c': {}})
            if kind == 1:
                fg['q'].append(c)
            else:
                fg['c'].setdefault(cn, []).append(c)
    units = []       # (coq term, flat cases, is_dt)
    for sn in segs:
        g = segs[sn]
        flat = list(g['q'])
        fts = []
        for fn in g['f']:
            fg = g['f'][fn]
            flat += fg['q']
            cts = []
            for cn in fg['c']:
                flat += fg['c'][cn]
                cts.append('(%s, [%s])' % (coq_str(cn), '; '.join(q_term(c) for c in fg['c'][cn])))
            fts.append('(%s, [%s], [%s])' % (coq_str(fn), '; '.join(q_term(c) for c in fg['q']), '; '.join(cts)))
        units.append(('(%s, [%s],\n [%s])' % (coq_str(sn), '; '.join(q_term(c) for c in g['q']), ';\n  '.join(fts)),
                      flat, False))
    for cn in dts:
        units.append(('(%s, [%s])' % (coq_str(cn), '; '.join(q_term(c) for c in dts[cn])), dts[cn], True))
    files, cur, n = [], [], 0
    def flush():
        if not cur:
            return
        sg = [u for u in cur if not u[2]]
        dg = [u for u in cur if u[2]]
        flat = [c for u in sg for c in u[1]] + [c for u in dg for c in u[1]]
        text = CASE_PRELUDE % {'mod': 'Tables_' + vtag(v)}
        text += 'Definition segs : list (str * list q * list (str * list q * list (str * list q))) := [\n%s\n].\n' % \
            ';\n'.join(u[0] for u in sg)
        text += 'Definition dts : list (str * list q) := [\n%s\n].\n' % ';\n'.join(u[0] for u in dg)
        text += 'Eval vm_compute in failing 0 (flat_map run_seg segs ++ flat_map run_dt dts).\n'
        files.append(('c14_%d_%s_%d' % (os.getpid(), vtag(v), len(files)), text, flat))
    for u in units:
        if cur and n + len(u[1]) > per_file:
            flush()
            cur, n = [], 0
        cur.append(u)
        n += len(u[1])
    flush()
    return files


def pinned_tallies(v):
    """The tallies pinned in coq/Oblig/C14_<v>.v (theorem statement), or None."""
    try:
        text = open(os.path.join(COQ, 'Oblig', 'C14_%s.v' % vtag(v))).read()
    except OSError:
        return None
    m = re.search(r'summary rep_\w+ =\s*\(true,\s*(\[[^\]]*\]),[^\[]*(\[[^\]]*\]),[^\[]*(\[[^\]]*\]),', text)
    if not m:
        return None
    return [[int(x) for x in re.findall(r'\d+', g)] for g in m.groups()]


def retyped_elements(run, versions):
    """A field that is given another complex datatype (a local agreement: Field(name, datatype=T) or f.datatype = T under
    TOLERANT) addresses the components of T by HL7 name, by long name and in any case, for reads, writes and deletes."""
    from hl7apy.core import Field
    from hl7apy.exceptions import HL7apyException
    n = 0
    for v in versions:
        lib = hl7apy.load_library(v)
        structs = getattr(lib, 'DATATYPES_STRUCTS', {})
        fields = [fn for fn in sorted(lib.FIELDS) if lib.FIELDS[fn][0] == 'sequence'][:40:13]
        for fname in fields:
            old = lib.FIELDS[fname][2]
            for target in [t for t in ('CE', 'CX', 'XPN', 'HD') if t in structs and t != old][:2]:
                rows = structs[target]
                longs = [long_of(r[1]) for r in rows]
                for how in ('ctor', 'setter'):
                    def make():
                        if how == 'ctor':
                            return Field(fname, datatype=target, version=v, validation_level=2)
                        f = Field(fname, version=v, validation_level=2)
                        f.datatype = target
                        return f
                    for j, row in enumerate(rows):
                        ln = longs[j]
                        if not ln or longs.count(ln) != 1 or ln.lower() in dir(Field) or ln.lower() in Field.cls_attrs:
                            continue
                        n += 1
                        where = dict(parent_kind='field', parent=fname, version=v, retyped_to=target, how=how, child=row[0],
                                     spelling=ln.lower())
                        try:
                            f = make()
                            setattr(f, ln.lower(), 'x')                       # write by long name
                            by_name = f.children.get(row[0])
                            if len(by_name) != 1 or by_name[0].to_er7() != 'x' or getattr(f, ln.upper())[0] is not by_name[0]:
                                run.fail('alias-differs', 'a component of a retyped field reached by its long name is not the child '
                                         'its HL7 name designates', op='write/read', **where)
                                continue
                            delattr(f, ln.lower())                            # delete by long name
                            if len(f.children.get(row[0])) != 0:
                                run.fail('alias-differs', 'deleting a component of a retyped field by its long name does not remove '
                                         'the child its HL7 name designates', op='delete', **where)
                        except HL7apyException as ex:
                            run.fail('alias-raises', 'a long name of the datatype a field was retyped to does not resolve',
                                     exception=type(ex).__name__, **where)
                        except Exception as ex:  # noqa
                            run.fail('alias-raises', 'addressing a component of a retyped field raised', exception=repr(ex)[:200],
                                     **where)
    return n


def main(argv=None):
    run = Run('C14', argv)
    if run.replay:
        return replay(run)
    obl = ['Properties/C14.v'] + ['Oblig/C14_%s.v' % vtag(v) for v in VERSIONS]
    ok = run.build(['Properties/C14.vo'], gen=('params', 'tables'), obligation_files=obl)
    if ok:
        run.print_assumptions('Properties.C14', [n for n, _ in theorems_of('Properties/C14.v')])
    else:
        # say which pins / rows of which version no longer hold
        bad_versions = [v for v in VERSIONS if any(b['file'] == 'Oblig/C14_%s.v' % vtag(v) for b in run.broken)]
        if bad_versions and os.path.exists(os.path.join(COQ, 'Model', 'Resolve.vo')):
            sums = eval_summaries(bad_versions)
            for v in bad_versions:
                s = sums[v]
                if 'error' in s:
                    run.note('obligation of v%s: report does not evaluate: %s' % (v, s['error'][-300:]))
                else:
                    run.note('obligation of v%s: fine=%s failing=%s tallies now seg=%s struct=%s comp=%s parents=%s '
                             'digest=%d; pinned=%s' % (v, s['fine'], s['bad'][:12], s['seg'], s['struct'], s['comp'],
                                                       s['parents'], s['digest'], pinned_tallies(v)))
                    run.log(run.notes[-1])
    # attribute names must be lower case for the model's guard (Params lists them upper-cased)
    for cls in (Segment, Field, Component):
        bad = [a for a in cls.cls_attrs if a != a.lower()]
        if bad:
            run.disagree('attr-guard', why='cls_attrs entry is not lower case: the model guard assumes it',
                         cls=cls.__name__, names=bad)
    # ---- implementation side, in parallel over versions (big versions in several chunks)
    import multiprocessing
    tasks = []
    for v in VERSIONS:
        n = len(hl7apy.load_library(v).SEGMENTS)
        nch = 1 if n < 80 else (2 if n < 140 else 4)
        tasks += [(v, run.seed, None, c, nch) for c in range(nch)]
    tasks.sort(key=lambda t: -t[4])
    with multiprocessing.Pool(min(16, len(tasks))) as pool:
        results = pool.map(sweep_worker, tasks, chunksize=1)
    byv = {v: {'cases': [], 'counts': {}, 'tally': {'seg': [0] * 6, 'struct': [0] * 6, 'comp': [0] * 6},
               'samples': [], 'seconds': 0} for v in VERSIONS}
    for r in results:
        b = byv[r['v']]
        b['cases'] += r['cases']
        b['samples'] += r['samples']
        b['seconds'] += r['seconds']
        for k, x in r['counts'].items():
            b['counts'][k] = b['counts'].get(k, 0) + x
        for k in b['tally']:
            b['tally'][k] = [a + c for a, c in zip(b['tally'][k], r['tally'][k])]
        for f in r['failures']:
            run.fail(f['kind'], f['what'], **f['data'])
    total = {}
    for v in VERSIONS:
        for k, x in byv[v]['counts'].items():
            total[k] = total.get(k, 0) + x
    total['retyped_long_names'] = retyped_elements(run, VERSIONS)
    run.log('implementation sweep: %s; %d oracle failures; cpu %.0fs' % (
        total, len(run.failures), sum(byv[v]['seconds'] for v in VERSIONS)))
    syn = synthetic_sweep(run.seed)
    for f in syn.failures:
        f['data']['synthetic_reference'] = True
        run.fail(f['kind'], f['what'], **f['data'])
    run.log('synthetic references: %d queries, %d oracle failures' % (len(syn.cases), len(syn.failures)))
    # ---- exempt rows: counted from the tables here, pinned in the obligations there
    exempt = {}
    for v in VERSIONS:
        tl = byv[v]['tally']
        exempt[v] = {k: {'rows': tl[k][0], 'long_checked': tl[k][1], 'exempt_shared_long': tl[k][2],
                         'exempt_long_is_child_name': tl[k][3], 'exempt_long_is_attribute': tl[k][4],
                         'no_long_name': tl[k][5]} for k in ('seg', 'struct', 'comp')}
        pins = pinned_tallies(v)
        if pins is None:
            run.disagree('exempt-tally', why='no pinned tallies found', version=v)
        elif pins != [tl['seg'], tl['struct'], tl['comp']]:
            run.disagree('exempt-tally', why='tallies counted on the implementation tables differ from the pinned '
                         'obligation', version=v, implementation=[tl['seg'], tl['struct'], tl['comp']], pinned=pins)
    # ---- model side
    versions = VERSIONS if run.thorough else sorted(run.rng.sample(VERSIONS, 3), key=VERSIONS.index)
    files, index = [], []
    for v in versions:
        cases = byv[v]['cases']
        if not run.thorough:
            # quick tier: every segment-level and component-parent query, and the queries of a seed-chosen
            # quarter of the field parents
            fields = sorted({(c[1], c[2]) for c in cases if c[0] == 1})
            keep = set(run.rng.sample(fields, max(1, len(fields) // 4)))
            cases = [c for c in cases if c[0] != 1 or (c[1], c[2]) in keep]
        for name, text, flat in model_files(v, cases, 4000):
            files.append((name, text))
            index.append((v, flat))
    sname, stext, sflat = synthetic_file(syn)
    files.append((sname, stext))
    index.append((SYN_VERSION + ' synthetic reference', sflat))
    run.log('model side: %d queries of versions %s in %d case files' % (sum(len(i[1]) for i in index), versions, len(files)))
    evaluated = 0
    outs = coq_eval_many(files, timeout=1500)
    for (v, flat), (rc, out) in zip(index, outs):
        lists = parse_nat_lists(out)
        if rc != 0 or len(lists) != 1:
            run.disagree('resolve', why='case file did not evaluate', version=v, output=out[-800:])
            continue
        evaluated += len(flat)
        for i in lists[0][:50]:
            c = flat[i]
            run.disagree('resolve', version=v, parent_kind=['segment', 'field', 'component'][c[0]],
                         segment=c[1], field=c[2], comp_parent=c[3], spelling=c[4],
                         implementation=[c[5], c[6], c[7]])
    run.log('model evaluated %d queries, %d disagreements' % (evaluated, len(run.disagreements)))
    samples = []
    for v in VERSIONS:
        samples += byv[v]['samples'][:1]
    samples = samples[:6] or [{'version': VERSIONS[0], 'note': 'no sample drawn'}]
    neg = [c for v in versions for c in byv[v]['cases'] if c[5] >= 100][:3]
    samples += [{'version': versions[0] if versions else None, 'negative_query': list(c)} for c in neg]
    run.finish({
        'evaluations': total.get('reads', 0) + total.get('writes', 0) + total.get('deletes', 0) + total.get('negatives', 0)
        + total.get('adds', 0),
        'distinct_nontrivial': total.get('aliases_nontrivial', 0),
        'exhaustive': True,
        'rule': 'exhaustive: every version x segment x field row x component row x subcomponent row of the tables; '
                'spellings = HL7 name, long name (when unique within the parent, not a child name and not an '
                'attribute name of the class: exempt rows are counted), positional path <SEG>_<i>_<j>[_<k>] from the '
                'field; each in upper, lower and a seed-random mixed case; read (which child the ElementProxy '
                'designates), write and delete (dump of a fresh parent compared with the dump obtained through the HL7 '
                'name); plus per parent names of other parents\' children, indices 0 / beyond the table / 999, '
                'malformed paths (2 and 5 parts, non-numeric index) which must raise ChildNotFound or ChildNotValid '
                'and leave the dump unchanged.  non-trivial/distinct = distinct (parent, spelling) whose spelling is '
                'not the canonical upper-case HL7 name itself (measured).  Model queries: one letter case per '
                '(parent, spelling), drawn from the seed',
        'samples': samples,
        'traces_validated_against_impl': evaluated,
        'input_distribution': total,
        'per_version': {v: dict(byv[v]['counts'], model_queries=len(byv[v]['cases'])) for v in VERSIONS},
        'model_versions': versions,
        'exempt_rows': exempt,
    }, assumptions=[
        'validation level TOLERANT (the library default); the resolution functions do not consult the level '
        'except Group/Message (modelled, not part of this correspondence)',
        'parents are fresh elements: Segment(name), Field(name, reference=row reference), Component(name, '
        'reference=row reference); resolution on elements whose datatype was overridden is the heap model\'s concern',
        'letter case is ASCII; spellings are attribute names (no blanks / signs inside a path)',
        'Oblig/C14_v2_X.v pin the alias map of the shipped tables: an intended table change must be re-pinned '
        '(harness/c14.py --repin)',
    ])


def replay(run):
    import json
    r = json.load(open(run.replay))
    inp = r.get('input', {})
    v = inp.get('version')
    found = []
    if v in VERSIONS:
        sw = Sweep(v, run.seed)
        lib = sw.lib
        parent = inp.get('parent', '')
        pk = inp.get('parent_kind')
        seg = parent.split('_')[0] if pk in ('segment', 'field') else None
        if seg and seg in lib.SEGMENTS and is_seq(lib.SEGMENTS[seg]):
            sw.sweep_segment(seg, lib.SEGMENTS[seg])
        elif pk == 'component' and parent in lib.DATATYPES:
            sw.sweep_component('', '', parent, lib.DATATYPES[parent])
        found = [f for f in sw.failures if f['kind'] == r.get('kind') and
                 f['data'].get('parent') == parent and
                 f['data'].get('spelling', '').upper() == inp.get('spelling', '').upper()]
        for f in found or sw.failures[:5]:
            run.fail(f['kind'], f['what'], **f['data'])
            print('replayed failure:', f['kind'], f['data'])
    run.finish({'evaluations': 1, 'distinct_nontrivial': 2, 'rule': 'replay of one stored case', 'samples': [inp]})


if __name__ == '__main__':
    if '--repin' in sys.argv:
        repin()
        sys.exit(0)
    if '--sweep' in sys.argv:      # development aid: one version, no Coq
        v = sys.argv[sys.argv.index('--sweep') + 1]
        r = sweep_worker((v, 1, None, 0, 1))
        print(r['seconds'], r['counts'], r['tally'], len(r['cases']), len(r['failures']))
        from collections import Counter
        print(Counter(f['kind'] for f in r['failures']))
        seen = set()
        for f in r['failures']:
            k = (f['kind'], f['data'].get('why'), f['data'].get('mode'), f['data'].get('exception'))
            if k not in seen:
                seen.add(k)
                print(f)
        sys.exit(0)
    main()
