"""C12 - a rejected operation leaves its target unchanged.

Obligations: coq/Properties/C12.v (what a raising add / assignment / deletion has done to the store;
the encoding is a function of the visible part; F9 / F20 refuted with computed witnesses).
Correspondence: harness/heapcorr.py - the histories (rejected calls included, which is the point
here) are replayed in the model, whose monad keeps the effects done before a raise, and the full
state dump is compared after every step.
Oracle: around every RAISING call the target element and its ancestors are dumped (encoding with
both trailing_children settings, and the identity of every listed descendant): the dumps must be
equal.  The histories end with a catalogue of rejectable operations applied to the state reached, rejected
MOVES of an attached child included: the element the child is attached to is watched too (kind
rejected-move-detaches-source).  Segment.value = text on open-ended segments holding fields beyond their structure
(Z-segments, QPD) is an oracle-only family (family segment-value): a refused value leaves children and both
encodings unchanged.
"""
import json
import os
import sys

sys.path.insert(0, os.path.dirname(__file__))
from common import Run, theorems_of
import heapcorr as H
import segcorr
from hl7apy.core import Segment, Field, Component, SubComponent


def shape(x, ec):
    """encoding and listed descendants (by identity) of one element"""
    try:
        enc = x.to_er7(ec)
        if isinstance(x, Segment):
            enc += '\\' + x.to_er7(ec, trailing_children=True)
    except Exception as ex:  # noqa
        enc = '!%d' % segcorr.outcome_code(ex)

    def kids(y, depth=0):
        if depth > 4:
            return ()
        return tuple((id(c), c.name, kids(c, depth + 1)) for c in y.children.list)
    return (enc, kids(x))


def targets_of(impl, op):
    """the elements a call may legitimately change: its target (and, for a parent assignment, the
    would-be parent) with role 'target'; elements handed in - as values, or as the child of add / remove - with role
    'source': through their ancestors the element they are attached to at the time of the call is watched too"""
    k = op[0]
    hs = []
    if k.startswith('new'):
        return []
    if k == 'setparent':
        hs = [(op[1], 'source')] + ([(op[2], 'target')] if op[2] is not None else [])
    else:
        hs = [(op[1], 'target')]
    if k in ('add', 'remove') and isinstance(op[2], int):
        hs.append((op[2], 'source'))
    for a in op:
        if isinstance(a, (list, tuple)) and len(a) >= 2 and a[0] == 'e':
            hs.append((a[1], 'source'))
    out = []
    for h, role in hs:
        if 0 <= h < len(impl.I):
            out.append((impl.I[h], role))
    return out


def with_ancestors(elems):
    """-> (elements, roles): every element with its ancestors; the role of the first mention wins"""
    out, roles, seen = [], [], set()
    for x, role in elems:
        y, n = x, 0
        while y is not None and id(y) not in seen and n < 8:
            seen.add(id(y))
            out.append(y)
            roles.append(role)
            y = y._parent
            n += 1
    return out, roles


def report(run, state, after, fam, v, lvl, code, op, ops, kk):
    """a rejected call changed something it had been watching"""
    j = [a != b for a, b in zip(after, state['before'])].index(True)
    if state['roles'][j] == 'source':
        # the element handed in was attached somewhere: that place lost it although the call was refused
        run.fail('rejected-move-detaches-source', 'a rejected %s of an element that is attached elsewhere changed the element '
                 'it was attached to: %s -> %s' % (op[0], state['before'][j][0][:120], after[j][0][:120]),
                 family=fam, version=v, level=lvl, outcome=code, operation=op[0], ops=ops, step=kk)
        return
    run.fail('not-atomic', 'a rejected call changed its target: %s -> %s'
             % (state['before'][j][0][:120], after[j][0][:120]),
             family=fam, new_datatype_kind=state['ndk'], version=v, level=lvl, outcome=code,
             operation=op[0], ops=ops, step=kk)


def other_level(impl, op):
    for a in op:
        if isinstance(a, (list, tuple)) and len(a) >= 2 and a[0] == 'e' and 0 <= a[1] < len(impl.I):
            tgt = impl.I[op[1]] if isinstance(op[1], int) and 0 <= op[1] < len(impl.I) else None
            v = impl.I[a[1]]
            if tgt is not None and (v.validation_level != tgt.validation_level or v.version != tgt.version):
                return True
    return False


def addressed_child_exists(impl, op):
    """does the by-name assignment address a child that is listed?  Told from the by-name indexes alone (no
    traversal read is performed, the history stays what it is); None when it cannot be told."""
    try:
        el = impl.I[op[1]]
        path = op[2]
        for i, nm in enumerate(path):
            cn = el.children._find_name(nm)
            lst = el.children.indexes.get(cn, []) if cn is not None else None
            if lst is None:
                return None
            if not lst:
                return False
            el = lst[0]
        return True
    except Exception:   # noqa
        return None


def classify(impl, op, code):
    """which family of rejected call this is (the attribute known findings are matched on)"""
    k = op[0]
    if k == 'setvaluedt':
        return 'value-datatype-object'
    if k == 'setvalue' and isinstance(op[1], int) and 0 <= op[1] < len(impl.I):
        t = impl.I[op[1]]
        if isinstance(t, Segment):
            return 'segment-value'
        if t.classname in ('Message', 'Group'):
            return 'message-value'
        if t.classname == 'Field' and t.name in ('MSH_1', 'MSH_2'):
            return 'msh-delimiter-field-value'
    if k in ('setvaluechain', 'setvalue', 'setvaluenone'):
        return 'value-assignment'
    if k == 'setdatatype':
        return 'datatype-change'
    if k in ('setattr', 'setindex', 'setlistindex') and other_level(impl, op):
        if k == 'setattr' and addressed_child_exists(impl, op) is False:
            return 'assign-other-level-absent'     # nothing is replaced: not the F9 mechanism
        return 'replace-other-level'
    return 'other'


def new_datatype_kind(impl, op):
    """complex | base | none | varies: the kind of datatype a datatype change asks for"""
    if op[0] != 'setdatatype':
        return None
    dt = op[2]
    if dt is None:
        return 'none'
    if dt == 'varies':
        return 'varies'
    return 'base' if impl.lib.is_base_datatype(dt) else 'complex'


def catalogue(rng, g):
    """rejectable operations for the state reached: wrong class, foreign child, unknown name, wrong-named
    element, cardinality overflow, other level, too long value, absent child, populated datatype change"""
    impl = g.impl
    I = impl.I
    ops = []
    segs = [i for i, y in enumerate(I) if isinstance(y, Segment)]
    flds = [i for i, y in enumerate(I) if isinstance(y, Field)]
    if not segs:
        return ops
    x = rng.choice(segs)
    X = I[x]
    rows = g.names_for(X)
    row = rng.choice(rows) if rows else None
    lvl = X.validation_level
    other = H.STRICT if lvl == H.TOLERANT else H.TOLERANT
    ops.append(['add', x, x])                                        # wrong class
    ops.append(['setattr', x, ['evn_1'], ['t', 'a']])                # foreign field
    ops.append(['setattr', x, ['nosuchchild'], ['t', 'a']])          # unknown name
    ops.append(['delattr', x, ['nosuchchild']])
    if row is not None:
        nm = row[0]
        ops.append(['delindex', x, [nm.lower()], 7])                 # absent repetition
        ops.append(['newfield', other, nm, None])                    # a field of the other level ...
        ops.append(['add', x, len(I)])                               # ... refused by add
        ops.append(['setattr', x, [nm.lower()], ['e', len(I)]])      # ... and by assignment (F9 when it replaces)
        if H.first_leaf_dt(row[1]) in H.TEXTUAL:
            ops.append(['setattr', x, [nm.lower()], ['t', 'X' * 210]])   # too long under STRICT
            ops.append(['setvaluechain', x, [nm.lower()], 'X' * 210])    # the same through .value (F9)
        if len(rows) > 1:
            ops.append(['newfield', lvl, rows[1][0], None])
            ops.append(['setattr', x, [nm.lower()], ['e', len(I) + 1]])   # element of another name
        ops.append(['newfield', lvl, nm, None])
        ops.append(['add', x, len(I) + (2 if len(rows) > 1 else 1)])      # cardinality overflow when max is 1 (STRICT)
        ops.append(['add', x, len(I) + (2 if len(rows) > 1 else 1)])
    if row is not None:
        # moving a child that is ATTACHED to x into another segment that refuses it: a second segment of the same kind
        # that already has the (non-repeatable, under STRICT) child, and one of the other validation level
        nm = rows[0][0]
        base = len(I) + sum(1 for o in ops if o[0].startswith('new') or o[0] == 'grab')
        txt = H.gen_text(rng, rows[0][1], 0, impl.ec, False)
        ops.append(['setattr', x, [nm.lower()], ['t', txt]])
        ops.append(['newseg', lvl, X.name])                          # base
        ops.append(['setattr', base, [nm.lower()], ['t', txt]])
        ops.append(['grab', x, [nm.lower()], 0])                     # base + 1: the attached child of x
        ops.append(['add', base, base + 1])                          # refused under STRICT (cardinality), after the pointer moved
        ops.append(['newseg', other, X.name])                        # base + 2
        ops.append(['add', base + 2, base + 1])                      # refused: other validation level
        ops.append(['setattr', base + 2, [nm.lower()], ['e', base + 1]])
    if flds:
        f = rng.choice(flds)
        ops.append(['setdatatype', f, rng.choice(['CE', 'CX', 'XPN'])])   # refused on a populated field (F9)
        ops.append(['setdatatype', f, rng.choice(['ST', 'ID', None, 'varies'])])   # ... to a base datatype / None / varies
        ops.append(['add', f, x])                                    # wrong class
        ops.append(['setattr', f, ['nosuch_1'], ['t', 'a']])
    return ops


def main(argv=None):
    run = Run('C12', argv)
    if run.replay:
        return replay(run)
    ok = run.build(['Properties/C12.vo'], gen=('params', 'tables'), obligation_files=['Properties/C12.v'] + ['Proofs/HeapAtomic.v'])
    if ok:
        run.print_assumptions('Properties.C12', [n for n, _ in theorems_of('Properties/C12.v')])
    rng = run.rng
    versions = ['2.5', '2.3', '2.7'] if run.thorough else ['2.5']
    nhist = 2700 if run.thorough else 300
    nsteps = 14 if run.thorough else 10
    stats = {'steps': 0, 'raising_calls_checked': 0, 'by_family': {}, 'changed_by_family': {}, 'catalogue_steps': 0}
    shapes = set()
    all_cases = {}
    samples = []
    for v in versions:
        cases = []
        for k in range(nhist // len(versions)):
            lvl = H.TOLERANT if k % 2 == 0 else H.STRICT
            g = H.Gen(rng, v, lvl, profile=('segment' if k % 3 else 'deep'), nsteps=nsteps)
            state = {}

            def hook(impl, kk, op, phase, data, state=state, g=g, v=v, lvl=lvl):
                if phase == 'before':
                    els, roles = with_ancestors(targets_of(impl, op))
                    state['els'] = els
                    state['roles'] = roles
                    state['before'] = [shape(x, impl.ec) for x in els]
                    state['family'] = classify(impl, op, None)
                    state['ndk'] = new_datatype_kind(impl, op)
                    return
                stats['steps'] += 1
                code = data[0]
                if code == 0 or code == 50:
                    return
                stats['raising_calls_checked'] += 1
                fam = state['family']
                stats['by_family'][fam] = stats['by_family'].get(fam, 0) + 1
                shapes.add((v, lvl, op[0], code, fam))
                after = [shape(x, impl.ec) for x in state['els']]
                if any(r == 'source' and x._parent is not None and any(c is x for c in x._parent.children.list)
                       for x, r in zip(state['els'], state['roles'])) or \
                        any(r == 'source' and i > 0 and state['roles'][i - 1] == 'source' for i, r in enumerate(state['roles'])):
                    stats['rejected_with_attached_argument'] = stats.get('rejected_with_attached_argument', 0) + 1
                if after != state['before']:
                    stats['changed_by_family'][fam] = stats['changed_by_family'].get(fam, 0) + 1
                    report(run, state, after, fam, v, lvl, code, op, g.ops + [op], kk)
            g.run(hook)
            for op in catalogue(rng, g):
                stats['catalogue_steps'] += 1
                kk = len(g.ops)
                hook(g.impl, kk, op, 'before', None)
                code, res = g.impl.apply(op)
                hook(g.impl, kk, op, 'after', (code, res))
                g.ops.append(op)
                g.codes.append(code)
                g.obs.append(g.impl.observe(code, res))
            cases.append((g.ops, g.obs))
            if len(samples) < 4 and k % 71 == 3:
                samples.append({'version': v, 'level': lvl, 'ops': g.ops, 'codes': g.codes})
        all_cases[v] = cases
    # Segment.value = text on segments that hold fields beyond their structure (Z-segments, QPD): the whole-value
    # assignment of a segment is outside the Coq model's operation alphabet, so these histories are judged by the
    # oracle only - a refused value (too long / unknown component / subcomponent below a base datatype under STRICT,
    # another segment's text) leaves children AND encodings (both trailing_children settings) as they were
    # free-standing MSH_1 / MSH_2 fields (own value setter; MSH is outside the model): a value refused under STRICT
    # leaves the field as it was;  message.value = text refused on a version with the optional truncation character
    # (2.7 onwards) leaves the message - its MSH-1 / MSH-2 included - as it was
    stats['msh_field_value_histories'] = stats['message_value_histories'] = 0
    for v in versions:
        for lvl in (H.STRICT, H.TOLERANT):
            for fld, text in (('MSH_2', '^~\\&'), ('MSH_2', '^~\\&#'), ('MSH_1', '|'), ('MSH_2', '^~'), ('MSH_1', '||')):
                for ops in ([['newfield', lvl, fld, None], ['setvalue', 0, text], ['lenlist', 0], ['setvalue', 0, text]],
                            [['newseg', lvl, 'MSH'], ['addhelper', 0, fld], ['setvalue', 1, text], ['toer7', 0]]):
                    stats['msh_field_value_histories'] += 1
                    oracle_on_history(run, v, ops, stats)
    for v in (['2.7', '2.8'] if run.thorough else ['2.7']):
        for lvl in (H.STRICT, H.TOLERANT):
            for msh2 in ('^~\\&', '^~\\&#'):
                for bad in ('EVN||not-a-date', 'EVN||20200102\rPID|||1||%s' % ('X' * 3000), 'PID|1'):
                    text = 'MSH|%s|||||20200102||ADT^A01^ADT_A01|ID2|P|%s\r%s\rPID|||1||DOE^JOHN' % (msh2, v, bad)
                    ops = [['newmsg', lvl, 'ADT_A01', None], ['setattr', 0, ['msh', 'msh_9'], ['t', 'ADT^A01^ADT_A01']],
                           ['setattr', 0, ['msh', 'msh_10'], ['t', 'ID1']], ['setattr', 0, ['msh', 'msh_11'], ['t', 'P']],
                           ['setattr', 0, ['evn', 'evn_2'], ['t', '20200101']], ['setattr', 0, ['pid', 'pid_5'], ['t', 'EVERYMAN^ADAM']],
                           ['setvalue', 0, text], ['toer7', 0]]
                    stats['message_value_histories'] += 1
                    oracle_on_history(run, v, ops, stats)
    # an element of the other validation level assigned at the end of a chain through an ABSENT segment / field: the
    # refusal must leave the root as it was (no promoted empty placeholder)
    stats['absent_chain_other_level_histories'] = 0
    for v in versions:
        for lvl in (H.STRICT, H.TOLERANT):
            oth = H.TOLERANT if lvl == H.STRICT else H.STRICT
            for ops in ([['newmsg', lvl, 'ADT_A01', None], ['newfield', oth, 'PID_5', None],
                         ['setattr', 0, ['pid', 'pid_5'], ['e', 1]], ['toer7', 0]],
                        [['newmsg', lvl, 'ADT_A01', None], ['setattr', 0, ['evn', 'evn_2'], ['t', '20200101']],
                         ['newfield', oth, 'PID_3', None], ['setattr', 0, ['pid', 'pid_3'], ['e', 1]], ['toer7', 0]],
                        [['newseg', lvl, 'PID'], ['newfield', oth, 'PID_5', None],
                         ['setattr', 0, ['pid_5'], ['e', 1]], ['toer7', 0]]):
                stats['absent_chain_other_level_histories'] += 1
                oracle_on_history(run, v, ops, stats)
    stats['segment_value_histories'] = stats['segment_value_rejected'] = 0
    for v in versions:
        lib = H.hl7apy.load_library(v)
        for sname in ['ZIN', 'ZXX'] + (['QPD'] if 'QPD' in lib.SEGMENTS else []):
            n0 = 3 if sname == 'QPD' else 0
            low = sname.lower()
            bads = ['%s|%s' % (sname, 'x' * 70000), '%s|a^b^c^d^e^f^g^h^i|tag' % sname, '%s|a&b&c^d' % sname,
                    '%s|1|2|%s' % (sname, 'y' * 70000), 'PID|1', '%s|ok' % sname]
            for lvl in (H.STRICT, H.STRICT, H.TOLERANT):
                for _ in range(3 if run.thorough else 1):
                    ops = [['newseg', lvl, sname]]
                    if sname == 'QPD':
                        ops += [['setattr', 0, ['qpd_1'], ['t', 'Q22^Find']], ['setattr', 0, ['qpd_2'], ['t', '111']]]
                    extra = rng.sample([n0 + 1, n0 + 2, n0 + 3, n0 + 5], rng.randint(1, 3))
                    for i in extra:
                        ops.append(['setattr', 0, ['%s_%d' % (low, i)], ['t', rng.choice(['a', 'b', 'e'])]])
                    for bad in rng.sample(bads, 3):
                        ops.append(['setvalue', 0, bad])
                        ops.append(['toer7', 0])
                    stats['segment_value_histories'] += 1
                    oracle_on_history(run, v, ops, stats)
    H.shrink_oracle_failures(run, oracle_on_history, ('family', 'new_datatype_kind'))
    run.log('implementation side: %d steps, %d raising calls checked, %d changed their target'
            % (stats['steps'], stats['raising_calls_checked'], len(run.failures)))
    evaluated = steps = 0
    for v, cases in all_cases.items():
        ev, st, bad, _, _ = H.run_model(run, v, cases, 'c12', per_file=max(8, len(cases) // 16))
        evaluated += ev
        steps += st
        H.report_disagreements(run, v, cases, bad)
    run.log('model side: %d histories / %d steps replayed, %d disagreements' % (evaluated, steps, len(run.disagreements)))
    run.finish({
        'evaluations': stats['raising_calls_checked'],
        'distinct_nontrivial': len(shapes),
        'rule': 'random histories of public API calls (%d steps, both validation levels) followed by a catalogue of '
                'rejectable operations (wrong class, foreign / unknown / wrong-named child, cardinality overflow, other '
                'validation level, too long value by name and through .value, absent child, datatype change on a '
                'populated field); evaluations = raising calls around which target and ancestors were dumped and '
                'compared; distinct_nontrivial = distinct (version, level, operation, exception code, family)' % nsteps,
        'samples': samples,
        'traces_validated_against_impl': evaluated,
        'steps_validated_against_impl': steps,
        'input_distribution': stats,
        'versions': versions,
    }, assumptions=[
        'model scope: Segment -> Field -> Component -> SubComponent (Group / Message parents not modelled)',
        '"unchanged" = equal encoding (both trailing_children settings) and the same listed descendants, by identity, of '
        'the target(s) of the call and of their ancestors; back-pointers of a refused child are not part of it',
        'the full statement is refuted (F9, F20); the partial theorems cover refused add, unresolvable child name, value '
        'refused by the parser, deletion of an absent child',
    ])


def oracle_on_history(run, v, ops, stats=None):
    state = {}

    def hook(impl, kk, op, phase, data):
        if phase == 'before':
            els, roles = with_ancestors(targets_of(impl, op))
            state['els'] = els
            state['roles'] = roles
            state['before'] = [shape(x, impl.ec) for x in els]
            state['family'] = classify(impl, op, None)
            state['ndk'] = new_datatype_kind(impl, op)
            return
        if data[0] in (0, 50):
            return
        if stats is not None and state['family'] == 'segment-value':
            stats['segment_value_rejected'] += 1
        if stats is not None and state['family'] in ('message-value', 'msh-delimiter-field-value'):
            stats[state['family'] + '-rejected'] = stats.get(state['family'] + '-rejected', 0) + 1
        after = [shape(x, impl.ec) for x in state['els']]
        if after != state['before']:
            report(run, state, after, state['family'], v, None, data[0], op, ops[:kk + 1], kk)
    H.run_history(v, ops, hook)


def replay(run):
    r = json.load(open(run.replay))
    inp = r.get('input', {})
    ops = inp.get('ops')
    v = inp.get('version', '2.5')
    if ops:
        oracle_on_history(run, v, ops)
    for f in run.failures:
        print('replayed failure:', f['kind'], f['data'].get('family'), f['what'])
    run.finish({'evaluations': len(ops or []), 'distinct_nontrivial': 1, 'rule': 'replay of one stored history',
                'samples': [inp]})


if __name__ == '__main__':
    from common import run_guarded
    run_guarded('C12', main)
