"""C15 - bad input fails with the library's exceptions, never with a crash.

Obligations: coq/Properties/C15.v (header part: _split_msh / get_message_type / get_message_info are
total without crashes for ALL strings).  Oracle: the whole property on the implementation - byte-level
mutants of valid messages of every version and grammar-free junk, both validation levels, both
find_groups; parse_message / get_message_type return or raise an HL7apyException (ValueError only under
STRICT), and whatever parsed encodes and validates without raising.  Correspondence: outcome class and
returned values of get_message_info / get_message_type on all those inputs vs Model/Header.v.
"""
import json
import os
import sys
import time
import traceback

sys.path.insert(0, os.path.dirname(__file__))
from common import Run, use_repo, theorems_of, REPO
from headercorr import outcome, exn_code, observe_header, run_header_correspondence, is_ascii

use_repo()

STRICT, TOLERANT = 1, 2
DELIMS = '|^~\\&#\r'

CORPUS = {
    'rsp_k21_25': 'MSH|^~\\&|SEND APP|SEND FAC|REC APP|REC FAC|20110708163514||RSP^K22^RSP_K21|1234|D|2.5|||||ITA||EN\r'
                  'MSA|AA|26775702551812240|\r'
                  'QAK|111069|OK||1|1|0\r'
                  'QPD|IHE PDQ Query|111069|@PID.3.1^1010110909194822~@PID.5.1^SMITH||||\r'
                  'PID|1||10101^^^GATEWAY&1.3.6.1.4.1.21367.2011.2.5.17&ISO||JOHN^SMITH^^^^^A||19690113|M|||VIA DELLE VIE^^CAGLIARI^^^100^H^^092009||||||||||||CAGLIARI|||||\r',
    'rsp_k21_27': 'MSH|^~\\&#|SEND APP|SEND FAC|REC APP|REC FAC|20110708163514||RSP^K22^RSP_K21|1234|D|2.7|||||ITA||EN\r'
                  'MSA|AA|26775702551812240\r'
                  'QAK|111069|OK||1|1|0\r'
                  'QPD|IHE PDQ Query|111069|@PID.3.1^1010110909194822~@PID.5.1^SMITH\r'
                  'PID|1||10101^^^GATEWAY&1.3.6.1.4.1.21367.2011.2.5.17&ISO||JOHN^SMITH^^^^^A||19690113|M|||VIA DELLE VIE^^CAGLIARI^^^100^H^^092009||||||||||||CAGLIARI',
    'adt_a01_26': 'MSH|^~\\&|SENDING APP|SENDING FAC|REC APP|REC FAC|20130101101500||ADT^A01^ADT_A01|0123456789|P|2.6||||AL\r'
                  'EVN||20130101101500||01|AAA|20130101082500\r'
                  'PID|1||123-456-789^^^HOSPITAL^MR||SURNAME^NAME^A|||M|||1111 SOMEWHERE STREET^^SOMEWHERE^^^USA|||||M\r'
                  'NK1|1|WOMAN^WIFE|SPO|1111 SOMEWHERE STREET^^SOMEWHERE^^^USA\r'
                  'PV1|1|I|PATIENT WARD|U||||^REFERRING^DOCTOR^^MD|^CONSULTING^DOCTOR|CAR||||2|A0|||||||||||||||||||||||||||||2013\r'
                  'IN1|1|INSURANCE PLAN ID^PLAN DESC|COMPANY ID|INSURANCE COMPANY, INC.|5555 INSURERS STREET^^SOMEWHERE^^^USA||||||||||||||||||||||||||||||||||||||||||||555-44-3333\r',
    'zdt_z01_25': 'MSH|^~\\&|SENDING APP|SENDING FAC|REC APP|REC FAC|20130101101500||ZDT^Z01^ZDT_Z01|0123456789|P|2.5||||AL\r'
                  'EVN||20130101101500||AAA|AAA|20130101082500\r'
                  'PID|1||123-456-789^^^HOSPITAL^MR||SURNAME^NAME^A|||M|||1111 SOMEWHERE STREET^^SOMEWHERE^^^USA||555-555-2004~444-333-222|||M\r'
                  'ZIN|1|INSURANCE PLAN ID^PLAN DESC&x|COMPANY ID\r',
    'oml_o33_25': 'MSH|^~\\&|SENDING APP|SENDING FAC|REC APP|REC FAC|20110708162817||OML^O33^OML_O33|978226056138290600|D|2.5|||||USA||EN\r'
                  'PID|||1010110909194822^^^GATEWAY_IL&1.3.6.1.4.1.21367.2011.2.5.17&ISO^PK||PIPPO^PLUTO^^^^^L||19790515|M|||VIA DI TOPOLINO^CAGLIARI^CAGLIARI^^09100^100^H^^092009^^~^^^^^^L^^^|||||||PPPPPP79E15B354I^^^CF|||||CAGLIARI|||100|||||||||||\r'
                  'PV1||O|||||||||||||||||1107080001^^^LIS\r'
                  'SPM|1|100187400201^||SPECIMEN^Blood|||||||PSN^Human Patient||||||20110708162817||20110708162817|||||||1|CONTAINER^CONTAINER DESC\r'
                  'ORC|NW|83428|83428|18740|SC||||20110708162817||||||||^\r'
                  'TQ1|||||||||R\r'
                  'OBR||83428|83428|TPO^ANTI THYROPEROXIDASE ANTIBODIES(TPO)^^TPO||||||||||||ND^UNKNOWN^UNKNOWN\r'
                  'OBX|1|NM|CA^S-CALCIUM||2.4|mmol/l|2.1-2.6|N|||F\r'
                  'SPM|2|100187400101^||SPECIMEN^Blood|||||||PSN^Human Patient||||||20110708162817||20110708162817|||||||1|CONTAINER^CONTAINER DESC\r'
                  'ORC|NW|83425|83425|18740|SC||||20110708162817||||||||^\r',
}


def versions():
    import hl7apy
    return sorted(hl7apy.SUPPORTED_LIBRARIES.keys(), key=lambda v: [int(x) for x in v.split('.')])


def library_message(v):
    """A valid message of version v built with the library."""
    from hl7apy.core import Message
    m = Message('ADT_A01', version=v)
    m.msh.msh_3 = 'SND'
    m.msh.msh_4 = 'FAC'
    m.msh.msh_7 = '20200101120000'
    m.msh.msh_9 = 'ADT^A01' if v < '2.3.1' else 'ADT^A01^ADT_A01'
    m.msh.msh_10 = 'ID1'
    m.msh.msh_11 = 'P'
    evn = m.add_segment('EVN')
    evn.evn_1 = 'A01'
    evn.evn_2 = '20200101'
    pid = m.add_segment('PID')
    pid.pid_1 = '1'
    pid.pid_3 = '12345'
    pid.pid_5 = 'SMITH^JOHN'
    pid.pid_7 = '19700101'
    f = pid.add_field('pid_3')
    f.value = '678'
    pid.pid_11 = 'STREET 1^^CITY^^09100'
    pv1 = m.add_segment('PV1')
    pv1.pv1_1 = '1'
    pv1.pv1_2 = 'I'
    nk1 = m.add_segment('NK1')
    nk1.nk1_1 = '1'
    nk1.nk1_2 = 'ROE^MARY'
    obx = m.add_segment('OBX')
    obx.obx_1 = '1'
    obx.obx_2 = 'ST'
    obx.obx_5 = 'abc'
    z = m.add_segment('ZZ1')
    z.zz1_1 = 'a^b&c'
    return m.to_er7()


def has_choice(ref):
    if ref is None or not isinstance(ref, tuple) or len(ref) < 2 or not isinstance(ref[1], tuple):
        return False
    if ref[0] == 'choice':
        return True
    return any(len(row) == 4 and row[3] != 'SEG' and has_choice(row[1]) for row in ref[1])


def structure_instances(rng, thorough):
    """(label, version, text): an instance of message structures of every version - every structure that holds a
    choice group and a sample of the others (thorough: all) - all children present, one plain line per segment"""
    import hl7apy
    import c01
    out = []
    for v in versions():
        lib = hl7apy.load_library(v)
        names = [m for m in sorted(lib.MESSAGES) if isinstance(lib.MESSAGES[m], tuple) and len(lib.MESSAGES[m]) == 2
                 and lib.MESSAGES[m][1] and '_' in m]
        chosen = [m for m in names if has_choice(lib.MESSAGES[m])]
        rest = [m for m in names if m not in chosen]
        chosen += rest if thorough else rng.sample(rest, min(10, len(rest)))
        for m in chosen:
            for mode in ('all', 'req'):
                try:
                    segs = c01.instance_names(lib.MESSAGES[m], mode)
                except Exception:  # noqa
                    continue
                if not segs or segs[0] != 'MSH':
                    continue
                lines = [c01.msh_line(m, v)] + ['%s|1' % n if n != 'ANYHL7SEGMENT' else 'ZZZ|1' for n in segs[1:60]]
                out.append(('%s/%s/%s' % (v, m, mode), v, '\r'.join(lines)))
    return out


def base_messages():
    out = []
    for v in versions():
        out.append(('lib_%s' % v, v, library_message(v)))
    for name, text in CORPUS.items():
        out.append((name, text.split('|')[11], text))
    return out


# ---------------------------------------------------------------------------------------------
# mutants


def header_variants(text, v):
    """4- vs 5-character MSH-2, missing MSH-9 / MSH-12, unknown versions, short headers."""
    lines = text.split('\r')
    fields = lines[0].split('|')
    rest = lines[1:]

    def mk(fs):
        return '\r'.join(['|'.join(fs)] + rest)
    out = []
    msh2 = fields[1]
    for alt in ('^~\\&', '^~\\&#', '^~\\', '^~', '', '^~\\&#$', '^~\\^', '^^~\\&', '^~\\&^', '#~\\&#',
                '^~\\ ', '^~ &', ' ~\\&', '^~\\&\t', '^~\\&\x1c', '^~\\\n', '^~\\&\x0b', 'MSH\t', '^~\\&\xa0'):
        if alt != msh2:
            out.append(('msh2=%r' % alt, mk([fields[0], alt] + fields[2:])))
    for k in range(1, len(fields) + 1):
        out.append(('header-fields=%d' % k, mk(fields[:k])))
        out.append(('header-fields=%d,msh2=5' % k, mk(([fields[0], '^~\\&#'] + fields[2:])[:k])))
    for idx, nm in ((8, 'msh9'), (11, 'msh12')):
        if len(fields) > idx:
            for val in ('', ' ', '^', '^^', 'ADT', 'ADT^', '^A01', 'ADT^A01^', 'ADT^A01^XXX_Y01', 'ZZZ^Z99', 'ZAB^Z01^ZAB_Z01',
                        'ACK', 'adt^a01^adt_a01', 'ADT^A01^ADT_A01^extra', 'ADT&A01', '2.5^ITA', ' 2.5 ', '~'):
                fs = list(fields)
                fs[idx] = val
                out.append(('%s=%r' % (nm, val), mk(fs)))
    if len(fields) > 11:
        for ver in ('2.9', '3.0', '', '2', 'x', '2.5.2', '2.10', '2.70', '27', '2.7', '2.1', '2.6', '2.8.2', '2,5', 'None', '2.5\t'):
            for m2 in ('^~\\&', '^~\\&#'):
                fs = list(fields)
                fs[11] = ver
                fs[1] = m2
                out.append(('version=%r,msh2=%r' % (ver, m2), mk(fs)))
    return out


def delimiter_edits(text):
    """each single deletion / duplication of a delimiter"""
    out = []
    for i, ch in enumerate(text):
        if ch in DELIMS:
            out.append(('delete@%d' % i, text[:i] + text[i + 1:]))
            out.append(('duplicate@%d' % i, text[:i] + ch + text[i:]))
    return out


def segment_garbling(text, rng):
    lines = text.split('\r')
    out = []
    names = ['XXX', 'P', 'PI', 'pid', '\nPI', ' PID', 'ZZZ', 'Z', '|||', 'MSH', 'msh', '123', 'PID|', '^~\\', 'EVN', 'OBX', 'NTE',
             'IN1', 'ZZ', 'A', '',
             # names whose upper-cased form has another length (str.upper: sharp s -> SS, ligatures), non-ASCII names
             'Z\xdf1', 'Z\xdf', '\xdf\xdf1', 'Z\ufb01', '\ufb01A', 'Z\u0149A', '\xe9\xe9\xe9', 'Z\xe9\xe9', 'z\u0131i',
             # a further header line whose MSH-1 is not the separator, repeats or is blank
             'MSH~', 'MSHx~', 'MSH~~', 'msh~', 'MSHx', 'MSH^', 'MSH ', 'MSH\\', 'MSH&~']
    for i in range(1, len(lines)):
        if not lines[i]:
            continue
        for nm in names:
            ls = list(lines)
            ls[i] = nm + lines[i][3:]
            out.append(('segment%d-name=%r' % (i, nm), '\r'.join(ls)))
        ls = list(lines)
        ls[i] = lines[i][:3]
        out.append(('segment%d-bare' % i, '\r'.join(ls)))
        ls = list(lines)
        ls[i] = lines[i][:4]
        out.append(('segment%d-bare-sep' % i, '\r'.join(ls)))
    # order / duplication of segments
    if len(lines) > 3:
        ls = list(lines)
        ls[1], ls[2] = ls[2], ls[1]
        out.append(('swap-segments', '\r'.join(ls)))
        out.append(('duplicate-msh', '\r'.join(lines + [lines[0]])))
        out.append(('msh-not-first', '\r'.join(lines[1:] + [lines[0]])))
        out.append(('repeat-all', '\r'.join(lines + lines[1:])))
    return out


def blank_lines(text):
    lines = text.split('\r')
    out = []
    for sep in ('\r\r', '\r\n', '\n', '\r \r', '\r\t', ' \r', '\r\x0b', '\x1c\r'):
        out.append(('segment-separator=%r' % sep, sep.join(lines)))
    for pre in ('\r', '\n', ' ', '\r\n\r\n', '\t \r', '\x0b', '\x1c', '﻿', 'x'):
        out.append(('prefix=%r' % pre, pre + text))
    for suf in ('\r', '\r\r', '\n', '\r\x1c\r', ' ', '\r '):
        out.append(('suffix=%r' % suf, text + suf))
    return out


def junk(rng, n):
    out = []
    alpha = ['MSH', 'MSH|', 'MSH|^~\\&', 'MSH|^~\\&#', '|', '^', '~', '\\', '&', '#', '\r', '\n', ' ', 'PID', 'ZZ1', 'ADT', 'A01', '2.5',
             '2.7', 'a', 'B', '1', '.', '\t', '\x00', '\x1c', '\x0b', '\xe9', '€', '"', "'", '%', '{0}', '$', '@']
    for i in range(n):
        k = rng.randint(0, 14)
        out.append(('junk%d' % i, ''.join(rng.choice(alpha) for _ in range(k))))
    for i in range(n // 4):
        # junk that begins like a header so that it gets past the regular expression
        k = rng.randint(0, 20)
        out.append(('headed-junk%d' % i, 'MSH' + ''.join(rng.choice(alpha[4:]) for _ in range(k))))
    for i in range(n // 8):
        k = rng.randint(0, 30)
        out.append(('bytes%d' % i, ''.join(chr(rng.randint(0, 255)) for _ in range(k))))
    fixed = ['', 'MSH', 'MSH|', 'MSH||', 'MSH|^~\\&', 'MSH|^~\\&|', 'MSH|^~\\&#', 'MSH|^~\\&#|A', 'MSH^~|\\&', 'MSHMSH', 'MSH\r', 'MSH \r',
             'MSH|^~\\&\rPID', 'MSH|^~\\&\rPID|', 'MSH|^~\\&\rPI', 'MSH|^~\\&\r\r', 'MSH|^~\\&|||||||^', 'MSH|^~\\&|||||||^^',
             'MSH|^~\\&|||||||ZZZ^Z01\rZZ1|a^b&c', 'MSH|^~\\&|||||||ADT^A01|||2.5\rPV1.', 'MSH|^~\\&|||||||ADT^A01|||2.5\rPID|a^b&c~d',
             'PID|1', '\rMSH|^~\\&', 'MSH|^~\\&|||||||ADT^A01^ADT_A01|||2.5\rEVN\rPID\rPV1',
             'MSH|^~\\&|||||||ADT^A01^ADT_A01|||2.5\rZXX|b^c&d', 'MSH|^~\\&|||||||ACK|||2.5\rMSA|AA|1',
             'MSH|^~\\&|||||||ADT^A01^ADT_A01|||2.5\rOBX|1|CE|a||b^c&d^e', 'MSH|^~\\&|||||||ADT^A01^ADT_A01|||2.5\rOBX|1|XX|a||b^c',
             'MSH|^~\\&|||||||ADT^A01^ADT_A01|||2.5\rOBX|1||a||b^c&d~e', 'MSH|^~\\&|||||||ORU^R01^ORU_R01|||2.5\rOBX|1|NM|a||x',
             'MSH|^~\\&|||||||ORU^R01^ORU_R01|||2.5\rOBX|1|DT|a||x', 'MSH|^~\\&|||||20201301||ADT^A01^ADT_A01|||2.5']
    for i, t in enumerate(fixed):
        if t is not None:
            out.append(('fixed%d' % i, t))
    # delimiters that are special inside a regular-expression character class or a format string, in every role
    k = 0
    for chars in ('^|~\\&', '|^~\\-', '|-~\\&', '|^-\\&', ']^~\\&', '|]~\\[', '|^~\\]', '|[~\\&', '|^~\\^'[:5], '{}~\\&'[:1] + '}~\\&',
                  '|%~\\&', '|^~\\$', '|^~\\*', '|^~\\+', '|(~\\)', '|^~\\?', '.^~\\&'[:0] + '|^~\\.'):
        if len(set(chars)) != 5:
            continue
        f, c, r, e, sc = chars
        for v in ('2.4', '2.5', '2.7'):
            msh2 = c + r + e + sc
            line = f.join(['MSH', msh2, 'A B', 'F' + c + 'x' + sc + 'y', 'C', 'D', '20200101', '', 'ADT' + c + 'A01' + c + 'ADT_A01', '1', 'P', v])
            body = f.join(['PID', '1', '', 'id' + c + c + c + 'a' + sc + 'b', '', 'Doe' + c + 'John' + r + 'Roe' + c + 'Jane', '', '', 'M'])
            out.append(('delims%d' % k, line + '\r' + f.join(['EVN', 'A01', '20200101']) + '\r' + body + '\r' + f.join(['PV1', '1', 'I'])))
            k += 1
    # numeric leaves whose text Decimal() takes although it is no number, or a number of enormous magnitude
    k = 0
    for v in ('2.3', '2.5', '2.7'):
        for val in ('Infinity', 'Inf', '-Inf', 'NaN', 'sNaN', 'nan', '1E28', '2.5E+30', '1E-400', '9' * 40, '1E+999999', '-0', '1e5',
                    '.', '+', 'E5', '1_0', ' 1'):
            head = 'MSH|^~\\&|||||||ADT^A01^ADT_A01|||%s\rEVN||2020\r' % v
            out.append(('numeric%d' % k, head + 'PID|' + '|' * 23 + val))                     # PID-25 NM
            out.append(('numeric%d' % (k + 1), head + 'PID|1\rPV1|1|I' + '|' * 44 + val))      # PV1-47 NM
            out.append(('numeric%d' % (k + 2), head + 'PID|' + val))                           # PID-1 SI
            k += 3
    return out


# ---------------------------------------------------------------------------------------------
# oracle


def site_of(ex):
    """innermost hl7apy frame of the traceback: file:function (stable across line edits)"""
    tb = traceback.extract_tb(ex.__traceback__)
    for fr in reversed(tb):
        if 'hl7apy' in fr.filename:
            return '%s:%s' % (os.path.basename(fr.filename), fr.name)
    return '?'


def allowed(ex, strict):
    from hl7apy.exceptions import HL7apyException
    if isinstance(ex, HL7apyException):
        return True
    if strict and isinstance(ex, ValueError):
        return True
    return False


def crash(run, ex, fn, text, why, base, **kw):
    run.fail('crash-%s-in-%s' % (type(ex).__name__, fn),
             '%s raised %s (neither a result nor an hl7apy exception)' % (fn, type(ex).__name__),
             input=text, exception=type(ex).__name__, function=fn, site=site_of(ex), exc=repr(ex)[:300], mutation=why,
             base=base, **kw)


def check_text(run, text, why, base, combos, stats):
    """The property on one input.  Returns nothing; failures are recorded."""
    from hl7apy.parser import parse_message, get_message_type
    code, _, ex = outcome(get_message_type, text)
    stats['get_message_type'] += 1
    if ex is not None and not allowed(ex, False):
        crash(run, ex, 'get_message_type', text, why, base)
    for lvl, fg in combos:
        code, m, ex = outcome(parse_message, text, validation_level=lvl, find_groups=fg)
        stats['parse_message'] += 1
        if ex is not None:
            stats['rejected'] += 1
            stats['rejected_by'][type(ex).__name__] = stats['rejected_by'].get(type(ex).__name__, 0) + 1
            if not allowed(ex, lvl == STRICT):
                crash(run, ex, 'parse_message', text, why, base, level=lvl, find_groups=fg)
            continue
        stats['parsed'] += 1
        c2, er7, ex2 = outcome(m.to_er7)
        if ex2 is not None:
            crash(run, ex2, 'to_er7', text, why, base, level=lvl, find_groups=fg)
        c3, rep, ex3 = outcome(m.validate, return_errors=True)
        if ex3 is not None:
            crash(run, ex3, 'validate', text, why, base, level=lvl, find_groups=fg)
        else:
            try:
                okshape = isinstance(rep.is_valid, bool) and isinstance(rep.errors, list) and isinstance(rep.warnings, list)
            except Exception:  # noqa
                okshape = False
            if not okshape:
                run.fail('validate-no-report', 'validate(return_errors=True) did not return an (is_valid, errors, warnings) report',
                         input=text, function='validate', level=lvl, find_groups=fg, got=repr(rep)[:200], mutation=why, base=base)
            else:
                stats['valid' if rep.is_valid else 'invalid'] += 1


ALL_COMBOS = [(TOLERANT, True), (TOLERANT, False), (STRICT, True), (STRICT, False)]


def main(argv=None):
    run = Run('C15', argv)
    if run.replay:
        return replay(run)
    ok = run.build(['Properties/C15.vo'], gen=('params', 'tables'), obligation_files=['Properties/C15.v'])
    if ok:
        run.print_assumptions('Properties.C15', [n for n, _ in theorems_of('Properties/C15.v')])
    rng = run.rng
    bases = base_messages()
    stats = {'get_message_type': 0, 'parse_message': 0, 'parsed': 0, 'rejected': 0, 'rejected_by': {}, 'valid': 0, 'invalid': 0}
    dist = {}
    seen = set()
    header_obs = []
    samples = []

    def feed(kind, base, items, combos=None, header_only=False):
        for k, (why, text) in enumerate(items):
            if text in seen:
                continue
            seen.add(text)
            dist[kind] = dist.get(kind, 0) + 1
            if is_ascii(text):
                header_obs.append(observe_header(text))
            if header_only:
                from hl7apy.parser import get_message_type
                code, _, ex = outcome(get_message_type, text)
                stats['get_message_type'] += 1
                if ex is not None and not allowed(ex, False):
                    crash(run, ex, 'get_message_type', text, why, base)
                continue
            cs = combos if combos is not None else ALL_COMBOS
            check_text(run, text, why, base, cs, stats)
            if len(samples) < 8 and k % 97 == 13:
                samples.append({'base': base, 'mutation': why, 'input': text[:200]})

    # the valid messages themselves must parse, encode and validate without raising
    for name, v, text in bases:
        feed('valid', name, [('unchanged', text)])
    run.log('%d base messages (%d library-built, %d from the test corpus)' % (len(bases), len(versions()), len(CORPUS)))
    for bi, (name, v, text) in enumerate(bases):
        lib = name.startswith('lib_')
        # truncation at every byte: all four modes on the header and on a stride of the rest in the quick tier,
        # every byte in the thorough tier; the header functions see every prefix in both tiers
        cut = len(text.split('\r')[0]) + 8
        trunc = [('truncate@%d' % i, text[:i]) for i in range(len(text))]
        if run.thorough:
            feed('truncation', name, trunc)
        else:
            stride = 3 if lib else 7
            full = [t for i, t in enumerate(trunc) if i <= cut or i % stride == bi % stride]
            feed('truncation', name, full, combos=[ALL_COMBOS[bi % 4], ALL_COMBOS[(bi + 1) % 4]])
            feed('truncation-header-only', name, trunc, header_only=True)
        edits = delimiter_edits(text)
        if run.thorough:
            feed('delimiter-edit', name, edits)
        else:
            hdr = [e for e in edits if int(e[0].split('@')[1]) <= cut]
            rest = [e for e in edits if int(e[0].split('@')[1]) > cut]
            feed('delimiter-edit', name, hdr)
            feed('delimiter-edit', name, rest if lib else rng.sample(rest, min(len(rest), 60)),
                 combos=[ALL_COMBOS[(bi + 2) % 4], ALL_COMBOS[(bi + 3) % 4]])
            feed('delimiter-edit-header-only', name, edits, header_only=True)
        hv = header_variants(text, v)
        feed('header-variant', name, hv if (lib or run.thorough) else hv[::3])
        sg = segment_garbling(text, rng)
        first = [x for x in sg if x[0].startswith('segment1-')]      # every name variant on the first line after the header
        feed('segment-name', name, sg if run.thorough else
             (first if lib else first[bi % 3::3]) + rng.sample(sg, min(len(sg), 30 if lib else 20)))
        feed('blank-lines', name, blank_lines(text), combos=None if run.thorough else [ALL_COMBOS[bi % 4], ALL_COMBOS[(bi + 2) % 4]])
        if time.time() - run.t0 > (95 if not run.thorough else 400):
            run.note('time budget: mutants of the base messages after number %d (of %d) were not generated' % (bi + 1, len(bases)))
            break
    # instances of the message structures themselves (choice groups, nested groups, every version)
    for label, v, text in structure_instances(rng, run.thorough):
        feed('structure-instance', label, [('instance', text)],
             combos=None if run.thorough else [(TOLERANT, True), (STRICT, True), (TOLERANT, False)])
    # every field of a segment valued: each table row (datatype, table, length) is reached by parse, encode and validate
    import hl7apy
    for v in versions():
        lib = hl7apy.load_library(v)
        segs = [sn for sn in sorted(lib.SEGMENTS) if sn not in ('MSH', 'ANYHL7SEGMENT') and isinstance(lib.SEGMENTS[sn], tuple)
                and len(lib.SEGMENTS[sn]) > 1 and lib.SEGMENTS[sn][1]]
        common = [sn for sn in ('PID', 'PV1', 'OBX', 'NK1', 'EVN', 'OBR', 'ORC', 'AL1', 'DG1', 'IN1', 'GT1') if sn in segs]
        chosen = segs if run.thorough else common + rng.sample([x for x in segs if x not in common], min(12, len(segs)))
        head = 'MSH|^~\\&|A|B|C|D|20200101||ADT^A01%s|1|P|%s' % ('^ADT_A01' if v >= '2.3.1' else '', v)
        for sn in chosen:
            n = len(lib.SEGMENTS[sn][1])
            feed('all-fields', '%s/%s' % (v, sn), [('all-fields', head + '\r' + sn + '|x' * n), ('all-fields-1', head + '\r' + sn + '|1' * n)],
                 combos=[(TOLERANT, False)] if not run.thorough else [(TOLERANT, False), (TOLERANT, True), (STRICT, False)])
    feed('junk', 'none', junk(rng, 1500 if not run.thorough else 12000))
    run.log('oracle: %d inputs, %s; %d failures' % (len(seen), json.dumps({k: v for k, v in stats.items() if k != 'rejected_by'}),
                                                   len(run.failures)))
    evaluated = run_header_correspondence(run, 'c15hd', header_obs)
    run.log('model side: header functions evaluated on %d inputs by vm_compute, %d disagreements' % (evaluated, len(run.disagreements)))
    nontrivial = sum(1 for o in header_obs if o['info_code'] != 0) + stats['rejected']
    run.finish({
        'evaluations': stats['parse_message'] + stats['get_message_type'],
        'distinct_nontrivial': len(seen) - dist.get('valid', 0),
        'rule': 'inputs = byte-level mutants of %d valid messages (one library-built ADT_A01 per version + %d messages of '
                '/repo/tests): truncation at every byte, every single deletion/duplication of a delimiter, MSH-2 variants, header '
                'cut to k fields, MSH-9/MSH-12 variants, unknown versions, garbled/bare/reordered segments, blank lines and '
                'prefixes/suffixes; plus grammar-free junk; each input goes through get_message_type and parse_message under '
                '{TOLERANT, STRICT} x find_groups {True, False} (quick tier: two of the four modes for the bulk mutants, all four '
                'for header mutants), then to_er7() and validate(return_errors=True) when it parsed; every ASCII input also goes '
                'through the Coq model of the header functions; non-trivial = distinct inputs other than the unchanged messages'
                % (len(bases), len(CORPUS)),
        'samples': samples,
        'traces_validated_against_impl': evaluated,
        'input_distribution': dist,
        'outcomes': stats,
        'header_outcomes': {str(c): sum(1 for o in header_obs if o['info_code'] == c) for c in sorted({o['info_code'] for o in header_obs})},
        'rejected_inputs': nontrivial,
    }, assumptions=[
        'proof covers the header functions only (Properties/C15.v); parse_message/to_er7/validate are covered by the oracle',
        'model fidelity of the header functions is claimed for ASCII text (Python\'s \\S and str.strip know more white space '
        'beyond ASCII); non-ASCII inputs go through the oracle only',
    ])


def replay(run):
    r = json.load(open(run.replay))
    inp = r.get('input', {})
    text = inp.get('input')
    stats = {'get_message_type': 0, 'parse_message': 0, 'parsed': 0, 'rejected': 0, 'rejected_by': {}, 'valid': 0, 'invalid': 0}
    if text is not None:
        combos = [(inp['level'], inp['find_groups'])] if 'level' in inp and 'find_groups' in inp else ALL_COMBOS
        check_text(run, text, inp.get('mutation', 'replay'), inp.get('base', '?'), combos, stats)
    for f in run.failures:
        print('replayed failure:', f['kind'], f['data'].get('site'), f['data'].get('exc'))
    run.finish({'evaluations': 1, 'distinct_nontrivial': 1, 'rule': 'replay of one stored case', 'samples': [inp]})


if __name__ == '__main__':
    from common import run_guarded
    run_guarded('C15', main)
