"""C10 - the element tree stays internally consistent through any API history.

Obligations: coq/Properties/C10.v (invariant `Inv` of Proofs/HeapInv.v preserved by every operation
of Model/Heap.v, successful or raising, under `op_safe`; lifted to all histories; F8/F20 refuted).
Correspondence: harness/heapcorr.py - random histories executed on hl7apy and replayed in the model,
full state dump compared after EVERY step; a third of the shards is also replayed with the exotic
paths switched off (hypothesis `hist_plain` of the partial theorems).
Oracle: after every step, successful or rejected, the REAL object graph reachable from the handles
is walked and the property's clauses are evaluated on it.  Operations outside the model's alphabet -
construction with parent=..., add_<child> through a chain of reads, re-assignment of a listed repetition to another
position of the same parent - form a small oracle-only family.
"""
import json
import os
import sys

sys.path.insert(0, os.path.dirname(__file__))
from common import Run, theorems_of
import heapcorr as H
from hl7apy.core import Element

VERSIONS_QUICK = ['2.5']
VERSIONS_THOROUGH = ['2.5', '2.3', '2.7']


def walk(impl):
    return impl.order()[0]


def inv_violations(impl):
    """the clauses of C10 evaluated on the live objects; returns a list of (clause, detail)"""
    out = []
    elems = walk(impl)
    listed_by = {}
    for x in elems:
        ch = x.children
        lst = ch.list
        # every listed child reports this element as its parent
        for c in lst:
            if c.parent is not x:
                out.append(('parent-pointer', '%r listed by %r reports parent %r' % (c, x, c.parent)))
            listed_by.setdefault(id(c), []).append(x)
            # one version, one validation level
            if c.version != x.version or c.validation_level != x.validation_level:
                out.append(('level-version', '%r under %r' % (c, x)))
        # listed once
        if len(set(id(c) for c in lst)) != len(lst):
            out.append(('listed-twice', '%r lists a child twice: %r' % (x, lst)))
        # lookup by name / position / iteration / len / containment agree on the same children
        names = []
        for c in lst:
            if c.name not in names:
                names.append(c.name)
        for k in list(ch.indexes.keys()) + [n for n in names if n not in ch.indexes]:
            want = [c for c in lst if c.name == k]
            got = ch.indexes.get(k, [])
            if [id(c) for c in got] != [id(c) for c in want]:
                out.append(('by-name-index', '%r: indexes[%r]=%r but list gives %r' % (x, k, got, want)))
        try:
            if len(ch) != len(lst) or [id(c) for c in ch] != [id(c) for c in lst]:
                out.append(('iteration', '%r: len/iter disagree with list' % (x,)))
            for i, c in enumerate(lst):
                if ch[i] is not c:
                    out.append(('positional', '%r: children[%d] is not list[%d]' % (x, i, i)))
                if c not in ch:
                    out.append(('containment', '%r: child not contained' % (x,)))
        except Exception as ex:  # noqa
            out.append(('iteration', '%r: %r' % (x, ex)))
        # the public lookup by name returns the children of that name, in order
        for k in names:
            if not k or not isinstance(k, str):
                continue
            want = [c for c in lst if c.name == k]
            try:
                prox = getattr(x, k.lower())
            except Exception:  # noqa  (a name the element no longer resolves: not a C10 matter)
                continue
            if not hasattr(prox, 'list') or isinstance(prox, str):
                continue
            try:
                got = list(prox)
                n = len(prox)
            except Exception as ex:  # noqa
                out.append(('by-name-lookup', '%r.%s: %r' % (x, k.lower(), ex)))
                continue
            if [id(c) for c in got] != [id(c) for c in want] or n != len(want):
                out.append(('by-name-lookup', '%r.%s gives %r, list gives %r' % (x, k.lower(), got, want)))
    for cid, ps in listed_by.items():
        if len(set(id(p) for p in ps)) > 1:
            out.append(('two-parents', 'a child is listed by %r' % (ps,)))
    return out


def view_disagreements(impl):
    """lookup by name against list / len / iteration / containment: navigation by name (x.<name>.<child>) resolves
    a missing child to the element kept for traversal; if that element LISTS children, the name view shows
    content that len(x.<name>), iteration over x and containment do not.  (Evaluated after successful calls:
    a write through a chain must have promoted every element of the chain.)"""
    out = []
    for x in walk(impl):
        for k, l in x.children.traversal_indexes.items():
            for t in l:
                if len(t.children.list) and not any(c is t for c in x.children.list):
                    try:
                        n = len(getattr(x, k.lower())) if isinstance(k, str) else 0
                    except Exception:  # noqa
                        n = 0
                    out.append(('name-lookup-vs-list', '%r.%s resolves to %r which lists %r, but len(%r.%s) == %d and it '
                                'is not in the children of %r' % (x, str(k).lower(), t, t.children.list, x,
                                                                  str(k).lower(), n, x)))
    return out


def element_args(op):
    """handles of the elements an operation attaches"""
    k = op[0]
    if k == 'add':
        return [op[2]]
    if k == 'insert':
        return [op[3]]
    if k == 'setparent':
        return [op[1]]
    hs = []
    for a in op:
        if isinstance(a, (list, tuple)) and len(a) >= 2 and a[0] == 'e':
            hs.append(a[1])
    return hs


def is_listed(impl, el):
    for x in walk(impl):
        for c in x.children.list:
            if c is el:
                return True
    return False


def in_traversal_index(impl, el):
    for x in walk(impl):
        for l in x.children.traversal_indexes.values():
            if any(c is el for c in l):
                return True
    return False


def classify(impl_before_listed, op):
    """the cause attribute of an invariant break, from the operation that caused it"""
    k = op[0]
    if k == 'newchild':
        return 'construct-with-parent'
    if k == 'insert':
        return 'insert'
    if k == 'setparent' and op[2] is None and impl_before_listed:
        return 'parent-none-of-listed'
    if impl_before_listed and k in ('add', 'setattr', 'setindex', 'setlistindex', 'setparent'):
        return 'reattach-listed'
    return 'other'


def proxy_index_disagreements(impl, stats=None):
    """positional lookup on the by-name view against iteration / len / containment: for every child name an element
    knows (real or traversal), proxy[i] for i in -len-1 .. len+1 must be list(proxy)[i], IndexError outside, and every
    element handed out reports the owner as parent and is listed by it"""
    out = []
    for x in walk(impl):
        ch = x.children
        keys = []
        for k in list(ch.indexes.keys()) + list(ch.traversal_indexes.keys()):
            if isinstance(k, str) and k not in keys:
                keys.append(k)
        for k in keys:
            try:
                prox = getattr(x, k.lower())
            except Exception:  # noqa  (a name the element no longer resolves)
                continue
            if not hasattr(prox, 'element_list'):
                continue            # a long name shadowed by an attribute
            try:
                lst = list(prox)
                n = len(prox)
            except Exception:  # noqa
                continue
            if stats is not None:
                stats['proxy_index_probes'] = stats.get('proxy_index_probes', 0) + 1
            for i in range(-n - 1, n + 2):
                try:
                    got = prox[i]
                except IndexError:
                    got = IndexError
                except Exception as ex:  # noqa
                    got = type(ex)
                want = lst[i] if -n <= i < n else IndexError
                if got is not want:
                    out.append(('proxy-index-vs-list', '%r.%s[%d] gives %r; len is %d and iteration gives %r'
                                % (x, k.lower(), i, got, n, lst)))
                    break
    return out


def make_hook(run, g, v, lvl, stats):
    """the oracle of one history: after every step, successful or rejected, the clauses of C10 on the live graph;
    after successful steps also the agreement of the name view with the list view"""
    state = {'broken': False, 'listed': False}

    def hook(impl, kk, op, phase, data):
        if phase == 'before':
            hs = [h for h in element_args(op) if 0 <= h < len(impl.I)]
            state['listed'] = any(is_listed(impl, impl.I[h]) for h in hs)
            if hs:
                stats['steps_with_element_argument'] += 1
            for h in hs:
                el = impl.I[h]
                if not is_listed(impl, el):
                    # the hypothesis `detached` of C10_step_partial: not listed, no traversal parent,
                    # in no traversal index - measured: does "not listed" imply the rest for handles?
                    stats['element_args_unlisted'] = stats.get('element_args_unlisted', 0) + 1
                    if el._traversal_parent is None and not in_traversal_index(impl, el):
                        stats['element_args_detached'] = stats.get('element_args_detached', 0) + 1
            return
        stats['steps'] += 1
        if data[0] != 0:
            stats['rejected_steps'] += 1
        if state['broken']:
            return
        stats['inv_evaluations'] += 1
        viol = inv_violations(impl)
        if viol:
            state['broken'] = True
            stats['histories_with_break'] += 1
            cause = classify(state['listed'], op)
            run.fail('inv-broken', 'the element tree is inconsistent after an API call: ' + viol[0][1][:200],
                     cause=cause, clause=viol[0][0], version=v, level=lvl, outcome=data[0],
                     ops=g.ops + [op], step=kk)
            return
        dis = proxy_index_disagreements(impl, stats)
        if not dis and data[0] == 0:
            dis = view_disagreements(impl)
        if dis:
            if True:
                state['broken'] = True
                stats['histories_with_break'] += 1
                run.fail('views-disagree', 'lookup by name / position and the children list disagree: '
                         + dis[0][1][:300], clause=dis[0][0], operation=op[0], version=v, level=lvl,
                         ops=g.ops + [op], step=kk)
    return hook, state


def main(argv=None):
    run = Run('C10', argv)
    if run.replay:
        return replay(run)
    ok = run.build(['Properties/C10.vo'], gen=('params', 'tables'), obligation_files=['Properties/C10.v'] + ['Proofs/HeapFacts.v', 'Proofs/HeapInv.v', 'Proofs/HeapOps.v', 'Proofs/HeapAlloc.v', 'Proofs/HeapSteps.v', 'Proofs/HeapStep.v'])
    if ok:
        run.print_assumptions('Properties.C10', [n for n, _ in theorems_of('Properties/C10.v')])
    rng = run.rng
    versions = VERSIONS_THOROUGH if run.thorough else VERSIONS_QUICK
    nhist = 3600 if run.thorough else 360
    nsteps = 16 if run.thorough else 14
    stats = {'steps': 0, 'rejected_steps': 0, 'inv_evaluations': 0, 'histories_with_break': 0,
             'histories_safe': 0, 'steps_with_element_argument': 0}
    shapes = set()
    all_cases = {}
    samples = []
    for v in versions:
        cases = []
        for k in range(nhist // len(versions)):
            lvl = H.TOLERANT if k % 2 == 0 else H.STRICT
            profile = 'reps' if k % 6 == 1 else ('segment' if k % 3 == 0 else 'deep')
            g = H.Gen(rng, v, lvl, profile=profile, nsteps=nsteps)
            hook, state = make_hook(run, g, v, lvl, stats)
            g.run(hook)
            if not state['broken']:
                stats['histories_safe'] += 1
            cases.append((g.ops, g.obs))
            shapes.add((v, lvl, tuple(sorted(set((o[0], c) for o, c in zip(g.ops, g.codes))))))
            if len(samples) < 4 and k % 97 == 5:
                samples.append({'version': v, 'level': lvl, 'ops': g.ops, 'codes': g.codes})
        all_cases[v] = cases
    # message-level family (Message / Group parents: outside the Coq model, judged by the oracle only)
    nmsg = 900 if run.thorough else 240
    stats['message_level_histories'] = nmsg
    for k in range(nmsg):
        v = versions[k % len(versions)]
        lvl = H.TOLERANT if k % 2 == 0 else H.STRICT
        g = H.MsgGen(rng, v, lvl, nsteps=14)
        hook, state = make_hook(run, g, v, lvl, stats)
        g.run(hook)
        if not state['broken']:
            stats['histories_safe'] += 1
        shapes.add((v, lvl, 'msg', tuple(sorted(set((o[0], c) for o, c in zip(g.ops, g.codes))))))
        if k == 7:
            samples.append({'version': v, 'level': lvl, 'message_level': True, 'ops': g.ops, 'codes': g.codes})
    # operations outside the Coq model's alphabet (judged by the oracle only): construction with parent=..., the
    # add_<child> helpers called through a chain of reads, and the re-assignment of a listed repetition to another
    # position of the same parent
    stats['construct_histories'] = 0
    fam = []
    for v in versions:
        for lvl in (H.TOLERANT, H.STRICT):
            fam += [
                # a component without a name of its own (called like its datatype) whose datatype changes after it was
                # attached: directly, from the field, from its subcomponent
                (v, lvl, [['newfield', lvl, 'PID_3', None], ['setattr', 0, ['cx_1'], ['t', '123']], ['newcomp', lvl, None, 'ST'],
                          ['add', 0, 1], ['setdatatype', 1, 'ID'], ['lenlist', 0], ['remove', 0, 1]]),
                (v, lvl, [['newfield', lvl, 'PID_1', None], ['newcomp', lvl, None, 'SI'], ['add', 0, 1], ['setdatatype', 0, 'NM'],
                          ['dellistindex', 0, 0]]),
                (v, lvl, [['newfield', lvl, None, 'ST'], ['newcomp', lvl, None, 'ST'], ['newsub', lvl, None, 'ST', ''], ['add', 1, 2],
                          ['add', 0, 1], ['setdatatype', 2, 'NM'], ['lenlist', 0]]),
                # children.insert(i, element) (MutableSequence API)
                (v, lvl, [['newseg', lvl, 'PID'], ['addhelper', 0, 'PID_3'], ['addhelper', 0, 'PID_3'], ['newfield', lvl, 'PID_3', None],
                          ['insert', 0, 0, 3], ['lenlist', 0]]),
                (v, lvl, [['newseg', lvl, 'PID'], ['addhelper', 0, 'PID_3'], ['newfield', lvl, 'PID_5', None], ['insert', 0, 0, 2],
                          ['newfield', lvl, 'PID_3', None], ['insert', 0, 2, 3]]),
                (v, lvl, [['newseg', lvl, 'ZZ1'], ['newfield', lvl, 'ZZ1_7', None], ['setvalue', 1, 'x'], ['insert', 0, 0, 1], ['toer7', 0]]),
                (v, lvl, [['newfield', lvl, 'PID_1', None], ['newchild', 0, None, 'SI'], ['lenlist', 0]]),
                (v, lvl, [['newfield', lvl, 'PID_5', None], ['newchild', 0, 'XPN_1', None], ['lenlist', 0]]),
                (v, lvl, [['newfield', lvl, 'PID_5', None], ['newchild', 0, None, 'FN'], ['newchild', 0, None, 'ST']]),
                (v, lvl, [['newseg', lvl, 'PID'], ['newchild', 0, 'PID_3', None], ['newchild', 0, 'PID_3', None]]),
                (v, lvl, [['newseg', lvl, 'PID'], ['newchild', 0, None, 'ST'], ['toer7', 0]]),
                (v, lvl, [['newcomp', lvl, 'CX_4', None], ['newchild', 0, None, 'IS'], ['newchild', 0, 'HD_1', None]]),
                (v, lvl, [['newseg', lvl, 'PID'], ['addhelperchain', 0, ['pid_5'], 'xpn_1'], ['setvalue', 1, 'A']]),
                (v, lvl, [['newseg', lvl, 'PID'], ['readvalue', 0, ['pid_3']], ['addhelperchain', 0, ['pid_3'], 'cx_1']]),
                (v, lvl, [['newmsg', lvl, 'ADT_A01', None], ['addhelperchain', 0, ['pid'], 'pid_1'], ['setvalue', 1, '1']]),
                (v, lvl, [['newseg', lvl, 'PID'], ['setindex', 0, ['pid_3'], 0, ['t', 'A']], ['setindex', 0, ['pid_3'], 1, ['t', 'B']],
                          ['grab', 0, ['pid_3'], 1], ['setindex', 0, ['pid_3'], 0, ['e', 1]]]),
                (v, lvl, [['newseg', lvl, 'PID'], ['setindex', 0, ['pid_3'], 0, ['t', 'A']], ['setindex', 0, ['pid_3'], 1, ['t', 'B']],
                          ['grab', 0, ['pid_3'], 0], ['setattr', 0, ['pid_3'], ['e', 1]], ['setlistindex', 0, 1, ['e', 1]]]),
            ]
    for v, lvl, ops in fam:
        stats['construct_histories'] += 1
        oracle_on_history(run, v, ops, stats, lvl)
        shapes.add((v, lvl, 'construct', tuple(o[0] for o in ops)))
    run.log('implementation side: %d histories, %d steps (%d rejected), %d oracle failures'
            % (sum(len(c) for c in all_cases.values()), stats['steps'], stats['rejected_steps'], len(run.failures)))
    evaluated = steps = nplain = 0
    for v, cases in all_cases.items():
        ev, st, bad, bad_plain, npl = H.run_model(run, v, cases, 'c10', per_file=max(8, len(cases) // 16),
                                                  plain_every=(1 if run.thorough else 3))
        evaluated += ev
        steps += st
        nplain += npl
        H.report_disagreements(run, v, cases, bad)
        for idx, step in bad_plain[:6]:
            run.note('exotic path taken (hist_plain does not hold): version %s step %d ops %s'
                     % (v, step, json.dumps(cases[idx][0][:step + 1])))
        stats['histories_not_plain'] = stats.get('histories_not_plain', 0) + len(bad_plain)
    run.log('model side: %d histories / %d steps replayed, %d disagreements; %d histories replayed with the exotic '
            'paths off, %d of them differ' % (evaluated, steps, len(run.disagreements), nplain,
                                              stats.get('histories_not_plain', 0)))
    stats['histories_replayed_plain'] = nplain
    H.shrink_oracle_failures(run, oracle_on_history, ('cause', 'clause'))
    causes = {}
    for f in run.failures:
        key = '%s/%s' % (f['data'].get('cause'), f['data'].get('clause'))
        causes[key] = causes.get(key, 0) + 1
    stats['break_causes'] = causes
    run.finish({
        'evaluations': stats['inv_evaluations'],
        'distinct_nontrivial': len(shapes),
        'rule': 'random histories (%d steps) of public API calls over element handles - construction, add, assignment by '
                'name / long name / positional path / index (text, element, proxy copy, datatype object), lazy '
                'traversal reads, value and datatype assignment, deletion, removal, parent assignment - on segments, '
                'fields and components, both validation levels, rejected calls kept; after EVERY step the object graph '
                'reachable from the handles is walked and the clauses of C10 are evaluated (evaluations = number of such '
                'walks); distinct_nontrivial = distinct (version, level, set of (operation kind, outcome code)) '
                'signatures of histories; every history is replayed in the Coq model with a full state dump compared '
                'per step' % nsteps,
        'samples': samples,
        'traces_validated_against_impl': evaluated,
        'steps_validated_against_impl': steps,
        'input_distribution': stats,
        'versions': versions,
    }, assumptions=[
        'model scope: Segment -> Field -> Component -> SubComponent; Group / Message parents are exercised by the '
        'implementation-side oracle only through their segments, not modelled',
        'C10_step_partial needs op_safe: element arguments detached (not listed, no traversal parent, in no traversal '
        'index), no datatype-object values, no element assigned through a positional path; the full statement is '
        'refuted (F8, F20)',
        'ElementProxy objects are not retained between operations; MutableSequence mix-ins (pop, reverse, extend...) are '
        'outside the operation alphabet',
        'leaf values are drawn from texts the datatype factory keeps verbatim (C13 covers the rest)',
    ])


def oracle_on_history(run, v, ops, stats=None, lvl=None):
    class G(object):
        pass
    g = G()
    g.ops = []
    if stats is None:
        stats = {'steps': 0, 'rejected_steps': 0, 'inv_evaluations': 0, 'histories_with_break': 0,
                 'histories_safe': 0, 'steps_with_element_argument': 0}
    hook, state = make_hook(run, g, v, lvl, stats)

    def h2(impl, kk, op, phase, data):
        hook(impl, kk, op, phase, data)
        if phase == 'after':
            g.ops.append(op)
    runner = H.run_message_history if any(o[0] == 'newmsg' for o in ops) else H.run_history
    runner(v, ops, h2)


def replay(run):
    r = json.load(open(run.replay))
    inp = r.get('input', {})
    ops = inp.get('ops')
    v = inp.get('version', '2.5')
    if ops:
        oracle_on_history(run, v, ops)
    for f in run.failures:
        print('replayed failure:', f['kind'], f['data'].get('cause'), f['what'])
    run.finish({'evaluations': len(ops or []), 'distinct_nontrivial': 1, 'rule': 'replay of one stored history',
                'samples': [inp]})


if __name__ == '__main__':
    from common import run_guarded
    run_guarded('C10', main)
