"""C03 - parsing never silently drops or reorders content.

Oracle: for messages = MSH + any sequence of segment lines (names of the version, of other message
types, Z-names; lines with surplus fields/components/subcomponents, repeated non-repeatable fields)
that parse_message accepts under TOLERANT, the encoding has the same segments in the same order and
per segment the same non-blank leaf values in the same order, with group finding on and off.
Correspondence: the segment parser/encoder model on the same (messy) lines; the message-level model
(Model/Message.v) when present.  Obligations: Properties/C03.v (when present) + table obligations.
"""
import os
import sys

sys.path.insert(0, os.path.dirname(__file__))
from common import Run, COQ, theorems_of
import segcorr as S
import hl7apy
from hl7apy.parser import parse_message
from hl7apy.exceptions import HL7apyException
import c01


def leaves(line, ec):
    """non-blank leaf texts of one segment line, in order (split all the way down)"""
    out = []
    fields = line.split(ec['FIELD'])[1:]
    if line[:3].upper() == 'MSH':
        fields = fields[1:]            # MSH-2 holds the delimiters themselves
    for f in fields:
        for rep in f.split(ec['REPETITION']):
            for c in rep.split(ec['COMPONENT']):
                for s in c.split(ec['SUBCOMPONENT']):
                    if s.strip():
                        out.append(s)
    return out


def norm_leaf(s, v, ec):
    ST = hl7apy.load_library(v).get_base_datatypes()['ST']
    return ST(s).to_er7(ec)


def same_leaves(inp, out, v, ec):
    a = [norm_leaf(x, v, ec) for x in leaves(inp, ec)]
    b = leaves(out, ec)
    if len(a) != len(b):
        return False
    for i, (x, y) in enumerate(zip(a, b)):
        if i in (0, len(a) - 1):
            if x.strip() != y.strip():       # parse_segments strips the ends of each line
                return False
        elif x != y:
            return False
    return True


# C03 is about dropping and reordering, not about re-formatting: numeric/date leaves are drawn from values
# the datatype factory keeps verbatim (re-formatting is C13's subject)
VERBATIM = dict(S.LEAF)
# the HL7 null value "" is content like any other (it asks the receiver to delete the stored value)
for _dt in ('ST', 'ID', 'IS', 'TX', 'FT'):
    if _dt in VERBATIM:
        VERBATIM[_dt] = list(VERBATIM[_dt]) + ['""', '""']
VERBATIM.update({
    'DT': ['20200101', '2020', '202012', 'x9', '2020010', '""'],
    'DTM': ['20200101', '202001011230', '20200101123059', '2020', 'q'],
    'TM': ['1200', '120000', '12', 'noon'],
    'NM': ['1', '15', '-3', 'abc', '1.5'],
    'SI': ['1', '12', 'x'],
})


def main(argv=None):
    S.LEAF = VERBATIM
    run = Run('C03', argv)
    targets = ['Oblig/WfAll.vo']
    obl = ['Oblig/WfAll.v']
    if os.path.exists(os.path.join(COQ, 'Properties', 'C03.v')):
        targets.append('Properties/C03.vo')
        obl.append('Properties/C03.v')
    ok = run.build(targets, gen=('params', 'tables'), obligation_files=obl)
    if ok and 'Properties/C03.v' in obl:
        run.print_assumptions('Properties.C03', [n for n, _ in theorems_of('Properties/C03.v')])
    rng = run.rng
    dist = {'messages': 0, 'accepted': 0, 'rejected_with_exception': 0, 'segments': 0, 'foreign_segments': 0,
            'z_segments': 0, 'surplus_lines': 0}
    seg_cases = []
    nmsg = 25 if not run.thorough else 200
    distinct = set()
    for v in S.VERSIONS:
        lib = hl7apy.load_library(v)
        ec = S.default_ec(v)
        mnames = [m for m in sorted(lib.MESSAGES) if isinstance(lib.MESSAGES[m], tuple) and len(lib.MESSAGES[m]) == 2
                  and lib.MESSAGES[m][1] and '_' in m and not m.endswith('nn')]
        allsegs = [s for s in sorted(lib.SEGMENTS) if S.ok_segment(lib, s) and s != 'MSH' and lib.SEGMENTS[s][1]]
        for _ in range(nmsg):
            m = rng.choice(mnames)
            try:
                names = c01.instance_names(lib.MESSAGES[m], rng.choice(['req', 'all']))
            except Exception:  # noqa
                continue
            if not names or names[0] != 'MSH' or 'ANYHL7SEGMENT' in names:
                continue
            names = [n for n in names[1:] if S.ok_segment(lib, n) and lib.SEGMENTS[n][1]][:25]
            # mix in foreign segments, Z-segments, repeats
            k = rng.randint(0, 4)
            for _i in range(k):
                pos = rng.randint(0, len(names))
                r = rng.random()
                if r < .35:
                    names.insert(pos, rng.choice(['ZXX', 'Z1A', 'ZZZ']))
                    dist['z_segments'] += 1
                elif r < .75:
                    names.insert(pos, rng.choice(allsegs))
                    dist['foreign_segments'] += 1
                elif names:
                    names.insert(pos, rng.choice(names))
            lines = [c01.msh_line(m, v)]
            for n in names:
                messy = rng.random() < .5
                line = S.gen_segment_line(rng, lib, ec, n if not n.startswith('Z') else None, messy=messy)
                if n.startswith('Z'):
                    line = n + line[3:]
                if messy:
                    dist['surplus_lines'] += 1
                lines.append(line.strip() or n)
            if rng.random() < 0.15 and len(lines) > 1:
                # a further header line in the body (a batch pasted together): it is content like any other segment
                lines.insert(rng.randint(1, len(lines)), rng.choice([lines[0], c01.msh_line(m, v).replace('|A|B|', '|X|Y|')]))
                dist['extra_header_lines'] = dist.get('extra_header_lines', 0) + 1
            text = '\r'.join(lines)
            in_lines = [l for l in text.split('\r') if l]
            dist['messages'] += 1
            for fg in (True, False):
                try:
                    msg = parse_message(text, validation_level=S.TOLERANT, find_groups=fg)
                    out = msg.to_er7()
                except HL7apyException:
                    dist['rejected_with_exception'] += 1
                    continue
                except Exception as ex:  # noqa
                    run.fail('crash', 'parse_message/to_er7 raised a non-library exception', version=v, find_groups=fg,
                             text=text, exc=repr(ex))
                    continue
                dist['accepted'] += 1
                out_lines = [l for l in out.split('\r') if l]
                in_names = [l[:3].upper() for l in in_lines]
                out_names = [l[:3] for l in out_lines]
                distinct.add((v, m, tuple(in_names)))
                if out_names != in_names:
                    kind = 'segments-dropped' if len(out_names) < len(in_names) else 'segments-reordered'
                    run.fail(kind, 'the encoded message does not have the same segments in the same order',
                             version=v, structure=m, find_groups=fg, text=text, input_segments=in_names,
                             output_segments=out_names)
                    continue
                for a, b in zip(in_lines, out_lines):
                    dist['segments'] += 1
                    if not same_leaves(a, b, v, ec):
                        run.fail('leaves-changed', 'a segment lost, gained or reordered non-blank leaf values',
                                 version=v, structure=m, find_groups=fg, segment=a[:3], input_line=a, output_line=b,
                                 nonstandard_escape=S.nonstandard_escape(a.replace('MSH|^~\\&', 'MSH|'), ec))
            for l in in_lines[1:]:
                if rng.random() < (0.25 if not run.thorough else 0.5):
                    seg_cases.append(S.case_of(l, v, S.TOLERANT, ec))
    run.log('oracle done: %s, %d failures' % (dist, len(run.failures)))
    # segment-level oracle on the same lines (parse_segment accepted => leaves preserved)
    for c in seg_cases:
        if c['code'] == 0 and not same_leaves(c['text'], c['enc'], c['v'], c['ec']):
            run.fail('leaves-changed', 'parse_segment(...).to_er7() lost, gained or reordered non-blank leaf values',
                     version=c['v'], segment=c['text'][:3], input_line=c['text'], output_line=c['enc'],
                     find_groups=None, structure=None,
                     nonstandard_escape=S.nonstandard_escape(c['text'], c['ec']))
    evaluated = S.run_model(run, seg_cases, 'c03', per_file=600)
    run.log('model evaluated %d segment lines, %d disagreements' % (evaluated, len(run.disagreements)))
    samples = [{'version': c['v'], 'text': c['text'][:160], 'enc': c['enc'][:160]} for c in
               seg_cases[:: max(1, len(seg_cases) // 5)][:5]]
    run.finish({
        'evaluations': dist['messages'] * 2 + len(seg_cases),
        'distinct_nontrivial': len(distinct),
        'rule': 'messages = MSH + instance of a random structure of the version (required-only / all children) with '
                '0-4 foreign segments, Z-segments or repeats inserted at random positions; half of the lines carry '
                'surplus fields/components/subcomponents, blanks and repeated fields; both find_groups modes; '
                'distinct = distinct (version, structure, segment-name sequence); a quarter of the lines also go '
                'through the Coq segment model',
        'samples': samples,
        'traces_validated_against_impl': evaluated,
        'input_distribution': dist,
    }, assumptions=['TOLERANT level; default delimiters; leaf comparison modulo the ST escaping of the leaf and, for the '
                    'first/last leaf of a line, modulo the blanks parse_segments strips from line ends'])


if __name__ == '__main__':
    from common import run_guarded
    run_guarded('C03', main)
