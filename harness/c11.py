"""C11 - reading never writes; the first write materialises exactly the path read.

Obligations: coq/Properties/C11.v (a navigation of any length changes the visible part of no
allocated element, for all heaps satisfying the invariant: children and both encodings unchanged,
however often repeated; observers do not touch the store; C11_write_materialises: from any store with
Inv and Tidy, x.n1...nk.value = text that ends normally lists every element of the chain under its
predecessor, keeps Inv, leaves the rest alone and puts the value in the leaf - with the non-vacuity
instance, the refutation without Tidy and the `.value = None` variant; C11_assign_materialises for the
by-name form x.n1...nk = text whose last name is a child name of the element reached).
Correspondence: harness/heapcorr.py (the histories, read probes included, replayed in the model with
the full state dump - traversal indexes too - compared after every step).
Oracle: (1) around every read probe (chains of 1-4 links by name / long name / positional path,
ending in .value, len(), iteration, repr, to_er7, validate) the encodings (both trailing settings),
the listed descendants (by identity) and the validation report of EVERY live handle are compared,
and again after repeating the probe; (2) after every successful write through a chain the set of
newly listed elements is compared with the links of the chain that did not exist.
"""
import json
import os
import re
import sys

sys.path.insert(0, os.path.dirname(__file__))
from common import Run, theorems_of
import heapcorr as H
import segcorr
from hl7apy.core import Segment, Field, Component, SubComponent

PLAIN = re.compile(r'^[A-Za-z0-9]+$')
READ_KINDS = ('read', 'readvalue', 'len', 'lenlist', 'toer7')


def subtree_ids(x, depth=0):
    out = []
    if depth > 4:
        return out
    for c in x.children.list:
        out.append(id(c))
        out.extend(subtree_ids(c, depth + 1))
    return out


def validation_report(x):
    try:
        r = x.validate(return_errors=True)
        if isinstance(r, tuple):
            return ('ok', tuple(tuple(str(y) for y in part) for part in r))
        return ('ok', str(r))
    except Exception as ex:  # noqa
        return ('exc', type(ex).__name__)


def snapshot(impl, with_validation):
    out = []
    for x in impl.I:
        try:
            enc = x.to_er7(impl.ec)
            if isinstance(x, Segment):
                enc += '\\' + x.to_er7(impl.ec, trailing_children=True)
        except Exception as ex:  # noqa
            enc = '!%d' % segcorr.outcome_code(ex)
        item = (enc, tuple(subtree_ids(x)), len(x.children))
        if with_validation:
            item = item + (validation_report(x),)
        out.append(item)
    return out


def extra_probe(impl, op):
    """the other ways of looking at the same place: iteration, repr, containment, validate"""
    try:
        t = impl.chain(op[1], op[2]) if op[0] in ('read', 'readvalue', 'len') else impl.I[op[1]]
        repr(t)
        for _ in t if hasattr(t, '__iter__') else []:
            pass
        if hasattr(t, 'list'):
            len(t)
        else:
            t.to_er7(impl.ec)
            validation_report(t)
    except Exception:  # noqa
        pass


def path_elements(impl, x, names):
    """the elements a chain addresses after a write (they exist now: reading creates nothing)"""
    path = []
    t = x
    for n in names:
        try:
            prox = getattr(t, n)
            el = prox[0]
        except Exception:  # noqa
            return None
        path.append(el)
        t = el
    return path


def main(argv=None):
    run = Run('C11', argv)
    if run.replay:
        return replay(run)
    ok = run.build(['Properties/C11.vo'], gen=('params', 'tables'), obligation_files=['Properties/C11.v', 'Proofs/HeapRead.v', 'Proofs/HeapWrite.v', 'Proofs/HeapChain.v',
                                     'Proofs/HeapLeaf.v', 'Proofs/HeapMaterialise.v', 'Proofs/HeapAssign.v'])
    if ok:
        run.print_assumptions('Properties.C11', [n for n, _ in theorems_of('Properties/C11.v')])
    rng = run.rng
    versions = ['2.5', '2.3', '2.7'] if run.thorough else ['2.5']
    nhist = 2700 if run.thorough else 300
    nsteps = 14 if run.thorough else 12
    stats = {'steps': 0, 'read_probes': 0, 'read_probes_by_depth': {}, 'repeated_probes': 0, 'chain_writes_checked': 0,
             'materialised_links': 0, 'name_styles': {'positional': 0, 'long': 0, 'plain': 0}}
    shapes = set()
    all_cases = {}
    samples = []
    for v in versions:
        cases = []
        for k in range(nhist // len(versions)):
            lvl = H.TOLERANT if k % 2 == 0 else H.STRICT
            g = H.Gen(rng, v, lvl, profile=('segment' if k % 2 else 'deep'), nsteps=nsteps)
            hook = make_hook(run, g, v, lvl, stats, shapes)
            # ordinary steps interleaved with dedicated probes: every read is applied twice
            for _ in range(nsteps):
                op, code, res = g.step(hook)
                if op[0] in READ_KINDS:
                    g_apply(g, op, hook, stats)
                elif rng.random() < .5:
                    probe = gen_probe(rng, g)
                    if probe:
                        g_apply(g, probe, hook, None)
                        g_apply(g, probe, hook, stats)
            stats['shadow_comparisons'] = stats.get('shadow_comparisons', 0) + shadow_check(run, v, lvl, g.ops, g.impl)
            cases.append((g.ops, g.obs))
            if len(samples) < 4 and k % 67 == 9:
                samples.append({'version': v, 'level': lvl, 'ops': g.ops, 'codes': g.codes})
        all_cases[v] = cases
    H.shrink_oracle_failures(run, oracle_on_history, ())
    # chains that end at MSH_1 / MSH_2 of a bare Segment('MSH'), written through .value, with and without a prior
    # read (the MSH fields have their own value setter; MSH is outside the Coq model: judged by the oracle only)
    stats['msh_histories'] = 0
    for v in versions:
        for lvl in (H.TOLERANT, H.STRICT):
            for fld, text in (('msh_1', '|'), ('msh_2', '^~\\&'), ('msh_3', 'APP'), ('msh_2', '^~')):
                for nreads in (0, 1, 2):
                    for extra in (0, 1):
                        ops = [['newseg', lvl, 'MSH']]
                        if extra:
                            ops.append(['setattr', 0, ['msh_4'], ['t', 'FAC']])
                        ops += [['readvalue', 0, [fld]]] * nreads
                        ops.append(['setvaluechain', 0, [fld], text])
                        ops.append(['toer7', 0])
                        stats['msh_histories'] += 1
                        oracle_on_history(run, v, ops, lvl, stats, shapes)
    run.log('implementation side: %d steps, %d read probes (%d repeated), %d chain writes checked, %d failures'
            % (stats['steps'], stats['read_probes'], stats['repeated_probes'], stats['chain_writes_checked'],
               len(run.failures)))
    evaluated = steps = 0
    for v, cases in all_cases.items():
        ev, st, bad, _, _ = H.run_model(run, v, cases, 'c11', per_file=max(8, len(cases) // 16))
        evaluated += ev
        steps += st
        H.report_disagreements(run, v, cases, bad)
    run.log('model side: %d histories / %d steps replayed, %d disagreements' % (evaluated, steps, len(run.disagreements)))
    run.finish({
        'evaluations': stats['read_probes'] + stats['chain_writes_checked'],
        'distinct_nontrivial': len(shapes),
        'rule': 'random histories (both levels) interleaved with read probes - chains of 1-4 attribute reads by name, '
                'long name and positional path ending in .value / len / iteration / repr / to_er7 / validate, each '
                'applied twice - and writes through chains; around every probe the encodings (both trailing_children '
                'settings), listed descendants (by identity), len and validation report of every live handle are '
                'compared; after every successful chain write the newly listed elements are compared with the absent '
                'links of the chain, and at the end of every history all handles are compared (by value) with the same '
                'history run WITHOUT its reads on fresh elements; distinct_nontrivial = distinct (version, level, probe kind, chain depth, outcome)',
        'samples': samples,
        'traces_validated_against_impl': evaluated,
        'steps_validated_against_impl': steps,
        'input_distribution': stats,
        'versions': versions,
    }, assumptions=[
        'model scope: Segment -> Field -> Component -> SubComponent (Group / Message parents not modelled)',
        'ElementProxy objects are not retained between operations',
        'the validation report is compared on the implementation only (the validator is C04\'s model)',
    ])


def by_value(impl):
    """encodings and children (names and encodings, in order) of every live handle, by value"""
    out = []
    for x in impl.I:
        try:
            enc = x.to_er7(impl.ec)
            if isinstance(x, Segment):
                enc += '\\' + x.to_er7(impl.ec, trailing_children=True)
        except Exception as ex:  # noqa
            enc = '!%d' % segcorr.outcome_code(ex)
        kids = []
        for c in x.children.list:
            try:
                kids.append((c.name, c.to_er7(impl.ec)))
            except Exception as ex:  # noqa
                kids.append((c.name, '!'))
        out.append((enc, tuple(kids)))
    return out


def shadow_check(run, v, lvl, ops, impl):
    """the first write materialises the path at its defined position WHATEVER was read before: the same
    history without its reads, run on fresh elements, must end in the same encodings and children"""
    if not any(o[0] in READ_KINDS for o in ops):
        return 0
    plain = [o for o in ops if o[0] not in READ_KINDS]
    shadow, _ = H.run_history(v, plain)
    a, b = by_value(impl), by_value(shadow)
    if a != b:
        j = [x != y for x, y in zip(a, b)].index(True) if len(a) == len(b) else -1
        run.fail('read-changed-later-write', 'the history with its reads ends in %r, the same history without them in %r'
                 % (a[j][0][:120] if j >= 0 else len(a), b[j][0][:120] if j >= 0 else len(b)),
                 version=v, level=lvl, handle=j, ops=ops, step=len(ops) - 1)
    return 1


def gen_probe(rng, g):
    """a read probe aimed at a place that does not exist yet, 1-4 links deep"""
    impl = g.impl
    I = impl.I
    parents = [i for i, y in enumerate(I) if isinstance(y, (Segment, Field, Component))]
    if not parents:
        return None
    # reuse the generator's chain builder
    for _ in range(6):
        op = g.gen_op()
        if op[0] in ('read', 'readvalue', 'len'):
            return op
    x = rng.choice(parents)
    return ['toer7', x]


def g_apply(g, op, hook, stats):
    k = len(g.ops)
    hook(g.impl, k, op, 'before', None)
    code, res = g.impl.apply(op)
    hook(g.impl, k, op, 'after', (code, res))
    g.ops.append(op)
    g.codes.append(code)
    g.obs.append(g.impl.observe(code, res))
    if stats is not None:
        stats['repeated_probes'] += 1


def make_hook(run, g, v, lvl, stats, shapes):
    state = {}

    def hook(impl, kk, op, phase, data):
        k = op[0]
        is_read = k in READ_KINDS
        is_chain_write = (k == 'setattr' and len(op[2]) >= 2) or k in ('setvaluechain', 'setvaluenone')
        if phase == 'before':
            if is_read:
                state['snap'] = snapshot(impl, True)
            if is_chain_write and 0 <= op[1] < len(impl.I):
                x = impl.I[op[1]]
                ids = subtree_ids(x)
                state['ids'] = set(ids)
                # a tree that an earlier call already corrupted (F8 / F20: a child listed twice) is C10's matter
                state['sane'] = len(ids) == len(set(ids))
                state['enc'] = snapshot(impl, False)
            return
        stats['steps'] += 1
        if is_read:
            extra_probe(impl, op)
            after = snapshot(impl, True)
            stats['read_probes'] += 1
            depth = len(op[2]) if k in ('read', 'readvalue', 'len') else 0
            stats['read_probes_by_depth'][str(depth)] = stats['read_probes_by_depth'].get(str(depth), 0) + 1
            for n in (op[2] if depth else []):
                if n.count('_') >= 2 and re.match(r'^[a-z0-9]+_\d+_\d+', n.lower()):
                    stats['name_styles']['positional'] += 1
                elif re.match(r'^[a-z0-9]+_\d+$', n.lower()):
                    stats['name_styles']['plain'] += 1
                else:
                    stats['name_styles']['long'] += 1
            shapes.add((v, lvl, k, depth, data[0]))
            if after != state['snap']:
                j = [a != b for a, b in zip(after, state['snap'])].index(True)
                what = 'encoding' if after[j][0] != state['snap'][j][0] else \
                    ('children' if after[j][1:3] != state['snap'][j][1:3] else 'validation')
                run.fail('read-wrote', 'a read changed the %s of a live element: %r -> %r'
                         % (what, state['snap'][j][0][:100], after[j][0][:100]),
                         changed=what, probe=k, depth=depth, version=v, level=lvl, outcome=data[0],
                         ops=g.ops + [op], step=kk)
            return
        if is_chain_write and data[0] == 0 and 0 <= op[1] < len(impl.I) and state.get('sane'):
            x = impl.I[op[1]]
            names = op[2]
            path = path_elements(impl, x, names)
            stats['chain_writes_checked'] += 1
            if path is None:
                run.fail('write-not-materialised', 'after a successful write through a chain some element of the chain is '
                         'not a listed child of the previous one', depth=len(names), version=v, level=lvl,
                         ops=g.ops + [op], step=kk)
                return
            after_ids = set(subtree_ids(x))
            new = after_ids - state['ids']
            last = path[-1]
            # what the assignment itself put there: the addressed last element and everything below it
            assigned = set([id(last)] + subtree_ids(last)) if k == 'setattr' else set(subtree_ids(last))
            extra = new - assigned
            on_path = set(id(p) for p in (path[:-1] if k == 'setattr' else path))
            stats['by_write_form'] = stats.get('by_write_form', {})
            stats['by_write_form'][k] = stats['by_write_form'].get(k, 0) + 1
            shapes.add((v, lvl, k, len(names), len(extra)))
            stats['materialised_links'] += len(extra)
            if not extra <= on_path:
                run.fail('write-created-more', 'a write through a chain listed elements that are not on the chain',
                         depth=len(names), version=v, level=lvl, ops=g.ops + [op], step=kk)
                return
            # once each: every link of the chain is now a child of the previous one, exactly once
            prev = x
            for p in path:
                n = sum(1 for c in prev.children.list if c is p)
                if n != 1:
                    run.fail('write-link-count', 'an element of the chain is listed %d times by its parent' % n,
                             depth=len(names), version=v, level=lvl, ops=g.ops + [op], step=kk)
                    return
                prev = p
            # nothing else: every other live handle encodes as before
            now = snapshot(impl, False)
            for j, (a, b) in enumerate(zip(now, state['enc'])):
                h = impl.I[j]
                related = (h is x) or any(h is p for p in path) or id(h) in after_ids or \
                    any(id(p) in set(subtree_ids(h)) for p in [x] + path)
                if not related and a != b:
                    run.fail('write-touched-other', 'a write through a chain changed an unrelated element',
                             depth=len(names), version=v, level=lvl, ops=g.ops + [op], step=kk)
                    return
            # at its defined position: reading the same chain back gives the value
            text = op[3][1] if k == 'setattr' else (op[3] if k == 'setvaluechain' else None)
            if isinstance(text, str) and PLAIN.match(text):
                try:
                    back = impl.chain(op[1], names).value
                    back = H.value_text(back, impl.ec)
                except Exception as ex:  # noqa
                    back = '!%s' % type(ex).__name__
                dtp = None if isinstance(path[-1], Segment) else path[-1].datatype
                pdt = None
                if len(path) >= 2 and not isinstance(path[-2], Segment):
                    pdt = path[-2].datatype
                # a value below a bare varies element is not encoded at all (F19, C09's finding): not a position matter
                varies = any((not isinstance(q, Segment)) and q.datatype == 'varies' for q in path)
                if back != text and not varies:
                    run.fail('write-not-readable', 'the value written through a chain reads back as %r, not %r' % (back, text),
                             depth=len(names), target_datatype=dtp, parent_datatype=pdt, version=v, level=lvl,
                             ops=g.ops + [op], step=kk)
    return hook


def oracle_on_history(run, v, ops, lvl=None, stats=None, shapes=None):
    class G(object):
        pass
    g = G()
    g.ops = []
    if stats is None:
        stats = {'steps': 0, 'read_probes': 0, 'read_probes_by_depth': {}, 'repeated_probes': 0, 'chain_writes_checked': 0,
                 'materialised_links': 0, 'name_styles': {'positional': 0, 'long': 0, 'plain': 0}}
    hook = make_hook(run, g, v, lvl, stats, set() if shapes is None else shapes)

    def h2(impl, kk, op, ph, d):
        hook(impl, kk, op, ph, d)
        if ph == 'after':
            g.ops.append(op)
    impl, _ = H.run_history(v, ops, h2)
    shadow_check(run, v, lvl, ops, impl)


def replay(run):
    r = json.load(open(run.replay))
    inp = r.get('input', {})
    ops = inp.get('ops')
    v = inp.get('version', '2.5')
    if ops:
        oracle_on_history(run, v, ops, inp.get('level'))
    if False:
        class G(object):
            pass
        g = G()
        g.ops = []
        stats = {'steps': 0, 'read_probes': 0, 'read_probes_by_depth': {}, 'repeated_probes': 0, 'chain_writes_checked': 0,
                 'materialised_links': 0, 'name_styles': {'positional': 0, 'long': 0, 'plain': 0}}
        hook = make_hook(run, g, v, inp.get('level'), stats, set())

        def h2(impl, kk, op, ph, d):
            hook(impl, kk, op, ph, d)
            if ph == 'after':
                g.ops.append(op)
        impl, _ = H.run_history(v, ops, h2)
        shadow_check(run, v, inp.get('level'), ops, impl)
    for f in run.failures:
        print('replayed failure:', f['kind'], f['what'])
    run.finish({'evaluations': len(ops or []), 'distinct_nontrivial': 1, 'rule': 'replay of one stored history',
                'samples': [inp]})


if __name__ == '__main__':
    from common import run_guarded
    run_guarded('C11', main)
