"""C11 - reading never writes; the first write materialises exactly the path read.

Obligations: coq/Properties/C11.v (a navigation of any length changes the visible part of no
allocated element, for all heaps satisfying the invariant: children and both encodings unchanged,
however often repeated; observers do not touch the store; C11_write_materialises: from any store with
Inv and Tidy, x.n1...nk.value = text that ends normally lists every element of the chain under its
predecessor, keeps Inv, leaves the rest alone and puts the value in the leaf - with the non-vacuity
instance, the refutation without Tidy and the `.value = None` variant; C11_assign_materialises for the
by-name form x.n1...nk = text whose last name is a child name of the element reached).
Correspondence: harness/heapcorr.py (the histories, read probes included, replayed in the model with
the full state dump - traversal indexes too - compared after every step).
Oracle: (1) around every read probe (chains of 1-4 links by name / long name / positional path,
ending in .value, len(), iteration, repr, to_er7, validate) the encodings (both trailing settings),
the listed descendants (by identity) and the validation report of EVERY live handle are compared,
and again after repeating the probe; (2) after every successful write through a chain the set of
newly listed elements is compared with the links of the chain that did not exist; every element of the
chain shows in the encoding of the one above it (write-not-encoded); the whole-element assignment / deletion that
follows replaces / removes what the write created (created-element-not-ordinary); a text written through a chain
that passes a varies field is not refused with ChildNotValid (chain-write-refused); x.n1...nk.add_<child>(name)
.value = text reaches x (write-not-materialised, write_form add-helper-through-chain; oracle-only family).
"""
import json
import os
import re
import sys

sys.path.insert(0, os.path.dirname(__file__))
from common import Run, theorems_of
import heapcorr as H
import segcorr
from hl7apy.core import Segment, Field, Component, SubComponent, Group

PLAIN = re.compile(r'^[A-Za-z0-9]+$')
READ_KINDS = ('read', 'readvalue', 'len', 'lenlist', 'toer7')


def subtree_ids(x, depth=0):
    out = []
    if depth > 4:
        return out
    for c in x.children.list:
        out.append(id(c))
        out.extend(subtree_ids(c, depth + 1))
    return out


def validation_report(x):
    try:
        r = x.validate(return_errors=True)
        if isinstance(r, tuple):
            return ('ok', tuple(tuple(str(y) for y in part) for part in r))
        return ('ok', str(r))
    except Exception as ex:  # noqa
        return ('exc', type(ex).__name__)


def snapshot(impl, with_validation):
    out = []
    for x in impl.I:
        try:
            enc = x.to_er7(impl.ec)
            if isinstance(x, Segment):
                enc += '\\' + x.to_er7(impl.ec, trailing_children=True)
        except Exception as ex:  # noqa
            enc = '!%d' % segcorr.outcome_code(ex)
        item = (enc, tuple(subtree_ids(x)), len(x.children))
        if with_validation:
            item = item + (validation_report(x),)
        out.append(item)
    return out


def extra_probe(impl, op):
    """the other ways of looking at the same place: iteration, repr, containment, validate"""
    try:
        t = impl.chain(op[1], op[2]) if op[0] in ('read', 'readvalue', 'len') else impl.I[op[1]]
        repr(t)
        for _ in t if hasattr(t, '__iter__') else []:
            pass
        if hasattr(t, 'list'):
            len(t)
        else:
            t.to_er7(impl.ec)
            validation_report(t)
    except Exception:  # noqa
        pass


def through_varies(x, names):
    """does the chain x.n1.n2... address component VARIES_n of a field of datatype varies?  (judged from the
    structure data: the field's reference, or a field beyond the structure of an open-ended standard segment)"""
    if isinstance(x, Field):
        return x.datatype == 'varies' and bool(names) and re.match(r'^varies_[1-9][0-9]*$', names[0].lower()) is not None
    if not isinstance(x, Segment) or len(names) < 2 or not re.match(r'^varies_[1-9][0-9]*$', names[1].lower()):
        return False
    n = names[0].upper()
    sbn = x.__dict__.get('structure_by_name') or {}
    sbl = x.__dict__.get('structure_by_longname') or {}
    row = sbn.get(n) or sbl.get(n)
    if row is not None:
        return len(row['ref']) > 2 and row['ref'][2] == 'varies'
    return bool(x.allow_infinite_children) and not x.name.startswith('Z') and \
        re.match(r'^%s_[1-9][0-9]*$' % re.escape(x.name), n) is not None


def unstructured(impl, q):
    """a Field / Component of a complex datatype that carries no child structure (a field made for a varies position
    - OBX_5, QPD_3 - and given a datatype)"""
    if not isinstance(q, (Field, Component)) or not q.datatype or q.datatype == 'varies':
        return False
    return not impl.lib.is_base_datatype(q.datatype) and not q.ordered_children


def path_elements(impl, x, names):
    """the elements a chain addresses after a write (they exist now: reading creates nothing)"""
    path = []
    t = x
    for n in names:
        try:
            prox = getattr(t, n)
            el = prox[0]
        except Exception:  # noqa
            return None
        path.append(el)
        t = el
    return path


def main(argv=None):
    run = Run('C11', argv)
    if run.replay:
        return replay(run)
    ok = run.build(['Properties/C11.vo'], gen=('params', 'tables'), obligation_files=['Properties/C11.v', 'Proofs/HeapRead.v', 'Proofs/HeapWrite.v', 'Proofs/HeapChain.v',
                                     'Proofs/HeapLeaf.v', 'Proofs/HeapMaterialise.v', 'Proofs/HeapAssign.v'])
    if ok:
        run.print_assumptions('Properties.C11', [n for n, _ in theorems_of('Properties/C11.v')])
    rng = run.rng
    versions = ['2.5', '2.3', '2.7'] if run.thorough else ['2.5']
    nhist = 2700 if run.thorough else 300
    nsteps = 14 if run.thorough else 12
    stats = {'steps': 0, 'read_probes': 0, 'read_probes_by_depth': {}, 'repeated_probes': 0, 'chain_writes_checked': 0,
             'materialised_links': 0, 'name_styles': {'positional': 0, 'long': 0, 'plain': 0}}
    shapes = set()
    all_cases = {}
    samples = []
    for v in versions:
        cases = []
        for k in range(nhist // len(versions)):
            lvl = H.TOLERANT if k % 2 == 0 else H.STRICT
            g = H.Gen(rng, v, lvl, profile=('open' if k % 6 == 1 else ('segment' if k % 2 else 'deep')), nsteps=nsteps)
            hook = make_hook(run, g, v, lvl, stats, shapes)
            # ordinary steps interleaved with dedicated probes: every read is applied twice
            for _ in range(nsteps):
                op, code, res = g.step(hook)
                if op[0] in READ_KINDS:
                    g_apply(g, op, hook, stats)
                elif rng.random() < .5:
                    probe = gen_probe(rng, g)
                    if probe:
                        g_apply(g, probe, hook, None)
                        g_apply(g, probe, hook, stats)
            stats['shadow_comparisons'] = stats.get('shadow_comparisons', 0) + shadow_check(run, v, lvl, g.ops, g.impl)
            cases.append((g.ops, g.obs))
            if len(samples) < 4 and k % 67 == 9:
                samples.append({'version': v, 'level': lvl, 'ops': g.ops, 'codes': g.codes})
        all_cases[v] = cases
    H.shrink_oracle_failures(run, oracle_on_history, ())
    # chains that end at MSH_1 / MSH_2 of a bare Segment('MSH'), written through .value, with and without a prior
    # read (the MSH fields have their own value setter; MSH is outside the Coq model: judged by the oracle only)
    stats['msh_histories'] = 0
    for v in versions:
        for lvl in (H.TOLERANT, H.STRICT):
            for fld, text in (('msh_1', '|'), ('msh_2', '^~\\&'), ('msh_3', 'APP'), ('msh_2', '^~')):
                for nreads in (0, 1, 2):
                    for extra in (0, 1):
                        ops = [['newseg', lvl, 'MSH']]
                        if extra:
                            ops.append(['setattr', 0, ['msh_4'], ['t', 'FAC']])
                        ops += [['readvalue', 0, [fld]]] * nreads
                        ops.append(['setvaluechain', 0, [fld], text])
                        ops.append(['toer7', 0])
                        stats['msh_histories'] += 1
                        oracle_on_history(run, v, ops, lvl, stats, shapes)
    # additions at the end of a chain: x.n1...nk.add_<child>(name).value = text on a chain of missing elements (the
    # helper is called on the read-created element; outside the Coq model's operation alphabet: oracle only)
    stats['helper_histories'] = 0
    for v in versions:
        for lvl in (H.TOLERANT, H.STRICT):
            for root, names, child, text in ((['newseg', lvl, 'PID'], ['pid_5'], 'xpn_1', 'A'),
                                             (['newseg', lvl, 'PID'], ['pid_3'], 'cx_1', '7'),
                                             (['newseg', lvl, 'PID'], ['pid_5', 'xpn_1'], 'fn_1', 'A'),
                                             (['newmsg', lvl, 'ADT_A01', None], ['pid'], 'pid_1', '1'),
                                             (['newmsg', lvl, 'ADT_A01', None], ['evn'], 'evn_1', 'A01')):
                for nreads in (0, 1):
                    ops = [root] + [['readvalue', 0, names]] * nreads
                    ops += [['addhelperchain', 0, names, child], ['setvalue', 1, text], ['toer7', 0]]
                    stats['helper_histories'] += 1
                    oracle_on_history(run, v, ops, lvl, stats, shapes)
    # chains that pass a Z-SEGMENT which does not exist yet, below a message or a group, ending in a write (Message /
    # Group parents are outside the Coq model: oracle only)
    stats['z_segment_histories'] = 0
    for v in versions:
        for lvl in (H.TOLERANT, H.STRICT):
            for struct, front in (('ADT_A01', []), ('ORU_R01', []), ('ORU_R01', ['oru_r01_patient_result']),
                                  ('OML_O33', ['oml_o33_patient'])):
                for z in ('zin', 'zbe'):
                    for form in ('setattr', 'setvaluechain'):
                        for nreads in (0, 1):
                            names = front + [z, '%s_%d' % (z, rng.choice([1, 2, 3]))]
                            ops = [['newmsg', lvl, struct, None]] + [['readvalue', 0, names]] * nreads
                            ops.append(['setattr', 0, names, ['t', 'x']] if form == 'setattr' else ['setvaluechain', 0, names, 'ab'])
                            ops.append(['toer7', 0])
                            stats['z_segment_histories'] += 1
                            oracle_on_history(run, v, ops, lvl, stats, shapes)
    run.log('implementation side: %d steps, %d read probes (%d repeated), %d chain writes checked, %d failures'
            % (stats['steps'], stats['read_probes'], stats['repeated_probes'], stats['chain_writes_checked'],
               len(run.failures)))
    evaluated = steps = 0
    for v, cases in all_cases.items():
        ev, st, bad, _, _ = H.run_model(run, v, cases, 'c11', per_file=max(8, len(cases) // 16))
        evaluated += ev
        steps += st
        H.report_disagreements(run, v, cases, bad)
    run.log('model side: %d histories / %d steps replayed, %d disagreements' % (evaluated, steps, len(run.disagreements)))
    run.finish({
        'evaluations': stats['read_probes'] + stats['chain_writes_checked'],
        'distinct_nontrivial': len(shapes),
        'rule': 'random histories (both levels) interleaved with read probes - chains of 1-4 attribute reads by name, '
                'long name and positional path ending in .value / len / iteration / repr / to_er7 / validate, each '
                'applied twice - and writes through chains; around every probe the encodings (both trailing_children '
                'settings), listed descendants (by identity), len and validation report of every live handle are '
                'compared; after every successful chain write the newly listed elements are compared with the absent '
                'links of the chain, and at the end of every history all handles are compared (by value) with the same '
                'history run WITHOUT its reads on fresh elements; distinct_nontrivial = distinct (version, level, probe kind, chain depth, outcome)',
        'samples': samples,
        'traces_validated_against_impl': evaluated,
        'steps_validated_against_impl': steps,
        'input_distribution': stats,
        'versions': versions,
    }, assumptions=[
        'model scope: Segment -> Field -> Component -> SubComponent (Group / Message parents not modelled)',
        'ElementProxy objects are not retained between operations',
        'the validation report is compared on the implementation only (the validator is C04\'s model)',
    ])


def by_value(impl):
    """encodings and children (names and encodings, in order) of every live handle, by value"""
    out = []
    for x in impl.I:
        try:
            enc = x.to_er7(impl.ec)
            if isinstance(x, Segment):
                enc += '\\' + x.to_er7(impl.ec, trailing_children=True)
        except Exception as ex:  # noqa
            enc = '!%d' % segcorr.outcome_code(ex)
        kids = []
        for c in x.children.list:
            try:
                kids.append((c.name, c.to_er7(impl.ec)))
            except Exception as ex:  # noqa
                kids.append((c.name, '!'))
        out.append((enc, tuple(kids)))
    return out


def shadow_check(run, v, lvl, ops, impl):
    """the first write materialises the path at its defined position WHATEVER was read before: the same
    history without its reads, run on fresh elements, must end in the same encodings and children"""
    if not any(o[0] in READ_KINDS for o in ops):
        return 0
    plain = [o for o in ops if o[0] not in READ_KINDS]
    shadow, _ = H.run_history(v, plain)
    a, b = by_value(impl), by_value(shadow)
    if a != b:
        j = [x != y for x, y in zip(a, b)].index(True) if len(a) == len(b) else -1
        run.fail('read-changed-later-write', 'the history with its reads ends in %r, the same history without them in %r'
                 % (a[j][0][:120] if j >= 0 else len(a), b[j][0][:120] if j >= 0 else len(b)),
                 version=v, level=lvl, handle=j, ops=ops, step=len(ops) - 1)
    return 1


def gen_probe(rng, g):
    """a read probe aimed at a place that does not exist yet, 1-4 links deep"""
    impl = g.impl
    I = impl.I
    parents = [i for i, y in enumerate(I) if isinstance(y, (Segment, Field, Component))]
    if not parents:
        return None
    # reuse the generator's chain builder
    for _ in range(6):
        op = g.gen_op()
        if op[0] in ('read', 'readvalue', 'len'):
            return op
    x = rng.choice(parents)
    return ['toer7', x]


def g_apply(g, op, hook, stats):
    k = len(g.ops)
    hook(g.impl, k, op, 'before', None)
    code, res = g.impl.apply(op)
    hook(g.impl, k, op, 'after', (code, res))
    g.ops.append(op)
    g.codes.append(code)
    g.obs.append(g.impl.observe(code, res))
    if stats is not None:
        stats['repeated_probes'] += 1


def make_hook(run, g, v, lvl, stats, shapes):
    state = {}

    def hook(impl, kk, op, phase, data):
        k = op[0]
        is_read = k in READ_KINDS
        is_chain_write = (k == 'setattr' and len(op[2]) >= 2) or k in ('setvaluechain', 'setvaluenone')
        if phase == 'before':
            if k == 'setdatatype' and 0 <= op[1] < len(impl.I) and len(impl.I[op[1]].children.list):
                # a datatype change on a populated element (refused or not) may leave children that no longer fit the
                # structure tables of the element (F9, C12's finding): what is read or encoded below it afterwards is not
                # a matter of where a chain write put its value
                state.setdefault('retyped', set()).add(id(impl.I[op[1]]))
            state['follow'] = None
            made = state.get('made')
            if made is not None and k in ('setattr', 'delattr', 'delindex') and op[1] == made['h'] and \
                    0 < len(op[2]) <= len(made['path']) and op[2] == made['names'][:len(op[2])] and \
                    (k != 'setattr' or op[3][0] == 't') and (k != 'delindex' or op[3] == 0):
                # the whole-element assignment / deletion of an element that the previous write through a chain created
                t = made['path'][len(op[2]) - 1]
                par = made['path'][len(op[2]) - 2] if len(op[2]) >= 2 else made['x']
                same = [c for c in par.children.list if c.name == t.name]
                if id(t) in made['new'] and same and same[0] is t and sum(1 for c in same if c is t) == 1:
                    state['follow'] = (t, par, len(same), made['form'])
            if not is_read:
                state['made'] = None
            if is_read:
                state['snap'] = snapshot(impl, True)
            if is_chain_write and 0 <= op[1] < len(impl.I):
                x = impl.I[op[1]]
                ids = subtree_ids(x)
                state['ids'] = set(ids)
                # a tree that an earlier call already corrupted (F8 / F20: a child listed twice) is C10's matter
                state['sane'] = len(ids) == len(set(ids))
                state['enc'] = snapshot(impl, False)
            return
        stats['steps'] += 1
        if state.get('follow') is not None and data[0] == 0:
            t, par, n0, form = state['follow']
            n1 = sum(1 for c in par.children.list if c.name == t.name)
            still = any(c is t for c in par.children.list)
            want = n0 if k == 'setattr' else n0 - 1
            stats['created_then_replaced_or_deleted'] = stats.get('created_then_replaced_or_deleted', 0) + 1
            if n1 != want or still:
                run.fail('created-element-not-ordinary', 'an element created by a write through a chain is not an ordinary '
                         'child: after %s there are %d children named %s (before: %d) and the created one is %s listed'
                         % ('its whole-element assignment' if k == 'setattr' else 'its deletion', n1, t.name, n0,
                            'still' if still else 'no longer'),
                         follow_up=k, depth=len(op[2]), write_form=form, version=v, level=lvl, ops=g.ops + [op], step=kk)
                return
        if is_chain_write and data[0] != 0 and 0 <= op[1] < len(impl.I):
            exc = type(getattr(impl, 'last_exc', None)).__name__
            text = op[3][1] if (k == 'setattr' and op[3][0] == 't') else (op[3] if k == 'setvaluechain' else None)
            if exc == 'ChildNotValid' and isinstance(text, str) and through_varies(impl.I[op[1]], op[2]):
                # a TEXT was assigned: no element was handed in that could be "not a valid child"
                stats['chain_writes_refused_child_not_valid'] = stats.get('chain_writes_refused_child_not_valid', 0) + 1
                run.fail('chain-write-refused', 'a text written through the chain %s is refused with ChildNotValid (%s)'
                         % ('.'.join(op[2]), str(impl.last_exc)[:160]),
                         through_varies=True, write_form=k,
                         depth=len(op[2]), version=v, level=lvl, ops=g.ops + [op], step=kk)
                return
        if k == 'addhelperchain' and data[0] == 0 and 0 <= op[1] < len(impl.I):
            state['helper'] = {'h': len(impl.I) - 1, 'x': impl.I[op[1]], 'names': list(op[2]) + [op[3]]}
        hp = state.get('helper')
        if k == 'setvalue' and hp is not None and op[1] == hp['h'] and data[0] == 0 and PLAIN.match(op[2] or ''):
            # x.n1...nk.add_<child>(name).value = text: an addition at the end of a chain; the value is assigned to the
            # element that was added, so that element and the chain above it must now hang below x
            stats['helper_writes_checked'] = stats.get('helper_writes_checked', 0) + 1
            y, x, n = impl.I[hp['h']], hp['x'], 0
            while y is not x and n < 8:
                par = y._parent
                if par is None or not any(c is y for c in par.children.list):
                    run.fail('write-not-materialised', 'x.%s.add_<child>(%r).value = %r ended normally but %r is not a listed '
                             'child of the element above it: the value does not reach x (%r)'
                             % ('.'.join(hp['names'][:-1]), hp['names'][-1], op[2], y, x.to_er7(impl.ec)[:80]),
                             write_form='add-helper-through-chain', depth=len(hp['names']), root_class=x.classname,
                             version=v, level=lvl, ops=g.ops + [op], step=kk)
                    return
                y, n = par, n + 1
        if is_read:
            extra_probe(impl, op)
            after = snapshot(impl, True)
            stats['read_probes'] += 1
            depth = len(op[2]) if k in ('read', 'readvalue', 'len') else 0
            stats['read_probes_by_depth'][str(depth)] = stats['read_probes_by_depth'].get(str(depth), 0) + 1
            for n in (op[2] if depth else []):
                if n.count('_') >= 2 and re.match(r'^[a-z0-9]+_\d+_\d+', n.lower()):
                    stats['name_styles']['positional'] += 1
                elif re.match(r'^[a-z0-9]+_\d+$', n.lower()):
                    stats['name_styles']['plain'] += 1
                else:
                    stats['name_styles']['long'] += 1
            shapes.add((v, lvl, k, depth, data[0]))
            if after != state['snap']:
                j = [a != b for a, b in zip(after, state['snap'])].index(True)
                what = 'encoding' if after[j][0] != state['snap'][j][0] else \
                    ('children' if after[j][1:3] != state['snap'][j][1:3] else 'validation')
                run.fail('read-wrote', 'a read changed the %s of a live element: %r -> %r'
                         % (what, state['snap'][j][0][:100], after[j][0][:100]),
                         changed=what, probe=k, depth=depth, version=v, level=lvl, outcome=data[0],
                         ops=g.ops + [op], step=kk)
            return
        if is_chain_write and data[0] == 0 and 0 <= op[1] < len(impl.I) and state.get('sane'):
            x = impl.I[op[1]]
            names = op[2]
            path = path_elements(impl, x, names)
            stats['chain_writes_checked'] += 1
            if path is None:
                run.fail('write-not-materialised', 'after a successful write through a chain some element of the chain is '
                         'not a listed child of the previous one', depth=len(names), version=v, level=lvl,
                         ops=g.ops + [op], step=kk)
                return
            after_ids = set(subtree_ids(x))
            new = after_ids - state['ids']
            last = path[-1]
            # what the assignment itself put there: the addressed last element and everything below it
            assigned = set([id(last)] + subtree_ids(last)) if k == 'setattr' else set(subtree_ids(last))
            extra = new - assigned
            on_path = set(id(p) for p in (path[:-1] if k == 'setattr' else path))
            stats['by_write_form'] = stats.get('by_write_form', {})
            stats['by_write_form'][k] = stats['by_write_form'].get(k, 0) + 1
            shapes.add((v, lvl, k, len(names), len(extra)))
            stats['materialised_links'] += len(extra)
            state['made'] = {'h': op[1], 'x': x, 'path': path, 'names': names, 'new': set(new), 'form': k}
            if not extra <= on_path:
                run.fail('write-created-more', 'a write through a chain listed elements that are not on the chain',
                         depth=len(names), version=v, level=lvl, ops=g.ops + [op], step=kk)
                return
            # once each: every link of the chain is now a child of the previous one, exactly once
            prev = x
            for p in path:
                n = sum(1 for c in prev.children.list if c is p)
                if n != 1:
                    run.fail('write-link-count', 'an element of the chain is listed %d times by its parent' % n,
                             depth=len(names), version=v, level=lvl, ops=g.ops + [op], step=kk)
                    return
                prev = p
            # nothing else: every other live handle encodes as before
            now = snapshot(impl, False)
            for j, (a, b) in enumerate(zip(now, state['enc'])):
                h = impl.I[j]
                related = (h is x) or any(h is p for p in path) or id(h) in after_ids or \
                    any(id(p) in set(subtree_ids(h)) for p in [x] + path)
                if not related and a != b:
                    run.fail('write-touched-other', 'a write through a chain changed an unrelated element',
                             depth=len(names), version=v, level=lvl, ops=g.ops + [op], step=kk)
                    return
            # at its defined position: reading the same chain back gives the value
            text = op[3][1] if k == 'setattr' else (op[3] if k == 'setvaluechain' else None)
            if isinstance(text, str) and PLAIN.match(text) and \
                    not any(id(q) in state.get('retyped', ()) for q in [x] + path):
                try:
                    back = impl.chain(op[1], names).value
                    back = H.value_text(back, impl.ec)
                except Exception as ex:  # noqa
                    back = '!%s' % type(ex).__name__
                typed = (Field, Component, SubComponent)
                dtp = path[-1].datatype if isinstance(path[-1], typed) else None
                pdt = None
                if len(path) >= 2 and isinstance(path[-2], typed):
                    pdt = path[-2].datatype
                # a value below a bare varies element is not encoded at all (F19, C09's finding): not a position matter
                varies = any(isinstance(q, typed) and q.datatype == 'varies' for q in path)
                if back != text and not varies:
                    run.fail('write-not-readable', 'the value written through a chain reads back as %r, not %r' % (back, text),
                             depth=len(names), target_datatype=dtp, parent_datatype=pdt, version=v, level=lvl,
                             ops=g.ops + [op], step=kk)
                    return
                # ... and every element of the chain shows in the encoding of the one above it
                if not varies and not any(n.lower().startswith('msh_') for n in names):
                    stats['chain_writes_encoding_checked'] = stats.get('chain_writes_encoding_checked', 0) + 1
                    prev = x
                    for j, p in enumerate(path):
                        try:
                            ce, pe = p.to_er7(impl.ec), prev.to_er7(impl.ec)
                        except Exception:  # noqa
                            break
                        if isinstance(prev, Group) and prev.validation_level == H.STRICT and \
                                p.name not in (prev.ordered_children or []):
                            # a STRICT group / message encodes in the order of its structure: a child the structure
                            # does not list (a Z-segment) is kept but not encoded (F18, C07 / C09 matter)
                            stats['strict_group_unlisted_child'] = stats.get('strict_group_unlisted_child', 0) + 1
                            break
                        if ce and ce not in pe:
                            run.fail('write-not-encoded', 'after a successful write through a chain %r encodes as %r, which '
                                     'does not show in the encoding %r of %r' % (p, ce[:60], pe[:120], prev),
                                     depth=len(names), link=j, write_form=k, unstructured_complex=unstructured(impl, prev),
                                     open_ended=bool(isinstance(x, Segment) and x.allow_infinite_children),
                                     version=v, level=lvl, ops=g.ops + [op], step=kk)
                            return
                        prev = p
    return hook


def oracle_on_history(run, v, ops, lvl=None, stats=None, shapes=None):
    class G(object):
        pass
    g = G()
    g.ops = []
    if stats is None:
        stats = {'steps': 0, 'read_probes': 0, 'read_probes_by_depth': {}, 'repeated_probes': 0, 'chain_writes_checked': 0,
                 'materialised_links': 0, 'name_styles': {'positional': 0, 'long': 0, 'plain': 0}}
    hook = make_hook(run, g, v, lvl, stats, set() if shapes is None else shapes)

    def h2(impl, kk, op, ph, d):
        hook(impl, kk, op, ph, d)
        if ph == 'after':
            g.ops.append(op)
    impl, _ = H.run_history(v, ops, h2)
    shadow_check(run, v, lvl, ops, impl)


def replay(run):
    r = json.load(open(run.replay))
    inp = r.get('input', {})
    ops = inp.get('ops')
    v = inp.get('version', '2.5')
    if ops:
        oracle_on_history(run, v, ops, inp.get('level'))
    if False:
        class G(object):
            pass
        g = G()
        g.ops = []
        stats = {'steps': 0, 'read_probes': 0, 'read_probes_by_depth': {}, 'repeated_probes': 0, 'chain_writes_checked': 0,
                 'materialised_links': 0, 'name_styles': {'positional': 0, 'long': 0, 'plain': 0}}
        hook = make_hook(run, g, v, inp.get('level'), stats, set())

        def h2(impl, kk, op, ph, d):
            hook(impl, kk, op, ph, d)
            if ph == 'after':
                g.ops.append(op)
        impl, _ = H.run_history(v, ops, h2)
        shadow_check(run, v, inp.get('level'), ops, impl)
    for f in run.failures:
        print('replayed failure:', f['kind'], f['what'])
    run.finish({'evaluations': len(ops or []), 'distinct_nontrivial': 1, 'rule': 'replay of one stored history',
                'samples': [inp]})


if __name__ == '__main__':
    from common import run_guarded
    run_guarded('C11', main)
