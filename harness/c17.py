"""C17 - explicit arguments override process-wide defaults.

Oracle: a corpus of calls with explicit version / validation level / encoding characters (parsers,
constructors + assignments, encoders, validator, datatype factory) gives identical results under
every combination of default version x default level x default delimiter set; elements built
before a change of defaults are unaffected.  Correspondence: the Coq model (which forwards explicit
arguments by construction: Model/Config.v, Properties/C17.v) is compared with hl7apy running under
a non-default configuration.
"""
import os
import sys

sys.path.insert(0, os.path.dirname(__file__))
from common import Run, theorems_of
import segcorr as S
import hl7apy
from hl7apy.core import Segment, Field, Component, SubComponent, Message
from hl7apy.parser import parse_segment, parse_field, parse_component, parse_message
from hl7apy.factories import datatype_factory

EC_SETS = [
    {'FIELD': '|', 'COMPONENT': '^', 'REPETITION': '~', 'ESCAPE': '\\', 'SUBCOMPONENT': '&', 'SEGMENT': '\r', 'GROUP': '\r'},
    {'FIELD': '!', 'COMPONENT': '@', 'REPETITION': '*', 'ESCAPE': '%', 'SUBCOMPONENT': '$', 'SEGMENT': '\r', 'GROUP': '\r'},
    {'FIELD': '#', 'COMPONENT': ':', 'REPETITION': ';', 'ESCAPE': '?', 'SUBCOMPONENT': '=', 'SEGMENT': '\r', 'GROUP': '\r'},
]


def outcome(f):
    try:
        return ('ok', f())
    except Exception as ex:  # noqa
        return ('exc', type(ex).__name__)


def build_corpus(rng, thorough):
    """list of (description, thunk) ; every thunk passes version / level / delimiters explicitly"""
    corpus = []
    n_lines = 4 if not thorough else 12
    for v in S.VERSIONS:
        lib = hl7apy.load_library(v)
        for lvl in (S.TOLERANT, S.STRICT):
            ec = rng.choice(EC_SETS)
            for _ in range(n_lines):
                text = S.gen_segment_line(rng, lib, ec, messy=rng.random() < .5)

                def f(text=text, v=v, lvl=lvl, ec=ec):
                    s = parse_segment(text, version=v, validation_level=lvl, encoding_chars=ec)
                    rep = s.validate(return_errors=True)
                    return (s.to_er7(ec), S.dump_seg(s, ec), sorted(str(e) for e in rep.errors))
                corpus.append((('parse_segment', v, lvl, text), f, {'v': v, 'lvl': lvl, 'ec': ec, 'text': text}))
            # long invalid value: the TOLERANT fallback to ST must use the explicit level
            long_bad = 'x' * 250

            def g(v=v, lvl=lvl):
                o = datatype_factory('NM', long_bad, v, lvl)
                return (type(o).__name__, o.to_er7(EC_SETS[0]))
            corpus.append((('datatype_factory', 'NM', v, lvl), g, None))
            for dt, val in (('DT', '20200101'), ('DT', 'nope'), ('ST', 'a|b'), ('SI', '12'), ('TM', '1200')):
                def h(dt=dt, val=val, v=v, lvl=lvl):
                    o = datatype_factory(dt, val, v, lvl)
                    return (type(o).__name__, o.to_er7(EC_SETS[1]))
                corpus.append((('datatype_factory', dt, val, v, lvl), h, None))

            def k(v=v, lvl=lvl):
                seg = Segment('PID', version=v, validation_level=lvl)
                seg.pid_1 = '1'
                # (text assigned to a parentless element is split with the current default delimiters by design,
                #  so the delimited value goes through parse_field with explicit delimiters)
                f5 = parse_field('Doe:John', name='PID_5', version=v, validation_level=lvl, encoding_chars=EC_SETS[2])
                seg.add(f5)
                f8 = Field('PID_8', version=v, validation_level=lvl)
                f8.value = 'M'
                seg.add(f8)
                c = Component(datatype='ST', version=v, validation_level=lvl)
                c.add(SubComponent(datatype='ST', value='x', version=v, validation_level=lvl))
                return (seg.to_er7(EC_SETS[2]), c.to_er7(EC_SETS[2]))
            corpus.append((('build', v, lvl), k, None))

            def pf(v=v, lvl=lvl):
                f = parse_field('A^B&C', name='PID_3', version=v, validation_level=lvl, encoding_chars=EC_SETS[0])
                c = parse_component('X&Y', name='CX_4', datatype='HD', version=v, validation_level=lvl,
                                    encoding_chars=EC_SETS[0])
                return (f.to_er7(EC_SETS[0]), c.to_er7(EC_SETS[0]))
            corpus.append((('parse_field/component', v, lvl), pf, None))
            if v >= '2.7':
                def sn(v=v, lvl=lvl):
                    # Component.add_subcomponent must test the base datatype against the component's own version
                    c = Component(datatype='SNM', version=v, validation_level=lvl)
                    c.add_subcomponent('SNM_1')
                    return 'ok'
                corpus.append((('add_subcomponent', v, lvl), sn, None))
        # a whole message: everything derived from the text
        mt = 'ADT^A01^ADT_A01' if v >= '2.3.1' else 'ADT^A01'
        text = 'MSH|^~\\&|A|B|C|D|20200101||%s|1|P|%s\rEVN|A01|20200101\rPID|1||123||Doe^John' % (mt, v)
        for lvl in (S.TOLERANT, S.STRICT):
            def pm(text=text, lvl=lvl):
                m = parse_message(text, validation_level=lvl)
                return (m.to_er7(), m.version, m.validation_level,
                        sorted(str(e) for e in m.validate(return_errors=True).errors))
            corpus.append((('parse_message', v, lvl), pm, None))
        # messages written with their own (non-default) delimiters, with a Z-segment and a segment the structure
        # does not list: every segment must be split with the delimiters found in MSH-1/MSH-2
        for ei, ecs in enumerate(EC_SETS[1:], 1):
            f, c, r, e, sb = ecs['FIELD'], ecs['COMPONENT'], ecs['REPETITION'], ecs['ESCAPE'], ecs['SUBCOMPONENT']
            mt2 = mt.replace('^', c)
            # characters that delimit in other sets but are ordinary text in this message
            foreign = 'v' + ''.join(ch for ch in '|^~\\&#:;?=!$*%@' if ch not in ecs.values())
            lines = [f.join(['MSH', c + r + e + sb, 'A', 'B', 'C', 'D', '20200101', '', mt2, '1', 'P', v]),
                     f.join(['EVN', 'A01', '20200101']),
                     f.join(['PID', '1', '', 'X' + c + 'Y' + sb + 'Z' + r + 'W']),
                     f.join(['ZPI', '1', 'AA' + c + 'BB' + sb + 'CC', foreign, 'p' + c + 'q' + sb + foreign]),
                     f.join(['PV1', '1', 'I']),
                     f.join(['OBX', '1', 'ST', 'k' + c + 'l', '', 'val'])]
            ctext = '\r'.join(lines)
            for fg in (True, False):
                def pmc(ctext=ctext, fg=fg):
                    m = parse_message(ctext, validation_level=S.TOLERANT, find_groups=fg)
                    segs = []

                    def walk(el):
                        for ch in el.children:
                            if ch.classname == 'Segment':
                                segs.append((ch.name, [(fld.name, len(fld.children)) for fld in ch.children]))
                            else:
                                walk(ch)
                    walk(m)
                    # every element of the message encodes itself (no argument) with the message's delimiters
                    own = []

                    def deep(el):
                        own.append(el.to_er7())
                        for ch in getattr(el, 'children', []):
                            if hasattr(ch, 'to_er7') and hasattr(ch, 'classname'):
                                deep(ch)
                    deep(m)
                    rep = m.validate(return_errors=True)
                    return (m.to_er7(), segs, own, sorted(str(x) for x in rep.errors), sorted(str(x) for x in rep.warnings))
                corpus.append((('parse_message-custom-delimiters', v, ei, fg), pmc, None))
    return corpus


def configs(thorough):
    out = []
    for dv in (S.VERSIONS if thorough else ['2.1', '2.3', '2.5', '2.7', '2.8.2']):
        for dl in (S.TOLERANT, S.STRICT):
            for de in range(len(EC_SETS)):
                out.append((dv, dl, de))
    return out


def apply_config(cfg):
    dv, dl, de = cfg
    hl7apy.set_default_version(dv)
    hl7apy.set_default_validation_level(dl)
    hl7apy.set_default_encoding_chars(dict(EC_SETS[de]))


def main(argv=None):
    run = Run('C17', argv)
    ok = run.build(['Properties/C17.vo'], gen=('params', 'tables'), obligation_files=['Properties/C17.v'])
    if ok:
        run.print_assumptions('Properties.C17', [n for n, _ in theorems_of('Properties/C17.v')])
    saved = (hl7apy.get_default_version(), hl7apy.get_default_validation_level(),
             dict(hl7apy.get_default_encoding_chars()))
    try:
        corpus = build_corpus(run.rng, run.thorough)
        cfgs = configs(run.thorough)
        baseline_cfg = ('2.5', S.TOLERANT, 0)
        apply_config(baseline_cfg)
        base = [outcome(f) for _, f, _ in corpus]
        # elements that exist before the defaults change
        pre = []
        for v in ('2.3', '2.5', '2.7'):
            probe = outcome(lambda v=v: parse_segment('PID|1||A^B&C~D||Doe^John', version=v,
                                                     validation_level=S.TOLERANT, encoding_chars=EC_SETS[0]))
            if probe[0] != 'ok':
                run.fail('explicit-call-raises', 'a parser call with explicit arguments raises under the shipped '
                         'defaults', version=v, exc=probe[1], function='parse_segment')
                continue
            s = parse_segment('PID|1||A^B&C~D||Doe^John', version=v, validation_level=S.TOLERANT,
                              encoding_chars=EC_SETS[0])
            m = Message('ADT_A01', version=v, validation_level=S.STRICT, encoding_chars=EC_SETS[1])
            m.msh.msh_7 = '20200101'
            pre.append((v, s, s.to_er7(EC_SETS[0]), S.dump_seg(s, EC_SETS[0]), s.version, s.validation_level,
                        m, m.to_er7(), dict(m.encoding_chars)))
        evaluations = 0
        for cfg in cfgs:
            apply_config(cfg)
            for (desc, f, _), b in zip(corpus, base):
                evaluations += 1
                r = outcome(f)
                if r != b:
                    run.fail('result-depends-on-defaults', 'a call with explicit arguments gives a different result under '
                             'different process-wide defaults', call=[str(x)[:200] for x in desc], config=list(cfg),
                             baseline=str(b)[:600], got=str(r)[:600], function=desc[0])
            for (v, s, enc, dmp, ver, lvl, m, menc, mec) in pre:
                evaluations += 1
                now = (s.to_er7(EC_SETS[0]), S.dump_seg(s, EC_SETS[0]), s.version, s.validation_level, m.to_er7(),
                       dict(m.encoding_chars))
                if now != (enc, dmp, ver, lvl, menc, mec):
                    run.fail('existing-element-changed', 'changing the defaults altered an element that already existed',
                             version=v, config=list(cfg), before=str((enc, ver, lvl, menc))[:500], after=str(now)[:500])
        run.log('oracle: %d calls x %d configurations, %d failures' % (len(corpus), len(cfgs), len(run.failures)))
        # correspondence: hl7apy under a hostile configuration vs the (configuration-free) model
        apply_config(('2.3', S.STRICT, 2))
        cases = []
        for desc, f, meta in corpus:
            if meta is None:
                continue
            c = S.case_of(meta['text'], meta['v'], meta['lvl'], meta['ec'])
            cases.append(c)
    finally:
        hl7apy.set_default_version(saved[0])
        hl7apy.set_default_validation_level(saved[1])
        hl7apy.set_default_encoding_chars(saved[2])
    evaluated = S.run_model(run, cases, 'c17', per_file=600)
    run.log('model evaluated %d parse_segment calls observed under defaults (2.3, STRICT, #:;?=), %d disagreements'
            % (evaluated, len(run.disagreements)))
    samples = [{'call': [str(x)[:120] for x in d], 'baseline': str(b)[:200]} for (d, _, _), b in
               list(zip(corpus, base))[:: max(1, len(corpus) // 6)][:6]]
    run.finish({
        'evaluations': evaluations,
        'distinct_nontrivial': len({d for d, _, _ in corpus}),
        'rule': 'corpus of calls with explicit version/level/delimiters (parse_segment on generated lines of every '
                'version + validate, datatype_factory incl. 250-character invalid values, constructors/assignment/'
                'to_er7 with explicit delimiters, parse_field/parse_component, add_subcomponent, parse_message) run under '
                '%d configurations of (default version, default level, default delimiter set); distinct = distinct calls; '
                'elements created beforehand are re-observed under every configuration' % len(cfgs),
        'samples': samples,
        'traces_validated_against_impl': evaluated,
        'configurations': len(cfgs),
        'corpus_calls': len(corpus),
    }, assumptions=[
        'a parentless element encoded WITHOUT explicit delimiters reads the current default by design (not flagged)',
        'message texts carry MSH-12, so the version is derived from the text',
    ])


if __name__ == '__main__':
    from common import run_guarded
    run_guarded('C17', main)
