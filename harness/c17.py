"""C17 - explicit arguments override process-wide defaults.

Oracle: a corpus of calls with explicit version / validation level / encoding characters (parsers,
constructors + assignments, encoders, validator, datatype factory) gives identical results under
every combination of default version x default level x default delimiter set; elements built
before a change of defaults are unaffected.  Correspondence: the Coq model (which forwards explicit
arguments by construction: Model/Config.v, Properties/C17.v) is compared with hl7apy running under
a non-default configuration.  Message level (Model/ConfigMsg.v, Properties/C17.v second half): parse_message
on generated texts with / without / with unsupported MSH-12, own delimiter sets, level given or omitted, and
datatype_factory with omitted version / level, are observed under three hostile configurations and
compared with the model's api wrappers evaluated with the same configuration (message_defaults_correspondence).
"""
import os
import sys

sys.path.insert(0, os.path.dirname(__file__))
from common import Run, theorems_of
import segcorr as S
import hl7apy
from hl7apy.core import Segment, Field, Component, SubComponent, Message
from hl7apy.parser import parse_segment, parse_field, parse_component, parse_message
from hl7apy.factories import datatype_factory

EC_SETS = [
    {'FIELD': '|', 'COMPONENT': '^', 'REPETITION': '~', 'ESCAPE': '\\', 'SUBCOMPONENT': '&', 'SEGMENT': '\r', 'GROUP': '\r'},
    {'FIELD': '!', 'COMPONENT': '@', 'REPETITION': '*', 'ESCAPE': '%', 'SUBCOMPONENT': '$', 'SEGMENT': '\r', 'GROUP': '\r'},
    {'FIELD': '#', 'COMPONENT': ':', 'REPETITION': ';', 'ESCAPE': '?', 'SUBCOMPONENT': '=', 'SEGMENT': '\r', 'GROUP': '\r'},
]


def outcome(f):
    try:
        return ('ok', f())
    except Exception as ex:  # noqa
        return ('exc', type(ex).__name__)


def build_corpus(rng, thorough):
    """list of (description, thunk) ; every thunk passes version / level / delimiters explicitly"""
    corpus = []
    n_lines = 4 if not thorough else 12
    for v in S.VERSIONS:
        lib = hl7apy.load_library(v)
        for lvl in (S.TOLERANT, S.STRICT):
            ec = rng.choice(EC_SETS)
            for _ in range(n_lines):
                text = S.gen_segment_line(rng, lib, ec, messy=rng.random() < .5)

                def f(text=text, v=v, lvl=lvl, ec=ec):
                    s = parse_segment(text, version=v, validation_level=lvl, encoding_chars=ec)
                    rep = s.validate(return_errors=True)
                    return (s.to_er7(ec), S.dump_seg(s, ec), sorted(str(e) for e in rep.errors))
                corpus.append((('parse_segment', v, lvl, text), f, {'v': v, 'lvl': lvl, 'ec': ec, 'text': text}))
            # long invalid value: the TOLERANT fallback to ST must use the explicit level
            long_bad = 'x' * 250

            def g(v=v, lvl=lvl):
                o = datatype_factory('NM', long_bad, v, lvl)
                return (type(o).__name__, o.to_er7(EC_SETS[0]))
            corpus.append((('datatype_factory', 'NM', v, lvl), g, None))
            for dt, val in (('DT', '20200101'), ('DT', 'nope'), ('ST', 'a|b'), ('SI', '12'), ('TM', '1200')):
                def h(dt=dt, val=val, v=v, lvl=lvl):
                    o = datatype_factory(dt, val, v, lvl)
                    return (type(o).__name__, o.to_er7(EC_SETS[1]))
                corpus.append((('datatype_factory', dt, val, v, lvl), h, None))

            def k(v=v, lvl=lvl):
                seg = Segment('PID', version=v, validation_level=lvl)
                seg.pid_1 = '1'
                # (text assigned to a parentless element is split with the current default delimiters by design,
                #  so the delimited value goes through parse_field with explicit delimiters)
                f5 = parse_field('Doe:John', name='PID_5', version=v, validation_level=lvl, encoding_chars=EC_SETS[2])
                seg.add(f5)
                f8 = Field('PID_8', version=v, validation_level=lvl)
                f8.value = 'M'
                seg.add(f8)
                c = Component(datatype='ST', version=v, validation_level=lvl)
                c.add(SubComponent(datatype='ST', value='x', version=v, validation_level=lvl))
                return (seg.to_er7(EC_SETS[2]), c.to_er7(EC_SETS[2]))
            corpus.append((('build', v, lvl), k, None))

            # a value just beyond the maximum length of the version's ST (999 in v2.6, 199 elsewhere): refused under an
            # explicit STRICT, kept under an explicit TOLERANT, whatever the default level
            def ol(v=v, lvl=lvl):
                ST = hl7apy.load_library(v).get_base_datatypes()['ST']
                mx = ST('x', validation_level=S.TOLERANT).max_length or 199
                o = datatype_factory('ST', 'y' * (mx + 1), v, lvl)
                sc = SubComponent(datatype='ST', value='y' * (mx + 1), version=v, validation_level=lvl)
                return (type(o).__name__, len(o.to_er7(EC_SETS[0])), len(sc.to_er7(EC_SETS[0])))
            corpus.append((('overlong-ST', v, lvl), ol, None))

            # a component assigned as text on a field of a message with its own delimiters
            def ca(v=v, lvl=lvl):
                e = EC_SETS[1]
                m = Message('ADT_A01', version=v, validation_level=lvl, encoding_chars=e)
                pid = m.add_segment('PID')
                pid.pid_3 = '1'
                sub = e['SUBCOMPONENT']
                if v >= '2.3':
                    pid.pid_3.cx_4 = 'N' + sub + 'u' + sub + 'I'
                pid.pid_5 = 'D' + e['COMPONENT'] + 'J'
                comp = pid.pid_5[0].children[0]
                comp.value = 'F' + sub + 'G' if lvl == S.TOLERANT else 'F'
                return (pid.to_er7(), [len(c.children) for f in pid.children for c in f.children])
            corpus.append((('component-text-in-custom-message', v, lvl), ca, None))

            # the library's own constant given explicitly: it means the standard set whatever default was installed since
            def lc(v=v, lvl=lvl):
                from hl7apy.consts import DEFAULT_ENCODING_CHARS
                s1 = parse_segment('PID|1||a^b&c~d||Doe^John', version=v, validation_level=S.TOLERANT,
                                   encoding_chars=DEFAULT_ENCODING_CHARS)
                return (s1.to_er7(DEFAULT_ENCODING_CHARS), S.dump_seg(s1, EC_SETS[0]), sorted(DEFAULT_ENCODING_CHARS.items()))
            if lvl == S.TOLERANT and v < '2.7':
                corpus.append((('library-constant-as-argument', v, lvl), lc, None))

            # TOLERANT fall-back of the factory: the text is kept as the ST of the version that was asked for
            def fb(v=v, lvl=lvl):
                outs = []
                for dt in ('NM', 'SI', 'DT'):
                    o = datatype_factory(dt, 'n#a\\L\\b', v, S.TOLERANT)
                    outs.append((type(o).__module__, o.to_er7(dict(EC_SETS[0], TRUNCATION='#') if v >= '2.7' else EC_SETS[0])))
                return outs
            if lvl == S.TOLERANT:
                corpus.append((('tolerant-fallback-version', v), fb, None))

            def pf(v=v, lvl=lvl):
                f = parse_field('A^B&C', name='PID_3', version=v, validation_level=lvl, encoding_chars=EC_SETS[0])
                c = parse_component('X&Y', name='CX_4', datatype='HD', version=v, validation_level=lvl,
                                    encoding_chars=EC_SETS[0])
                return (f.to_er7(EC_SETS[0]), c.to_er7(EC_SETS[0]))
            corpus.append((('parse_field/component', v, lvl), pf, None))
            if v >= '2.7':
                def sn(v=v, lvl=lvl):
                    # Component.add_subcomponent must test the base datatype against the component's own version
                    c = Component(datatype='SNM', version=v, validation_level=lvl)
                    c.add_subcomponent('SNM_1')
                    return 'ok'
                corpus.append((('add_subcomponent', v, lvl), sn, None))
        # a whole message: everything derived from the text
        mt = 'ADT^A01^ADT_A01' if v >= '2.3.1' else 'ADT^A01'
        text = 'MSH|^~\\&|A|B|C|D|20200101||%s|1|P|%s\rEVN|A01|20200101\rPID|1||123||Doe^John' % (mt, v)
        for lvl in (S.TOLERANT, S.STRICT):
            def pm(text=text, lvl=lvl):
                m = parse_message(text, validation_level=lvl)
                return (m.to_er7(), m.version, m.validation_level,
                        sorted(str(e) for e in m.validate(return_errors=True).errors))
            corpus.append((('parse_message', v, lvl), pm, None))
        # messages written with their own (non-default) delimiters, with a Z-segment and a segment the structure
        # does not list: every segment must be split with the delimiters found in MSH-1/MSH-2
        for ei, ecs in enumerate(EC_SETS[1:], 1):
            f, c, r, e, sb = ecs['FIELD'], ecs['COMPONENT'], ecs['REPETITION'], ecs['ESCAPE'], ecs['SUBCOMPONENT']
            mt2 = mt.replace('^', c)
            # characters that delimit in other sets but are ordinary text in this message
            foreign = 'v' + ''.join(ch for ch in '|^~\\&#:;?=!$*%@' if ch not in ecs.values())
            lines = [f.join(['MSH', c + r + e + sb, 'A', 'B', 'C', 'D', '20200101', '', mt2, '1', 'P', v]),
                     f.join(['EVN', 'A01', '20200101']),
                     f.join(['PID', '1', '', 'X' + c + 'Y' + sb + 'Z' + r + 'W']),
                     f.join(['ZPI', '1', 'AA' + c + 'BB' + sb + 'CC', foreign, 'p' + c + 'q' + sb + foreign]),
                     f.join(['PV1', '1', 'I']),
                     f.join(['OBX', '1', 'ST', 'k' + c + 'l', '', 'val'])]
            ctext = '\r'.join(lines)
            for fg in (True, False):
                def pmc(ctext=ctext, fg=fg):
                    m = parse_message(ctext, validation_level=S.TOLERANT, find_groups=fg)
                    segs = []

                    def walk(el):
                        for ch in el.children:
                            if ch.classname == 'Segment':
                                segs.append((ch.name, [(fld.name, len(fld.children)) for fld in ch.children]))
                            else:
                                walk(ch)
                    walk(m)
                    # every element of the message encodes itself (no argument) with the message's delimiters
                    own = []

                    def deep(el):
                        own.append(el.to_er7())
                        for ch in getattr(el, 'children', []):
                            if hasattr(ch, 'to_er7') and hasattr(ch, 'classname'):
                                deep(ch)
                    deep(m)
                    rep = m.validate(return_errors=True)
                    return (m.to_er7(), segs, own, sorted(str(x) for x in rep.errors), sorted(str(x) for x in rep.warnings))
                corpus.append((('parse_message-custom-delimiters', v, ei, fg), pmc, None))
    return corpus


def configs(thorough):
    out = []
    for dv in (S.VERSIONS if thorough else ['2.1', '2.3', '2.5', '2.7', '2.8.2']):
        for dl in (S.TOLERANT, S.STRICT):
            for de in range(len(EC_SETS)):
                out.append((dv, dl, de))
    return out


def apply_config(cfg):
    dv, dl, de = cfg
    hl7apy.set_default_version(dv)
    hl7apy.set_default_validation_level(dl)
    hl7apy.set_default_encoding_chars(dict(EC_SETS[de]))


# ==========================================================================================
# BEGIN message-level correspondence (Model/ConfigMsg.v api_parse_message / obs_parse_message)
# parse_message on generated messages (with and without MSH-12, unsupported MSH-12, own delimiter sets,
# truncation character from v2.7, level given or omitted, both group modes) is run in hl7apy under three
# hostile default configurations; the model's api wrapper is evaluated with the same configuration as
# an explicit `cfg` and the observations (outcome, version of the tables used, tree shape, to_er7 text)
# are compared inside Coq.  This is what ties Properties/C17.v's message-level theorems to the code.

MSG_CONFIGS = [('2.2', S.STRICT, 2), ('2.8.1', S.TOLERANT, 1), ('2.6', S.STRICT, 1)]

C17M_PRELUDE = """From Coq Require Import List NArith ZArith Init.Byte.
From HL7 Require Import Lib.Str Model.Ec Model.Result Model.Ref Model.Tree Model.MsgTree Model.Config Model.ConfigMsg Gen.Params.
Import ListNotations. Open Scope bs_scope.
Definition cfgs : list cfg := [%(cfgs)s].
Definition case := (nat * nat * bool * str * (nat * nat * str * str * str))%%type.
Definition run1 (c : case) : bool :=
  match c with (ci, l, fg, text, (code, ecode, ver, d, enc)) =>
    match nth_error cfgs ci with
    | None => false
    | Some cf =>
        let lvl := match l with 1%%nat => Some STRICT | 2%%nat => Some TOLERANT | _ => None end in
        match obs_parse_message cf text lvl fg with
        | (code', ecode', ver', d', enc') =>
            Nat.eqb code code' && Nat.eqb ecode ecode' && streqb ver ver' && streqb d d' && streqb enc enc'
        end
    end
  end.
Fixpoint failing (n : nat) (l : list case) : list nat :=
  match l with [] => [] | c :: r => (if run1 c then [] else [n]) ++ failing (S n) r end.
(* datatype_factory(datatype, value, version, validation_level) with omitted arguments *)
Definition fcase := (nat * str * str * option str * nat * (nat * bool * str))%%type.
Definition runf (c : fcase) : bool :=
  match c with (ci, dt, val, v, l, (code, fb, text)) =>
    match nth_error cfgs ci with
    | None => false
    | Some cf =>
        let lvl := match l with 1%%nat => Some STRICT | 2%%nat => Some TOLERANT | _ => None end in
        match api_datatype_factory cf dt %(ec0)s val v lvl with
        | Ok (fb', t') => Nat.eqb code 0 && Bool.eqb fb fb' && streqb text t'
        | Err x => Nat.eqb code (exn_code x)
        end
    end
  end.
Fixpoint ffailing (n : nat) (l : list fcase) : list nat :=
  match l with [] => [] | c :: r => (if runf c then [] else [n]) ++ ffailing (S n) r end.
"""

FACTORY_VALUES = [('DT', '20200101'), ('DT', '2020'), ('DT', 'nope'), ('NM', '12.5'), ('NM', '-3'), ('NM', 'abc'),
                  ('SI', '12'), ('SI', 'x1'), ('TM', '1200'), ('TM', '9999'), ('DTM', '202001011200'), ('XX', 'v'),
                  ('NM', 'a|b')]


def observe_factory(dt, val, v, lvl):
    try:
        o = datatype_factory(dt, val, v, lvl)
    except Exception as ex:  # noqa
        return (S.outcome_code(ex), False, '')
    used_v = v if v is not None else hl7apy.get_default_version()
    cls = hl7apy.load_library(used_v).get_base_datatypes().get(dt)
    return (0, not (cls is not None and isinstance(o, cls)), o.to_er7(EC_SETS[0]))


def message_texts(rng, thorough):
    """(description, text) pairs; '|'-delimited lines are rewritten with the delimiter set of the message"""
    import c08
    versions = S.VERSIONS if thorough else ['2.2', '2.3.1', '2.5', '2.7', '2.8.2']
    safe_lines = ['PID|1', 'PV1|1', 'OBX|1', 'ZZZ|1', 'ZAB', 'PID', 'EVN', 'NK1|1', 'pid|1', 'XXX']
    out = []
    per_version = 8 if not thorough else 14
    for v in versions:
        lib = hl7apy.load_library(v)
        ms = [m for m in ('ADT_A01', 'ORU_R01', 'ACK', 'ADT_A08', 'ORM_O01', 'ADT_A17') if m in lib.MESSAGES]
        for k in range(per_version):
            mname = rng.choice(ms) if rng.random() < .8 else rng.choice(['ZAB_Z01', 'XXX_Y01', 'adt_a01'])
            ref = lib.MESSAGES.get(mname.upper())
            header = rng.choice(['own', 'own', 'own', 'own-comp', 'none', 'none', 'unsupported', 'blank'])
            if header in ('none', 'blank', 'unsupported') or ref is None:
                names = [rng.choice(safe_lines) for _ in range(rng.randint(0, 4))]
                lines = list(names)
            else:
                base = [n for n in c08.places(ref) if n != 'MSH' and S.ok_segment(lib, n)] or ['PID']
                lines = [c08.simple_line(rng, lib, rng.choice(base)) if rng.random() < .8 else rng.choice(safe_lines)
                         for _ in range(rng.randint(0, 5))]
            ecs = dict(rng.choice(EC_SETS))
            trunc = None
            if v >= '2.7' and header in ('own', 'own-comp') and rng.random() < .4:
                trunc = '+'
            f, c = ecs['FIELD'], ecs['COMPONENT']
            msh2 = c + ecs['REPETITION'] + ecs['ESCAPE'] + ecs['SUBCOMPONENT'] + (trunc or '')
            p = mname.split('_')
            mt = c.join([p[0], p[1] if len(p) > 1 else ''] + ([mname] if (v >= '2.3.1' or rng.random() < .5) else []))
            fields = ['MSH', msh2, 'A', 'B', 'C', 'D', '20200101', '', mt, '1', 'P']
            if header == 'own':
                fields.append(v)
            elif header == 'own-comp' and v == '2.1':
                # MSH-12 of v2.1 is NM: blanks and further components go through the numeric layer (C13's model), which
                # the message-level model used here does not include - the plain version is written instead
                fields.append(v)
            elif header == 'own-comp':
                fields.append(' ' + v + c + 'USA' + c + 'x ')
            elif header == 'unsupported':
                fields.append(rng.choice(['9.9', '2', '2.5x', 'v' + v]))
            elif header == 'blank':
                fields.append('')
            text = '\r'.join([f.join(fields)] + [ln.replace('|', f) for ln in lines])
            text += rng.choice(['', '\r'])
            if rng.random() < .1:
                text = rng.choice([' ', '\n', '\r\n ']) + text
            out.append(((v, mname, header, trunc is not None), text))
    return out


def observe_message(text, lvl, fg):
    import c08
    try:
        m = parse_message(text, validation_level=lvl, find_groups=fg)
    except Exception as ex:  # noqa
        return (S.outcome_code(ex), 0, '', '', '')
    try:
        enc, ecode = m.to_er7(), 0
    except Exception as ex:  # noqa
        enc, ecode = '', S.outcome_code(ex)
    return (0, ecode, m.version, c08.dump_message(m), enc)


def message_defaults_correspondence(run):
    """returns (#cases evaluated by the model, #oracle evaluations); restores nothing: caller holds the saved defaults"""
    from common import coq_eval_many, parse_nat_lists, shard
    from coqgen import coq_str, coq_opt
    texts = message_texts(run.rng, run.thorough)
    cases = []
    oracle_evals = 0
    for desc, text in texts:
        variants = [(None, True), (S.TOLERANT, True), (S.STRICT, False)]
        if run.thorough:
            variants += [(None, False), (S.TOLERANT, False), (S.STRICT, True)]
        for lvl, fg in variants:
            obs = []
            for ci, cfg in enumerate(MSG_CONFIGS):
                apply_config(cfg)
                o = observe_message(text, lvl, fg)
                obs.append(o)
                cases.append({'ci': ci, 'lvl': lvl, 'fg': fg, 'text': text, 'obs': o, 'desc': desc})
            oracle_evals += len(obs)
            # oracle (the property itself): level explicit + a supported version stated by the header => one result
            if lvl is not None and desc[2] in ('own', 'own-comp') and len(set(obs)) != 1:
                run.fail('result-depends-on-defaults', 'parse_message of a text that states its version, with an explicit '
                         'level, gives different results under different process-wide defaults',
                         call=['parse_message', text[:300], lvl, fg], configs=[list(c) for c in MSG_CONFIGS],
                         got=[str(o)[:300] for o in obs], function='parse_message')
    cfg_terms = '; '.join('mk_cfg %s %s %s default_ec_27' % (coq_str(dv), 'STRICT' if dl == S.STRICT else 'TOLERANT',
                                                              S.ec_term(EC_SETS[de])) for dv, dl, de in MSG_CONFIGS)
    files, index = [], []
    nfiles = max(1, min(12, (len(cases) + 29) // 30))
    for k, sh in enumerate([cases[i::nfiles] for i in range(nfiles)]):   # interleaved: heavy structures spread evenly
        L = [C17M_PRELUDE % {'cfgs': cfg_terms, 'ec0': S.ec_term(EC_SETS[0])}, 'Definition cases : list case := [']
        L.append(';\n'.join('(%d%%nat, %d%%nat, %s, %s, (%d%%nat, %d%%nat, %s, %s, %s))' % (
            c['ci'], c['lvl'] or 0, 'true' if c['fg'] else 'false', coq_str(c['text']), c['obs'][0], c['obs'][1],
            coq_str(c['obs'][2]), coq_str(c['obs'][3]), coq_str(c['obs'][4])) for c in sh))
        L.append('].')
        L.append('Eval vm_compute in failing 0 cases.')
        files.append(('c17m_%d_%d' % (os.getpid(), k), '\n'.join(L) + '\n'))
        index.append(sh)
    fcases = []
    for dt, val in FACTORY_VALUES:
        for v in (None, '2.3', '2.5', '2.7'):
            for lvl in (None, S.STRICT, S.TOLERANT):
                if v is not None and lvl is not None and not run.thorough:
                    continue        # both explicit: covered by the oracle corpus above
                for ci, cfg in enumerate(MSG_CONFIGS):
                    apply_config(cfg)
                    fcases.append({'ci': ci, 'dt': dt, 'val': val, 'v': v, 'lvl': lvl,
                                   'obs': observe_factory(dt, val, v, lvl)})
    prelude = C17M_PRELUDE % {'cfgs': cfg_terms, 'ec0': S.ec_term(EC_SETS[0])}
    LF = [prelude, 'Definition fcases : list fcase := [']
    LF.append(';\n'.join('(%d%%nat, %s, %s, %s, %d%%nat, (%d%%nat, %s, %s))' % (
        c['ci'], coq_str(c['dt']), coq_str(c['val']), coq_opt(c['v'], coq_str), c['lvl'] or 0, c['obs'][0],
        'true' if c['obs'][1] else 'false', coq_str(c['obs'][2])) for c in fcases))
    LF.append('].')
    LF.append('Eval vm_compute in ffailing 0 fcases.')
    files.append(('c17f_%d' % os.getpid(), '\n'.join(LF) + '\n'))
    index.append(None)
    run.log('message level: implementation observed, %d case files' % len(files))
    results = coq_eval_many(files, timeout=600)
    evaluated = 0
    for sh, (rc, out) in zip(index, results):
        lists = parse_nat_lists(out)
        if sh is None:      # the datatype_factory file
            if rc != 0 or len(lists) != 1:
                run.disagree('datatype_factory-under-defaults', why='case file did not evaluate', output=out[-1200:])
                continue
            evaluated += len(fcases)
            for i in lists[0]:
                c = fcases[i]
                run.disagree('datatype_factory-under-defaults', config=list(MSG_CONFIGS[c['ci']]), datatype=c['dt'],
                             value=c['val'], version=c['v'], level=c['lvl'], implementation=[str(x) for x in c['obs']])
            continue
        if rc != 0 or len(lists) != 1:
            run.disagree('parse_message-under-defaults', why='case file did not evaluate', output=out[-1200:])
            continue
        evaluated += len(sh)
        for i in lists[0]:
            c = sh[i]
            run.disagree('parse_message-under-defaults', config=list(MSG_CONFIGS[c['ci']]), level=c['lvl'],
                         find_groups=c['fg'], text=c['text'], kind_of_text=[str(x) for x in c['desc']],
                         implementation=[str(x)[:400] for x in c['obs']])
    kinds = {}
    for c in cases:
        kinds[c['desc'][2]] = kinds.get(c['desc'][2], 0) + 1
    run.log('message level: %d texts, %d parse_message calls + %d datatype_factory calls under %d hostile configurations, '
            'model evaluated %d, header kinds %s' % (len(texts), oracle_evals, len(fcases), len(MSG_CONFIGS), evaluated, kinds))
    return evaluated, oracle_evals, len(texts)
# END message-level correspondence
# ==========================================================================================


def main(argv=None):
    run = Run('C17', argv)
    ok = run.build(['Properties/C17.vo'], gen=('params', 'tables'), obligation_files=['Properties/C17.v'])
    if ok:
        run.print_assumptions('Properties.C17', [n for n, _ in theorems_of('Properties/C17.v')])
    saved = (hl7apy.get_default_version(), hl7apy.get_default_validation_level(),
             dict(hl7apy.get_default_encoding_chars()))
    try:
        corpus = build_corpus(run.rng, run.thorough)
        cfgs = configs(run.thorough)
        baseline_cfg = ('2.5', S.TOLERANT, 0)
        apply_config(baseline_cfg)
        base = [outcome(f) for _, f, _ in corpus]
        # elements that exist before the defaults change
        pre = []
        for v in ('2.3', '2.5', '2.7'):
            probe = outcome(lambda v=v: parse_segment('PID|1||A^B&C~D||Doe^John', version=v,
                                                     validation_level=S.TOLERANT, encoding_chars=EC_SETS[0]))
            if probe[0] != 'ok':
                run.fail('explicit-call-raises', 'a parser call with explicit arguments raises under the shipped '
                         'defaults', version=v, exc=probe[1], function='parse_segment')
                continue
            s = parse_segment('PID|1||A^B&C~D||Doe^John', version=v, validation_level=S.TOLERANT,
                              encoding_chars=EC_SETS[0])
            m = Message('ADT_A01', version=v, validation_level=S.STRICT, encoding_chars=EC_SETS[1])
            m.msh.msh_7 = '20200101'
            pre.append((v, s, s.to_er7(EC_SETS[0]), S.dump_seg(s, EC_SETS[0]), s.version, s.validation_level,
                        m, m.to_er7(), dict(m.encoding_chars)))
        evaluations = 0
        for cfg in cfgs:
            apply_config(cfg)
            for (desc, f, _), b in zip(corpus, base):
                evaluations += 1
                r = outcome(f)
                if r != b:
                    run.fail('result-depends-on-defaults', 'a call with explicit arguments gives a different result under '
                             'different process-wide defaults', call=[str(x)[:200] for x in desc], config=list(cfg),
                             baseline=str(b)[:600], got=str(r)[:600], function=desc[0])
            for (v, s, enc, dmp, ver, lvl, m, menc, mec) in pre:
                evaluations += 1
                now = (s.to_er7(EC_SETS[0]), S.dump_seg(s, EC_SETS[0]), s.version, s.validation_level, m.to_er7(),
                       dict(m.encoding_chars))
                if now != (enc, dmp, ver, lvl, menc, mec):
                    run.fail('existing-element-changed', 'changing the defaults altered an element that already existed',
                             version=v, config=list(cfg), before=str((enc, ver, lvl, menc))[:500], after=str(now)[:500])
        run.log('oracle: %d calls x %d configurations, %d failures' % (len(corpus), len(cfgs), len(run.failures)))
        # correspondence: hl7apy under a hostile configuration vs the (configuration-free) model
        apply_config(('2.3', S.STRICT, 2))
        cases = []
        for desc, f, meta in corpus:
            if meta is None:
                continue
            c = S.case_of(meta['text'], meta['v'], meta['lvl'], meta['ec'])
            cases.append(c)
        msg_evaluated, msg_oracle, msg_texts = message_defaults_correspondence(run)
        evaluations += msg_oracle
    finally:
        hl7apy.set_default_version(saved[0])
        hl7apy.set_default_validation_level(saved[1])
        hl7apy.set_default_encoding_chars(saved[2])
    evaluated = S.run_model(run, cases, 'c17', per_file=600)
    run.log('model evaluated %d parse_segment calls observed under defaults (2.3, STRICT, #:;?=), %d disagreements'
            % (evaluated, len(run.disagreements)))
    samples = [{'call': [str(x)[:120] for x in d], 'baseline': str(b)[:200]} for (d, _, _), b in
               list(zip(corpus, base))[:: max(1, len(corpus) // 6)][:6]]
    run.finish({
        'evaluations': evaluations,
        'distinct_nontrivial': len({d for d, _, _ in corpus}),
        'rule': 'corpus of calls with explicit version/level/delimiters (parse_segment on generated lines of every '
                'version + validate, datatype_factory incl. 250-character invalid values, constructors/assignment/'
                'to_er7 with explicit delimiters, parse_field/parse_component, add_subcomponent, parse_message) run under '
                '%d configurations of (default version, default level, default delimiter set); distinct = distinct calls; '
                'elements created beforehand are re-observed under every configuration; message level: generated '
                'messages with / without / with unsupported MSH-12, own delimiter sets, truncation character, level '
                'given or omitted, both group modes, parsed under 3 hostile configurations and compared with '
                'Model/ConfigMsg.api_parse_message (outcome, version used, tree shape, to_er7 text)' % len(cfgs),
        'samples': samples,
        'traces_validated_against_impl': evaluated + msg_evaluated,
        'message_level_texts': msg_texts,
        'message_level_model_cases': msg_evaluated,
        'configurations': len(cfgs),
        'corpus_calls': len(corpus),
    }, assumptions=[
        'a parentless element encoded WITHOUT explicit delimiters reads the current default by design (not flagged)',
        'oracle corpus: message texts carry MSH-12, so the version is derived from the text; the message-level '
        'correspondence also runs texts without MSH-12 (the default version is then read, by design)',
    ])


if __name__ == '__main__':
    from common import run_guarded
    run_guarded('C17', main)
