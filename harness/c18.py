"""C18 - a message profile replaces the standard structure wherever it speaks.

Obligations: Properties/C18.v (parser path: structure and sub-references come from the given
reference; restating is a no-op).  Correspondence: segment references synthesised from every
version's standard segments by constraint edits (leaf datatype swaps at any depth, cardinality
changes) are given to hl7apy's parse_segment and, as inline srefs, to the Coq model; trees, encodings
and outcomes are compared inside Coq.  Oracle: datatypes/cardinalities of created children read
back from the profile, validate() judges against the profile, a restating profile changes nothing,
MessageProfileNotFound / LegacyMessageProfile, message-level profiles (synthesised one-edit
profiles and the shipped ITI-21 profile).
"""
import copy
import os
import pickle
import sys

sys.path.insert(0, os.path.dirname(__file__))
from common import Run, theorems_of, REPO
import segcorr as S
import hl7apy
from hl7apy.core import Message, Segment
from hl7apy.parser import parse_segment, parse_message
from hl7apy.exceptions import MessageProfileNotFound, LegacyMessageProfile, HL7apyException
import c01

BASE_SWAP = {'ST': 'NM', 'NM': 'ST', 'ID': 'ST', 'IS': 'ST', 'SI': 'ST', 'DT': 'ST', 'TX': 'ST', 'FT': 'ST',
             'DTM': 'ST', 'TM': 'ST'}


def thaw(ref):
    """deep copy of a reference as nested lists (editable)"""
    if isinstance(ref, (tuple, list)):
        return [thaw(x) for x in ref]
    return ref


def freeze(ref):
    if isinstance(ref, list):
        return tuple(freeze(x) for x in ref)
    return ref


def edit_reference(rng, ref, lib):
    """1-3 random constraint edits; returns (new reference, list of edits)"""
    r = thaw(ref)
    edits = []
    for _ in range(rng.randint(1, 3)):
        rows = r[1]
        if not rows:
            break
        i = rng.randrange(len(rows))
        row = rows[i]
        kind = rng.choice(['card', 'card', 'dt', 'dt_deep'])
        if kind == 'card':
            new = rng.choice([(1, 1), (0, 1), (0, 0), (1, -1), (0, 2)])
            row[2] = list(new)
            edits.append(('card', row[0], new))
        else:
            node = row[1]
            path = [row[0]]
            if kind == 'dt_deep':
                while node[0] == 'sequence' and node[1] and rng.random() < .8:
                    j = rng.randrange(len(node[1]))
                    path.append(node[1][j][0])
                    node = node[1][j][1]
            if node[0] == 'leaf' and node[2] in BASE_SWAP and BASE_SWAP[node[2]] in lib.get_base_datatypes():
                old = node[2]
                node[2] = BASE_SWAP[old]
                edits.append(('dt', tuple(path), old, node[2]))
    return freeze(r), edits


def walk_datatypes(seg, ref, ec):
    """(path, element datatype, profile datatype) for every parsed field/component present in both"""
    out = []
    by = {row[0]: row for row in ref[1]}
    for f in seg.children:
        row = by.get(f.name)
        if row is None:
            continue
        out.append(((f.name,), f.datatype, row[1][2], len(f.children)))
        if row[1][0] == 'sequence' and f.datatype == row[1][2]:
            cby = {c[0]: c for c in row[1][1]}
            for c in f.children:
                crow = cby.get(c.name)
                if crow is not None:
                    out.append(((f.name, c.name), c.datatype, crow[1][2], len(c.children)))
    return out


def main(argv=None):
    run = Run('C18', argv)
    ok = run.build(['Properties/C18.vo'], gen=('params', 'tables'), obligation_files=['Properties/C18.v'])
    if ok:
        run.print_assumptions('Properties.C18', [n for n, _ in theorems_of('Properties/C18.v')])
    rng = run.rng
    dist = {'segment_profiles': 0, 'edits_card': 0, 'edits_dt': 0, 'restating': 0, 'message_profiles': 0,
            'datatype_readbacks': 0}
    cases = []
    nseg = 14 if not run.thorough else 60
    distinct = set()
    for v in S.VERSIONS:
        lib = hl7apy.load_library(v)
        ec = S.default_ec(v)
        names = [s for s in sorted(lib.SEGMENTS) if S.ok_segment(lib, s) and s != 'MSH' and lib.SEGMENTS[s][1]]
        rng.shuffle(names)
        for sname in names[:nseg]:
            std = lib.SEGMENTS[sname]
            prof, edits = edit_reference(rng, std, lib)
            if not edits:
                continue
            dist['segment_profiles'] += 1
            for ed in edits:
                dist['edits_card' if ed[0] == 'card' else 'edits_dt'] += 1
            distinct.add((v, sname, tuple(map(str, edits))))
            ref_term = '(%s)%%Z' % S.sref_term(lib, prof)
            for k in range(3):
                text = S.gen_segment_line(rng, lib, ec, sname, messy=(k == 2))
                for lvl in (S.TOLERANT, S.STRICT):
                    c = S.case_of(text, v, lvl, ec, reference=prof, ref_term=ref_term, edits=edits)
                    cases.append(c)
                    seg = c['obj']
                    if seg is None:
                        continue
                    # (a) datatypes of created children come from the profile
                    for path, got, want, nkids in walk_datatypes(seg, prof, ec):
                        dist['datatype_readbacks'] += 1
                        base = want in lib.get_base_datatypes()
                        # TOLERANT resets a base datatype to None when the text has several components
                        if got != want and not (lvl == S.TOLERANT and got is None and base and nkids > 1):
                            run.fail('child-datatype-not-from-profile', 'a child created by the parser does not take its '
                                     'datatype from the profile', version=v, segment=sname, path=list(path), got=got,
                                     profile=want, text=text, level=lvl, edits=[str(e) for e in edits])
                    # (b) validate() judges against the profile
                    try:
                        rep = seg.validate(return_errors=True)
                        errs = [str(e) for e in rep.errors]
                    except Exception as ex:  # noqa
                        run.fail('validate-raises', 'validate(return_errors=True) raised on a profiled segment',
                                 version=v, segment=sname, text=text, exc=repr(ex))
                        continue
                    present = {}
                    for f in seg.children:
                        present[f.name] = present.get(f.name, 0) + 1
                    for row in prof[1]:
                        nm, (mn, mx) = row[0], row[2]
                        n = present.get(nm, 0)
                        if n < mn and not any('Missing required child' in e and nm in e for e in errs):
                            run.fail('profile-required-not-enforced', 'validate() does not report a child the profile '
                                     'requires', version=v, segment=sname, child=nm, text=text, errors=errs[:5],
                                     edits=[str(e) for e in edits])
                        if mx != -1 and n > mx and not any('Child limit exceeded' in e and nm in e for e in errs):
                            run.fail('profile-limit-not-enforced', 'validate() does not report a child exceeding the '
                                     'profile\'s maximum', version=v, segment=sname, child=nm, text=text, errors=errs[:5],
                                     edits=[str(e) for e in edits])
            # (c) restating the standard reference changes nothing
            text = S.gen_segment_line(rng, lib, ec, sname, messy=True)
            for lvl in (S.TOLERANT, S.STRICT):
                dist['restating'] += 1
                a = S.impl_obs(text, v, lvl, ec)[:3]
                b = S.impl_obs(text, v, lvl, ec, reference=std)[:3]
                if a != b:
                    run.fail('restating-profile-changes-result', 'a profile that restates the standard structure changes '
                             'the result', version=v, segment=sname, text=text, level=lvl, without=str(a)[:400],
                             with_profile=str(b)[:400])
    run.log('segment profiles: %s, %d failures' % (dist, len(run.failures)))
    # ---- message level
    nmsg = 5 if not run.thorough else 40
    for v in S.VERSIONS:
        lib = hl7apy.load_library(v)
        ec = S.default_ec(v)
        mnames = [m for m in sorted(lib.MESSAGES) if isinstance(lib.MESSAGES[m], tuple) and len(lib.MESSAGES[m]) == 2
                  and lib.MESSAGES[m][1] and '_' in m and not m.endswith('nn')]
        rng.shuffle(mnames)
        for m in mnames[:nmsg]:
            std = lib.MESSAGES[m]
            try:
                names = c01.instance_names(std, 'req')
            except Exception:  # noqa
                continue
            if not names or names[0] != 'MSH' or 'ANYHL7SEGMENT' in names:
                continue
            top_segs = [row for row in std[1] if row[3] == 'SEG' and row[0] != 'MSH' and S.ok_segment(lib, row[0])
                        and lib.SEGMENTS[row[0]][1]]
            if not top_segs:
                continue
            target = rng.choice(top_segs)
            r = thaw(std)
            for row in r[1]:
                if row[0] == target[0]:
                    row[2] = [1, 1] if target[2][0] == 0 else [0, 0]
                    newcard = tuple(row[2])
            prof = {m: freeze(r)}
            dist['message_profiles'] += 1
            lines = [c01.msh_line(m, v)]
            good = True
            for sname in names[1:]:
                if not S.ok_segment(lib, sname) or not lib.SEGMENTS[sname][1]:
                    good = False
                    break
                lines.append(c01.canonical_line(rng, lib, ec, sname))
            if not good:
                continue
            text = '\r'.join(lines)
            present = names.count(target[0])
            try:
                msg = parse_message(text, validation_level=S.TOLERANT, message_profile=prof)
                rep = msg.validate(return_errors=True)
                errs = [str(e) for e in rep.errors]
                # the message keeps the profile as its reference
                if msg.reference != prof[m]:
                    run.fail('message-reference-not-profile', 'parse_message(..., message_profile=p) does not keep '
                             'p[structure] as the message reference', version=v, structure=m)
                if newcard == (1, 1) and present == 0 and not any('Missing required child' in e and target[0] in e
                                                                     for e in errs):
                    run.fail('profile-required-not-enforced', 'validate() does not report a segment the profile requires',
                             version=v, structure=m, child=target[0], text=text, errors=errs[:5], segment=None, edits=None)
                if newcard == (0, 0) and present > 0 and not any('Child limit exceeded' in e and target[0] in e
                                                                    for e in errs):
                    run.fail('profile-limit-not-enforced', 'validate() does not report a segment the profile forbids',
                             version=v, structure=m, child=target[0], text=text, errors=errs[:5], segment=None, edits=None)
                # same message against the standard structure: the edited constraint must NOT be applied
                rep0 = parse_message(text, validation_level=S.TOLERANT).validate(return_errors=True)
                # a restating profile changes nothing
                m1 = parse_message(text, validation_level=S.TOLERANT, message_profile={m: std})
                if m1.to_er7() != parse_message(text, validation_level=S.TOLERANT).to_er7() or \
                        sorted(map(str, m1.validate(return_errors=True).errors)) != sorted(map(str, rep0.errors)):
                    run.fail('restating-profile-changes-result', 'a message profile that restates the standard structure '
                             'changes the result', version=v, structure=m, text=text, segment=None, level=2,
                             without='', with_profile='')
            except HL7apyException as ex:
                run.fail('profiled-parse-raises', 'parsing a conforming message with a one-edit profile raised',
                         version=v, structure=m, text=text, exc=repr(ex))
            # profile lacking the structure
            for call in ('parse', 'ctor'):
                try:
                    if call == 'parse':
                        parse_message(text, message_profile={'OTHER_X01': std})
                    else:
                        Message(m, version=v, reference={'OTHER_X01': std})
                    run.fail('missing-profile-not-reported', 'a profile lacking the message structure does not raise '
                             'MessageProfileNotFound', version=v, structure=m, call=call)
                except MessageProfileNotFound:
                    pass
                except Exception as ex:  # noqa
                    run.fail('missing-profile-not-reported', 'a profile lacking the message structure raises something '
                             'else than MessageProfileNotFound', version=v, structure=m, call=call, exc=repr(ex))
    # ---- profiles that differ INSIDE (repeating) groups; every creation path must thread the profile
    def same_ref(a, b):
        if isinstance(a, (tuple, list)) and isinstance(b, (tuple, list)):
            return len(a) == len(b) and all(same_ref(x, y) for x, y in zip(a, b))
        return a == b

    def check_threading(el, v, m, route):
        """every child that its parent's reference declares carries exactly that sub-reference"""
        ref = getattr(el, 'reference', None)
        if ref is None or ref[0] not in ('sequence', 'choice'):
            return
        rows = {}
        for row in ref[1]:
            rows.setdefault(row[0], row)
        for ch in el.children:
            row = rows.get(ch.name)
            if row is None or ch.classname not in ('Group', 'Segment', 'Field', 'Component', 'SubComponent'):
                continue
            dist['threading_checks'] = dist.get('threading_checks', 0) + 1
            chref = getattr(ch, 'reference', None)
            if ch.classname == 'SubComponent':
                # a leaf: what it takes from the profile is its datatype (length and table are read from the parent's row)
                if ch.datatype != row[1][2]:
                    run.fail('child-datatype-not-from-profile', 'a subcomponent does not take the datatype its parent\'s '
                             '(profile) reference declares for it', version=v, structure=m, parent=el.name, child=ch.name,
                             got=ch.datatype, profile=row[1][2], route=route, segment=None, path=None, text=None, level=None,
                             edits=None)
                continue
            if chref is None or not same_ref(chref, row[1]):
                run.fail('child-reference-not-from-profile', 'a child does not carry the sub-reference its parent\'s '
                         '(profile) reference declares for it', version=v, structure=m, parent=el.name, child=ch.name,
                         cls=ch.classname, route=route)
                continue
            if ch.classname in ('Group', 'Segment', 'Field', 'Component'):
                check_threading(ch, v, m, route)

    def deep_edit(ref):
        """change a field inside a nested group (datatype swap or cardinality) - returns (profile, path) or None"""
        r = thaw(ref)
        groups = [row for row in r[1] if row[3] == 'GRP' and (row[2][1] == -1 or row[2][1] > 1)]
        if not groups:
            return None
        g = rng.choice(groups)
        path = [g[0]]
        node = g[1]
        while True:
            sub = [row for row in node[1] if row[3] == 'GRP']
            segs = [row for row in node[1] if row[3] == 'SEG' and row[1] is not None and row[1][1]]
            if segs and (not sub or rng.random() < .6):
                srow = rng.choice(segs)
                path.append(srow[0])
                frow = rng.choice(srow[1][1])
                path.append(frow[0])
                frow[2] = [1, 1] if frow[2][0] == 0 else [0, 1]
                if frow[1][0] == 'leaf' and frow[1][2] in BASE_SWAP:
                    frow[1][2] = BASE_SWAP[frow[1][2]]
                return freeze(r), path
            if not sub:
                return None
            gg = rng.choice(sub)
            path.append(gg[0])
            node = gg[1]

    def instance_rep2(ref):
        out = []
        for row in ref[1]:
            name, cref, (mn, mx), kind = row
            n = 2 if (kind == 'GRP' and (mx == -1 or mx > 1)) else (1 if mn >= 1 or kind == 'GRP' else 0)
            for _ in range(n):
                if kind == 'SEG':
                    out.append(name)
                elif cref is not None:
                    out.extend(c01.instance_names(cref, 'req') or c01.instance_names(cref, 'all')[:1])
        return out

    ngrp = 4 if not run.thorough else 30
    for v in S.VERSIONS:
        lib = hl7apy.load_library(v)
        ec = S.default_ec(v)
        mnames = [m for m in sorted(lib.MESSAGES) if isinstance(lib.MESSAGES[m], tuple) and len(lib.MESSAGES[m]) == 2
                  and lib.MESSAGES[m][1] and '_' in m and not m.endswith('nn')
                  and any(row[3] == 'GRP' for row in lib.MESSAGES[m][1])]
        rng.shuffle(mnames)
        done = 0
        for m in mnames:
            if done >= ngrp:
                break
            std = lib.MESSAGES[m]
            try:
                ed = deep_edit(std)
                names = instance_rep2(std)
            except Exception:  # noqa
                continue
            if ed is None or not names or names[0] != 'MSH' or 'ANYHL7SEGMENT' in names or len(names) > 40:
                continue
            if any(not S.ok_segment(lib, n) or not lib.SEGMENTS[n][1] for n in names[1:]):
                continue
            prof = {m: ed[0]}
            done += 1
            dist['group_profiles'] = dist.get('group_profiles', 0) + 1
            text = '\r'.join([c01.msh_line(m, v)] + [c01.canonical_line(rng, lib, ec, n) for n in names[1:]])
            try:
                msg = parse_message(text, validation_level=S.TOLERANT, message_profile=prof)
                check_threading(msg, v, m, 'parse_message')
                rep_a = sorted(str(e) for e in msg.validate(return_errors=True).errors)
                # the same through the constructor + value assignment
                m2 = Message(m, version=v, reference=prof, validation_level=S.TOLERANT)
                m2.value = text
                if not same_ref(getattr(m2, 'reference', None), prof[m]):
                    run.fail('message-reference-not-profile', 'after Message(name, reference=p); m.value = text the message '
                             'no longer carries p[name]', version=v, structure=m)
                else:
                    check_threading(m2, v, m, 'Message.value')
                    rep_b = sorted(str(e) for e in m2.validate(return_errors=True).errors)
                    if rep_a != rep_b:
                        run.fail('profile-verdict-differs-by-path', 'validate() gives different reports for the same text '
                                 'and profile depending on the creation path (parse_message vs Message.value)',
                                 version=v, structure=m, parse_message=rep_a[:4], message_value=rep_b[:4])
                # children created through the helpers take the profile's sub-reference
                m3 = Message(m, version=v, reference=prof, validation_level=S.TOLERANT)
                for row in prof[m][1]:
                    if row[0] == 'MSH':
                        continue
                    try:
                        ch = m3.add_group(row[0]) if row[3] == 'GRP' else m3.add_segment(row[0])
                    except HL7apyException:
                        continue
                    if not same_ref(getattr(ch, 'reference', None), row[1]):
                        run.fail('child-reference-not-from-profile', 'a child created by add_group/add_segment does not '
                                 'carry the profile\'s sub-reference', version=v, structure=m, parent=m, child=row[0],
                                 cls=ch.classname, route='add_helper')
                check_threading(m3, v, m, 'add_helper')
                # children copied from a message built WITHOUT the profile (message.pid = other.pid): the copy is rebuilt
                # under the target's profile
                src = parse_message(text, validation_level=S.TOLERANT)
                m4 = Message(m, version=v, reference=prof, validation_level=S.TOLERANT)
                for row in prof[m][1]:
                    if row[0] == 'MSH':
                        continue
                    px = getattr(src, row[0].lower())
                    if len(px) == 0:
                        continue
                    try:
                        setattr(m4, row[0].lower(), px)
                    except HL7apyException:
                        continue
                    dist['proxy_copies'] = dist.get('proxy_copies', 0) + 1
                check_threading(m4, v, m, 'proxy-assignment')
            except HL7apyException as ex:
                run.note('group profile %s %s skipped: %r' % (v, m, ex))
            except Exception as ex:  # noqa
                run.fail('profiled-parse-crashes', 'parsing / building a conforming message under a profile that differs '
                         'inside a repeating group raised a non-library exception', version=v, structure=m,
                         path=ed[1], text=text, exc=repr(ex))
    # ---- a profile that constrains ONE of two same-named components (the same datatype at two positions of a segment)
    def twin_fields(seg_ref):
        """(field row a, field row b, component name): two fields of one complex datatype that has a complex component"""
        by_dt = {}
        for frow in seg_ref[1]:
            fr = frow[1]
            if fr[0] == 'sequence' and any(c[1][0] == 'sequence' and len(c[1][1]) >= 2 for c in fr[1]):
                by_dt.setdefault(fr[2], []).append(frow)
        pairs = [(rows[0], rows[1]) for rows in by_dt.values() if len(rows) >= 2]
        if not pairs:
            return None
        a, b = rng.choice(pairs)
        comp = rng.choice([c for c in a[1][1] if c[1][0] == 'sequence' and len(c[1][1]) >= 2])
        return a, b, comp[0]

    def fill(fref, ec, only=None):
        """every complex component with all its subcomponents; only=<name>: that component alone, first subcomponent alone"""
        parts = []
        for j, c in enumerate(fref[1]):
            if only is not None:
                parts.append('s0' if c[0] == only else '')
            elif c[1][0] == 'sequence':
                parts.append(ec['SUBCOMPONENT'].join('s%d' % k for k in range(len(c[1][1]))))
            else:
                parts.append('')
        return ec['COMPONENT'].join(parts).rstrip(ec['COMPONENT'])

    for v in S.VERSIONS:
        lib = hl7apy.load_library(v)
        ec = S.default_ec(v)
        m = 'ADT_A01'
        std = lib.MESSAGES[m]
        done = 0
        for srow in std[1]:
            if srow[3] != 'SEG' or srow[0] == 'MSH' or srow[1] is None or done >= (2 if not run.thorough else 50):
                continue
            tw = twin_fields(srow[1])
            if tw is None:
                continue
            a, b, cname = tw
            r = thaw(std)
            tsrow = [x for x in r[1] if x[0] == srow[0]][0]
            # the edit sits inside the component of the SECOND of the two fields: its subcomponents become required and,
            # where possible, change datatype; the first field (built first by the parser) keeps the standard ones
            tfb = [x for x in tsrow[1][1] if x[0] == b[0]][0]
            tc = [x for x in tfb[1][1] if x[0] == cname][0]
            for sr in tc[1][1]:
                sr[2] = [1, 1]
                if sr[1][0] == 'leaf' and sr[1][2] in BASE_SWAP and BASE_SWAP[sr[1][2]] in lib.get_base_datatypes():
                    sr[1][2] = BASE_SWAP[sr[1][2]]
            prof = {m: freeze(r)}
            done += 1
            dist['twin_component_profiles'] = dist.get('twin_component_profiles', 0) + 1
            ia, ib = int(a[0].split('_')[1]), int(b[0].split('_')[1])
            flds = [''] * max(ia, ib)
            flds[ia - 1] = fill(a[1], ec)
            flds[ib - 1] = fill(b[1], ec)
            others = [n for n in c01.instance_names(std, 'req') if n != 'MSH']
            lines = [c01.msh_line(m, v)]
            for n in others:
                lines.append(n + '|' + '|'.join(flds) if n == srow[0] else c01.canonical_line(rng, lib, ec, n))
            if srow[0] not in others:
                lines.append(srow[0] + '|' + '|'.join(flds))
            text = '\r'.join(lines)
            where = dict(version=v, structure=m, segment=srow[0], fields=[a[0], b[0]], component=cname)
            try:
                # the standard structure of the component has been built in this process before (first field, earlier runs)
                msg = parse_message(text, validation_level=S.TOLERANT, message_profile=prof)
                check_threading(msg, v, m, 'parse_message/twin-components')
                # traversal and the add_* helpers, the constrained position first
                m2 = Message(m, version=v, reference=prof, validation_level=S.TOLERANT)
                seg2 = m2.add_segment(srow[0])
                for frow in (b, a):
                    comp = getattr(getattr(seg2, frow[0].lower()), cname.lower())
                    subname = [x for x in frow[1][1] if x[0] == cname][0][1][1][1][0]
                    setattr(comp, subname.lower(), 'x')
                check_threading(m2, v, m, 'traversal/twin-components')
                m3 = Message(m, version=v, reference=prof, validation_level=S.TOLERANT)
                seg3 = m3.add_segment(srow[0])
                for frow in (a, b):
                    fld = seg3.add_field(frow[0])
                    comp = fld.add_component(cname)
                    subname = [x for x in frow[1][1] if x[0] == cname][0][1][1][0][0]
                    comp.add_subcomponent(subname).value = 'x'
                check_threading(m3, v, m, 'add_helper/twin-components')
                # validate() judges each position by the profile: leave the component of each field with its first
                # subcomponent only - the profile requires the others in the second field alone
                flds2 = list(flds)
                flds2[ia - 1] = fill(a[1], ec, only=cname)
                flds2[ib - 1] = fill(b[1], ec, only=cname)
                text2 = text.replace(srow[0] + '|' + '|'.join(flds), srow[0] + '|' + '|'.join(flds2))
                msg2 = parse_message(text2, validation_level=S.TOLERANT, message_profile=prof)
                errs = [str(e) for e in msg2.validate(return_errors=True).errors]
                want = 'Missing required child %s.' % cname
                n_missing = len([e for e in errs if e.startswith(want)])
                n_req = len(tc[1][1]) - 1
                if n_missing != n_req:
                    run.fail('profile-required-not-enforced', 'validate() does not report exactly the subcomponents the profile '
                             'requires at the one constrained position (the same component elsewhere is unconstrained)',
                             expected_missing=n_req, reported=[e for e in errs if cname in e][:6], text=text2, **where)
            except HL7apyException as ex:
                run.note('twin-component profile %s %s skipped: %r' % (v, srow[0], ex))
            except Exception as ex:  # noqa
                run.fail('profiled-parse-crashes', 'parsing / building under a profile that constrains one of two same-named '
                         'components raised a non-library exception', exc=repr(ex), text=text, **where)
    # shipped profiles
    base = os.path.join(REPO, 'tests', 'profiles')
    try:
        iti = hl7apy.load_message_profile(os.path.join(base, 'iti_21'))
        text = ('MSH|^~\\&|SENDING APP|SENDING FAC|REC APP|REC FAC|20110708162817||RSP^K22^RSP_K21|1|P|2.5|||||ITA||EN\r'
                'MSA|AA|26775702551812240|\rQAK|1|OK||1|1|0\r'
                'QPD|IHE PDQ Query|111069|@PID.3.1^1010110909194822~@PID.5.1.1^SMITH||||\r'
                'PID|1||10101109091948^^^GATEWAY&1.3.6.1.4.1.21367.2011.2.5.17&ISO||JOHN^SMITH^^^^^A||19690113|M\r')
        for lvl in (S.TOLERANT, S.STRICT):
            msg = parse_message(text, message_profile=iti, validation_level=lvl)
            if msg.qpd.qpd_3.datatype != 'QIP' or msg.qpd.allow_infinite_children:
                run.fail('child-datatype-not-from-profile', 'ITI-21 profile: QPD-3 does not take the profile datatype QIP',
                         version='2.5', segment='QPD', path=['QPD_3'], got=msg.qpd.qpd_3.datatype, profile='QIP',
                         text=text, level=lvl, edits=None)
        for lvl in (S.TOLERANT, S.STRICT):
            src = parse_message(text, validation_level=S.TOLERANT)             # no profile: QPD-3 is varies
            tgt = Message('RSP_K21', version='2.5', reference=iti, validation_level=lvl)
            try:
                tgt.qpd = src.qpd
                got = tgt.qpd.qpd_3.datatype
                if got != 'QIP' or tgt.qpd.allow_infinite_children:
                    run.fail('child-datatype-not-from-profile', 'ITI-21 profile: a QPD copied from a message without the profile '
                             '(target.qpd = source.qpd) does not take the profile datatype QIP for QPD-3', version='2.5',
                             segment='QPD', path=['QPD_3'], got=got, profile='QIP', text=text, level=lvl, edits=None)
                # (the MSH-1/MSH-2... fields pre-populated by the Message constructor are not in the property's scope)
                qrow = [row for row in tgt.reference[1] if row[0] == 'QPD'][0]
                if not same_ref(tgt.qpd[0].reference, qrow[1]):
                    run.fail('child-reference-not-from-profile', 'a child does not carry the sub-reference its parent\'s '
                             '(profile) reference declares for it', version='2.5', structure='RSP_K21', parent='RSP_K21',
                             child='QPD', cls='Segment', route='proxy-assignment/iti-21')
                check_threading(tgt.qpd[0], '2.5', 'RSP_K21', 'proxy-assignment/iti-21')
            except HL7apyException as ex:
                run.note('ITI-21 proxy copy refused: %r' % (ex,))
        legacy = hl7apy.load_message_profile(os.path.join(base, 'old_pharm_h4' + ('_win' if os.name == 'nt' else '')))
        try:
            Message('RAS_O17', reference=legacy)
            run.fail('legacy-profile-not-reported', 'a legacy-format profile does not raise LegacyMessageProfile')
        except LegacyMessageProfile:
            pass
    except (OSError, pickle.UnpicklingError) as ex:
        run.note('shipped profiles not readable: %r' % (ex,))
    run.log('message level done: %d failures' % len(run.failures))
    evaluated = S.run_model(run, cases, 'c18', per_file=500)
    run.log('model evaluated %d profiled parses, %d disagreements' % (evaluated, len(run.disagreements)))
    samples = [{'version': c['v'], 'text': c['text'][:120], 'edits': [str(e) for e in c.get('edits', [])],
                'code': c['code']} for c in cases[:: max(1, len(cases) // 5)][:5]]
    run.finish({
        'evaluations': len(cases) + dist['restating'] + dist['message_profiles'] * 4,
        'distinct_nontrivial': len(distinct),
        'rule': 'segment profiles = standard segment references of every version with 1-3 random edits (cardinality '
                'changes; base-datatype swaps at field, component or subcomponent depth), given to parse_segment in both '
                'levels on generated lines and to the Coq model as inline srefs; message profiles = one-edit (required / '
                'forbidden segment) copies of standard structures + the shipped ITI-21 and legacy profiles; distinct = '
                'distinct (version, segment, edit list)',
        'samples': samples,
        'traces_validated_against_impl': evaluated,
        'input_distribution': dist,
    }, assumptions=['profiles are Python references of the standard shape; creation through traversal/add_* helpers is '
                    'exercised by the heap checks'])


if __name__ == '__main__':
    from common import run_guarded
    run_guarded('C18', main)
