"""C18 - a message profile replaces the standard structure wherever it speaks.

Obligations: Properties/C18.v (parser path: structure and sub-references come from the given
reference; restating is a no-op).  Correspondence: segment references synthesised from every
version's standard segments by constraint edits (leaf datatype swaps at any depth, cardinality
changes) are given to hl7apy's parse_segment and, as inline srefs, to the Coq model; trees, encodings
and outcomes are compared inside Coq.  Oracle: datatypes/cardinalities of created children read
back from the profile, validate() judges against the profile, a restating profile changes nothing,
MessageProfileNotFound / LegacyMessageProfile, message-level profiles (synthesised one-edit
profiles and the shipped ITI-21 profile).  Message-level correspondence (section MESSAGE-LEVEL
CORRESPONDENCE below): parse_message with a message profile against coq/Model/MessageProf.v.
"""
import copy
import os
import pickle
import sys

sys.path.insert(0, os.path.dirname(__file__))
from common import Run, theorems_of, REPO
import segcorr as S
import hl7apy
from hl7apy.core import Message, Segment
from hl7apy.parser import parse_segment, parse_message
from hl7apy.exceptions import MessageProfileNotFound, LegacyMessageProfile, HL7apyException
import c01

BASE_SWAP = {'ST': 'NM', 'NM': 'ST', 'ID': 'ST', 'IS': 'ST', 'SI': 'ST', 'DT': 'ST', 'TX': 'ST', 'FT': 'ST',
             'DTM': 'ST', 'TM': 'ST'}


def thaw(ref):
    """deep copy of a reference as nested lists (editable)"""
    if isinstance(ref, (tuple, list)):
        return [thaw(x) for x in ref]
    return ref


def freeze(ref):
    if isinstance(ref, list):
        return tuple(freeze(x) for x in ref)
    return ref


def edit_reference(rng, ref, lib):
    """1-3 random constraint edits; returns (new reference, list of edits)"""
    r = thaw(ref)
    edits = []
    for _ in range(rng.randint(1, 3)):
        rows = r[1]
        if not rows:
            break
        i = rng.randrange(len(rows))
        row = rows[i]
        kind = rng.choice(['card', 'card', 'dt', 'dt_deep'])
        if kind == 'card':
            new = rng.choice([(1, 1), (0, 1), (0, 0), (1, -1), (0, 2)])
            row[2] = list(new)
            edits.append(('card', row[0], new))
        else:
            node = row[1]
            path = [row[0]]
            if kind == 'dt_deep':
                while node[0] == 'sequence' and node[1] and rng.random() < .8:
                    j = rng.randrange(len(node[1]))
                    path.append(node[1][j][0])
                    node = node[1][j][1]
            if node[0] == 'leaf' and node[2] in BASE_SWAP and BASE_SWAP[node[2]] in lib.get_base_datatypes():
                old = node[2]
                node[2] = BASE_SWAP[old]
                edits.append(('dt', tuple(path), old, node[2]))
    return freeze(r), edits


def walk_datatypes(seg, ref, ec):
    """(path, element datatype, profile datatype) for every parsed field/component present in both"""
    out = []
    by = {row[0]: row for row in ref[1]}
    for f in seg.children:
        row = by.get(f.name)
        if row is None:
            continue
        out.append(((f.name,), f.datatype, row[1][2], len(f.children)))
        if row[1][0] == 'sequence' and f.datatype == row[1][2]:
            cby = {c[0]: c for c in row[1][1]}
            for c in f.children:
                crow = cby.get(c.name)
                if crow is not None:
                    out.append(((f.name, c.name), c.datatype, crow[1][2], len(c.children)))
    return out


# ==========================================================================================================
# MESSAGE-LEVEL CORRESPONDENCE (coq/Model/MessageProf.v): parse_message(text, validation_level, find_groups,
# message_profile) on the implementation vs parse_message_prof_gen on the same (text, profile, level,
# find_groups) inside coqc.  Compared: outcome code, full dump of the message tree (every segment in the
# format of Model/Dump.v, so the datatypes a profile changes are visible), to_er7(), and the sorted error
# keys of validate().  Profiles: None, {}, restating, lacking the structure, required/forbidden top-level
# segment, retyped field of a top-level segment, edit inside (nested) groups, differently-cased key, the
# shipped legacy profile's tuple; plus the outcome of Message(name, reference=profile) for each profile and
# name spelling, and two oracle probes (empty profile -> MessageProfileNotFound; lower-case name given to the
# constructor).  Disagreements: run.disagree('message-profile', ...).
# ==========================================================================================================

MP_PRELUDE = '''From Coq Require Import List NArith ZArith Init.Byte.
From HL7 Require Import Lib.Str Model.Ec Model.Result Model.Ref Model.Tree Model.MsgTree Model.Groups Model.Message Model.MessageProf Model.LeafFull Model.Validate Proofs.ProfileMsg Gen.Params.
From HL7 Require Gen.%(mod)s.
Import ListNotations. Open Scope bs_scope.
(* the generated tables with the entries these cases need copied to the front: every lookup is unchanged
   (Proofs/ValidateFacts.v: slookup_front / front_tables_lookups).  The tables are a lambda-bound argument
   of everything below so that the copy is made once per file (call by value). *)
Definition tables_of_file : tables := front_tables %(segs)s %(dts)s Gen.%(mod)s.tables.
Fixpoint strs_eqb (a b : list str) : bool :=
  match a, b with [], [] => true | x :: a', y :: b' => streqb x y && strs_eqb a' b' | _, _ => false end.
(* level, find_groups, profile, text; expected: parse code, dump, to_er7 code, encoding, validate code, error keys *)
Definition case := (nat * bool * option profile * str * nat * str * nat * str * nat * list str)%%type.
Definition run1 (t : tables) (c : case) : bool :=
  match c with (l, fg, prof, text, code, d, ecode, enc, vcode, keys) =>
    let lvl := match l with 1%%nat => STRICT | _ => TOLERANT end in
    let lib := fun v : str => if streqb v (t_version t) then Some t else None in
    match parse_message_prof_gen lib (t_version t) lvl leaf_enc_full fg prof text with
    | Err x => Nat.eqb (exn_code x) code
    | Ok (t', m) =>
        Nat.eqb code 0 && streqb (dump_message_full m) d &&
        match enc_message t' lvl m with
        | Ok s => Nat.eqb ecode 0 && streqb s enc &&
                  match message_ec (t_version t') m with
                  | Ok e => match validate_message_log t' lvl e m with
                            | Ok log => Nat.eqb vcode 0 && strs_eqb (log_keys log) keys
                            | Err x => Nat.eqb (exn_code x) vcode
                            end
                  | Err _ => true
                  end
        | Err x => Nat.eqb (exn_code x) ecode
        end
    end end.
Fixpoint failing (t : tables) (n : nat) (l : list case) : list nat :=
  match l with [] => [] | c :: r => (if run1 t c then [] else [n]) ++ failing t (S n) r end.
(* Message(name, reference=profile, version, validation_level): level, name, profile; expected outcome code *)
Definition ccase := (nat * option str * option profile * nat)%%type.
Definition crun1 (t : tables) (c : ccase) : bool :=
  match c with (l, name, prof, code) =>
    let lvl := match l with 1%%nat => STRICT | _ => TOLERANT end in
    Nat.eqb (outcome_code (new_message_profiled lvl t default_ec name prof)) code end.
Fixpoint cfailing (t : tables) (n : nat) (l : list ccase) : list nat :=
  match l with [] => [] | c :: r => (if crun1 t c then [] else [n]) ++ cfailing t (S n) r end.
(* the hypothesis of C18_grouped_nodes_take_profile_subreference on the profiles of this file: indices of the profiles
   with an entry whose groups are NOT named consistently (informative: counted, not a disagreement) *)
Definition pok (t : tables) (p : option profile) : bool :=
  match p with
  | Some l => forallb (fun x => match snd x with PRef r => profile_groups_ok t 14 r | PLegacy => true end) l
  | None => true
  end.
Fixpoint pfailing (t : tables) (n : nat) (l : list (option profile)) : list nat :=
  match l with [] => [] | p :: r => (if pok t p then [] else [n]) ++ pfailing t (S n) r end.
'''


def mp_dump(m):
    """harness twin of Model/MessageProf.v dump_message_full"""
    from hl7apy.core import Group
    ec = m.encoding_chars

    def d(c):
        if isinstance(c, Group):
            return '(%s%s)' % (c.name or '-', ''.join(' ' + d(y) for y in c.children))
        return S.dump_seg(c, ec)
    return (m.name or '-') + ':' + ' '.join(d(c) for c in m.children)


def mp_observe(text, lvl, fg, prof):
    import c04
    o = {'code': 0, 'dump': '', 'ecode': 0, 'enc': '', 'vcode': 0, 'keys': []}
    try:
        m = parse_message(text, validation_level=lvl, find_groups=fg, message_profile=prof)
        o['dump'] = mp_dump(m)
    except Exception as ex:  # noqa
        o['code'] = S.outcome_code(ex)
        o['dump'] = ''
        return o
    try:
        o['enc'] = m.to_er7()
    except Exception as ex:  # noqa
        o['ecode'] = S.outcome_code(ex)
        return o
    try:
        rep = m.validate(return_errors=True)
        o['keys'] = sorted(c04.norm(str(x)) for x in rep.errors)
    except Exception as ex:  # noqa
        o['vcode'] = S.outcome_code(ex)
    return o


def mp_profile_term(lib, prof, legacy_keys=()):
    """Coq term of type `option profile` (None when some part of the profile is not translatable)"""
    import re
    import gen_tables
    if prof is None:
        return 'None'
    # the translator memoises its structural-equality test by id(): profiles are short-lived objects whose ids are
    # re-used, so the memo must not outlive them (a stale hit writes an edited row by name, i.e. as the standard one)
    gen_tables._EQ.clear()
    rows = []
    for k, r in prof.items():
        if k in legacy_keys:
            rows.append('(%s, PLegacy)' % S.coq_str(k))
            continue
        ser = gen_tables.Ser(lib)
        t = ser.ref(r)
        if ser.bad:
            return None
        rows.append('(%s, PRef (%s)%%Z)' % (S.coq_str(k), re.sub(r's"([^"]*)"', r'(unbs "\1")', t)))
    return '(Some [%s])' % '; '.join(rows)


def mp_instance(ref, mode):
    """segment names of an instance: required children once ('req') or with every repeatable group twice ('rep2')"""
    out = []
    for row in ref[1]:
        name, cref, (mn, mx), kind = row
        if mode == 'rep2':
            n = 2 if (kind == 'GRP' and (mx == -1 or mx > 1)) else (1 if mn >= 1 or kind == 'GRP' else 0)
        else:
            n = 1 if mn >= 1 else 0
        for _ in range(n):
            if kind == 'SEG':
                out.append(name)
            elif cref is not None:
                out.extend(c01.instance_names(cref, 'req') or c01.instance_names(cref, 'all')[:1])
    return out


def mp_edit_deep(rng, ref, lib):
    """one field edit (cardinality and, for a swappable leaf, datatype) inside a (nested) group"""
    r = thaw(ref)
    groups = [row for row in r[1] if row[3] == 'GRP' and row[1] is not None]
    if not groups:
        return None
    node = rng.choice(groups)[1]
    while True:
        sub = [row for row in node[1] if row[3] == 'GRP' and row[1] is not None]
        segs = [row for row in node[1] if row[3] == 'SEG' and row[1] is not None and row[1][1] and row[0] != 'MSH']
        if segs and (not sub or rng.random() < .6):
            srow = rng.choice(segs)
            frows = [f for f in srow[1][1][:4] if f[1] is not None]
            if not frows:
                return None
            frow = rng.choice(frows)
            frow[2] = [1, 1] if frow[2][0] == 0 else [0, 1]
            if frow[1][0] == 'leaf' and BASE_SWAP.get(frow[1][2]) in lib.get_base_datatypes():
                frow[1][2] = BASE_SWAP[frow[1][2]]
            return freeze(r)
        if not sub:
            return None
        node = rng.choice(sub)[1]


def mp_edit_top(rng, ref, lib, what):
    """'card': a top-level segment becomes required / forbidden; 'field': one of its first fields is retyped / required"""
    r = thaw(ref)
    rows = [row for row in r[1] if row[3] == 'SEG' and row[0] != 'MSH' and row[1] is not None and row[1][1]]
    if not rows:
        return None
    row = rng.choice(rows)
    if what == 'card':
        row[2] = [1, 1] if row[2][0] == 0 else [0, 0]
    else:
        cands = [f for f in row[1][1][:5] if f[1] is not None and f[1][0] == 'leaf' and BASE_SWAP.get(f[1][2]) in lib.get_base_datatypes()]
        cands = cands or [f for f in row[1][1][:3] if f[1] is not None]
        if not cands:
            return None
        frow = rng.choice(cands)
        if frow[1][0] == 'leaf' and BASE_SWAP.get(frow[1][2]) in lib.get_base_datatypes():
            frow[1][2] = BASE_SWAP[frow[1][2]]
        frow[2] = [1, 1] if frow[2][0] == 0 else [0, 1]
    return freeze(r)


# leaves of the message-level lines: valid under every datatype of BASE_SWAP's image at both levels where possible
# (short, so that STRICT does not stop at MaxLengthReached before the profile has been used)
MP_LEAF = {
    'DT': ['20200101', '2020'], 'DTM': ['20200101', '202001011230'], 'TM': ['1200', '12'], 'NM': ['1', '15', '1.5'],
    'SI': ['1', '12'], 'ST': ['abc', 'a\\F\\b', 'A B', '7'], 'ID': ['A', 'Y'], 'IS': ['A', 'B'], 'TN': ['555-1234'],
    'TX': ['text', 't\\E\\x'], 'FT': ['ft'], 'WD': ['w'], 'GTS': ['g'], 'SNM': ['s1'], 'CM': ['cm'],
}


def mp_line(rng, lib, ec, sname, keep=5):
    """a canonical line cut after its first `keep` fields (the profile edits sit there; field parsing in depth is
    the segment-level correspondence's business and costs the model ~3 ms per component)"""
    saved = S.LEAF
    S.LEAF = MP_LEAF
    try:
        for _ in range(6):
            line = S.gen_segment_line(rng, lib, ec, sname=sname, messy=False)
            cut = ec['FIELD'].join(line.split(ec['FIELD'])[:keep + 1]).rstrip(ec['FIELD'])
            if len(cut) > 4:
                return cut
        return cut + ec['FIELD'] + '1' if len(cut) == 3 else cut
    finally:
        S.LEAF = saved


def mp_datatypes(ref, acc, depth=0):
    """datatype names reachable from a reference (their DATATYPES rows are moved to the front of the tables)"""
    if isinstance(ref, (tuple, list)) and len(ref) > 2 and isinstance(ref[2], str):
        acc.add(ref[2])
    if isinstance(ref, (tuple, list)) and len(ref) > 1 and ref[0] in ('sequence', 'choice') and depth < 8 \
            and isinstance(ref[1], (tuple, list)):
        for row in ref[1]:
            if isinstance(row, (tuple, list)) and len(row) == 4:
                mp_datatypes(row[1], acc, depth + 1)


def message_profile_prepare(run, dist):
    """implementation side: runs hl7apy on the generated (text, profile, level, find_groups) and writes the Coq case
    files; returns (files, index) for coq_eval_many / message_profile_collect"""
    import random
    from common import shard
    from coqgen import coq_str, is_model_str
    rng = random.Random(run.rng.getrandbits(64))     # own stream: the other generators of this check are not shifted
    nmsg = 1 if not run.thorough else 8          # per version; ~40 cases per message, ~0.12 s of coqc each
    legacy_tuple = None
    try:
        lp = hl7apy.load_message_profile(os.path.join(REPO, 'tests', 'profiles',
                                                      'old_pharm_h4' + ('_win' if os.name == 'nt' else '')))
        legacy_tuple = list(lp.values())[0]
    except (OSError, pickle.UnpicklingError):
        pass
    byv = {}
    cbyv = {}
    for v in S.VERSIONS:
        lib = hl7apy.load_library(v)
        ec = S.default_ec(v)
        mnames = [m for m in sorted(lib.MESSAGES) if isinstance(lib.MESSAGES[m], tuple) and len(lib.MESSAGES[m]) == 2
                  and lib.MESSAGES[m][1] and '_' in m and not m.endswith('nn') and m == m.upper()
                  and any(row[3] == 'GRP' for row in lib.MESSAGES[m][1])]
        rng.shuffle(mnames)
        done = 0
        for m in mnames:
            if done >= nmsg:
                break
            std = lib.MESSAGES[m]
            try:
                names = mp_instance(std, rng.choice(['req', 'rep2', 'rep2']))
            except Exception:  # noqa
                continue
            if not names or names[0] != 'MSH' or 'ANYHL7SEGMENT' in names or not (2 <= len(names) <= 12):
                continue
            if any(not S.ok_segment(lib, n) or not lib.SEGMENTS[n][1] for n in names[1:]):
                continue
            done += 1
            body = list(names[1:])
            mut = rng.choice(['none', 'none', 'z', 'foreign', 'drop', 'dup'])
            if mut == 'z':
                body.insert(rng.randint(0, len(body)), 'ZZ1')
            elif mut == 'foreign':
                body.insert(rng.randint(0, len(body)), rng.choice(['NTE', 'PV2', 'OBX']))
            elif mut == 'drop' and len(body) > 1:
                body.pop(rng.randrange(len(body)))
            elif mut == 'dup':
                body.insert(rng.randint(0, len(body)), rng.choice(body))
            lines = []
            for n in body:
                if n == 'ZZ1':
                    lines.append('ZZ1|1|a^b')
                elif S.ok_segment(lib, n) and lib.SEGMENTS[n][1]:
                    lines.append(mp_line(rng, lib, ec, n))
            text = '\r'.join([c01.msh_line(m, v)] + lines)
            profiles = [('none', None, m), ('empty', {}, m), ('restating', {m: std}, m), ('lacking', {'OTHER_X01': std}, m)]
            for what in ('card', 'field'):
                p = mp_edit_top(rng, std, lib, what)
                if p is not None:
                    profiles.append((what, {m: p, 'OTHER_X01': std}, m))
            p = mp_edit_deep(rng, std, lib)
            if p is not None:
                profiles.append(('deep', {m: p}, m))
                # the structure name written in lower case in MSH-9: the profile is indexed by the name AS WRITTEN
                profiles.append(('lower-key', {m.lower(): p}, m.lower()))
                profiles.append(('upper-key-only', {m: p}, m.lower()))
            if legacy_tuple is not None:
                profiles.append(('legacy', {m: legacy_tuple}, m))
            # oracle probes: an empty profile lacks every structure; the constructor finds the structure whatever the
            # letter case of the name it is given and keeps the profile's entry as the message reference
            for lvl in (S.TOLERANT, S.STRICT):
                for fg in (True, False):
                    dist['mp_empty_probes'] = dist.get('mp_empty_probes', 0) + 1
                    try:
                        parse_message(text, validation_level=lvl, find_groups=fg, message_profile={})
                        run.fail('missing-profile-not-reported', 'an empty message profile does not raise '
                                 'MessageProfileNotFound', version=v, structure=m, call='parse/empty-profile', level=lvl,
                                 find_groups=fg)
                    except MessageProfileNotFound:
                        pass
                    except Exception as ex:  # noqa
                        run.fail('missing-profile-not-reported', 'an empty message profile raises something else than '
                                 'MessageProfileNotFound', version=v, structure=m, call='parse/empty-profile', level=lvl,
                                 find_groups=fg, exc=repr(ex))
                cprof = [p for k, p, _ in profiles if k == 'deep'] or [{m: std}]
                dist['mp_ctor_case_probes'] = dist.get('mp_ctor_case_probes', 0) + 1
                try:
                    mm = Message(m.lower(), version=v, reference=cprof[0], validation_level=lvl)
                    if thaw(getattr(mm, 'reference', None)) != thaw(cprof[0][m]):
                        run.fail('message-reference-not-profile', 'Message(name.lower(), reference=p) does not keep p[NAME] '
                                 'as the message reference', version=v, structure=m, call='ctor/lower-case-name', level=lvl)
                except Exception as ex:  # noqa
                    run.fail('message-reference-not-profile', 'Message(name.lower(), reference=p) raises although p holds '
                             'the structure', version=v, structure=m, call='ctor/lower-case-name', level=lvl, exc=repr(ex))
            for kind, prof, written in profiles:
                term = mp_profile_term(lib, prof, legacy_keys=(m,) if kind == 'legacy' else ())
                if term is None:
                    run.note('message profile %s %s (%s) not translatable' % (v, m, kind))
                    continue
                for lvl in (S.TOLERANT, S.STRICT):
                    for nm in sorted({written, m, m.lower()}) + [None]:
                        try:
                            Message(nm, version=v, reference=prof, validation_level=lvl)
                            ccode = 0
                        except Exception as ex:  # noqa
                            ccode = S.outcome_code(ex)
                        cbyv.setdefault(v, []).append({'v': v, 'lvl': lvl, 'name': nm, 'term': term, 'code': ccode,
                                                       'kind': kind, 'structure': m})
                # about every second message (decided by its version and name, no draw from the generator) is written
                # with CR LF line ends and a trailing CR LF: parse_segments strips each piece before it takes the
                # segment name, so groups and profile references are those of the CR-separated text
                # (Properties/C18.v C18_crlf_same_profile_parse)
                sep = '\r\n' if sum(map(ord, v + m)) % 2 == 0 else '\r'
                txt = sep.join([c01.msh_line(written, v)] + lines) + (sep if sep != '\r' else '')
                dist['mp_' + kind] = dist.get('mp_' + kind, 0) + 1
                dts = set()
                for r in (prof or {}).values():
                    if kind != 'legacy':
                        mp_datatypes(r, dts)
                for lvl in (S.TOLERANT, S.STRICT):
                    for fg in (True, False):
                        o = mp_observe(txt, lvl, fg, prof)
                        if not all(is_model_str(x) for x in [txt, o['dump'], o['enc']] + o['keys']):
                            continue
                        o.update(v=v, lvl=lvl, fg=fg, text=txt, kind=kind, structure=m, term=term, dts=dts)
                        byv.setdefault(v, []).append(o)
    files, index = [], []
    for v, cs in byv.items():
        lib = hl7apy.load_library(v)
        for k, sh in enumerate(shard(cs, 80)):
            names = {}          # interned strings and profile terms: Definition <name> := <term>

            def intern(term, prefix, typ):
                if term not in names:
                    names[term] = ('%s%d' % (prefix, len(names)), typ)
                return names[term][0]
            segs, dts = set(), set()
            rows = []
            for c in sh:
                for line in c['text'].split('\r'):
                    if is_model_str(line[:3]) and '"' not in line[:3]:
                        segs.add(line[:3].upper())
                dts |= c['dts']
                rows.append('(%d%%nat, %s, %s, %s, %d%%nat, %s, %d%%nat, %s, %d%%nat, [%s])' % (
                    c['lvl'], 'true' if c['fg'] else 'false', intern(c['term'], 'p', 'option profile'),
                    intern(coq_str(c['text']), 's', 'str'), c['code'], intern(coq_str(c['dump']), 's', 'str'), c['ecode'],
                    intern(coq_str(c['enc']), 's', 'str'), c['vcode'], '; '.join(coq_str(x) for x in c['keys'])))
            for sn in segs:
                if S.ok_segment(lib, sn):
                    mp_datatypes(lib.SEGMENTS[sn], dts)
            dts = sorted(d for d in dts if is_model_str(d) and '"' not in d)
            L = [MP_PRELUDE % {'mod': S.modname(v), 'segs': '[%s]' % '; '.join(coq_str(x) for x in sorted(segs)),
                               'dts': '[%s]' % '; '.join(coq_str(x) for x in dts)}]
            csh = cbyv.get(v, []) if k == 0 else []       # the constructor cases of the version ride in its first file
            crows = ['(%d%%nat, %s, %s, %d%%nat)' % (c['lvl'], 'None' if c['name'] is None else '(Some %s)' % coq_str(c['name']),
                                                     intern(c['term'], 'p', 'option profile'), c['code']) for c in csh]
            for term, (nm, typ) in names.items():
                L.append('Definition %s : %s := %s.' % (nm, typ, term))
            L.append('Definition cases : list case := [\n' + ';\n'.join(rows) + '\n].')
            L.append('Definition ccases : list ccase := [\n' + ';\n'.join(crows) + '\n].')
            profs = [nm for term, (nm, typ) in names.items() if typ == 'option profile']
            L.append('Definition profs : list (option profile) := [%s].' % '; '.join(profs))
            L.append('Eval vm_compute in failing tables_of_file 0 cases.')
            L.append('Eval vm_compute in cfailing tables_of_file 0 ccases.')
            L.append('Eval vm_compute in pfailing tables_of_file 0 profs.')
            files.append(('c18m_%d_%s_%d' % (os.getpid(), v.replace('.', '_'), k), '\n'.join(L) + '\n'))
            index.append((sh, csh, len(profs)))
    return files, index


def message_profile_collect(run, dist, index, results):
    """model side: failing indices printed by coqc -> run.disagree('message-profile', ...); returns the number of cases
    the model evaluated"""
    from common import parse_nat_lists
    evaluated = 0
    for (sh, csh, nprofs), (rc, out) in zip(index, results):
        lists = parse_nat_lists(out)
        if rc != 0 or len(lists) != 3:
            run.disagree('message-profile', why='case file did not evaluate', version=sh[0]['v'], output=out[-1500:])
            continue
        evaluated += len(sh) + len(csh)
        dist['mp_ctor_cases'] = dist.get('mp_ctor_cases', 0) + len(csh)
        dist['mp_profiles_groups_named_consistently'] = dist.get('mp_profiles_groups_named_consistently', 0) + nprofs - len(lists[2])
        dist['mp_profiles_groups_not_named_consistently'] = dist.get('mp_profiles_groups_not_named_consistently', 0) + len(lists[2])
        for i in lists[1]:
            c = csh[i]
            run.disagree('message-profile', version=c['v'], structure=c['structure'], profile_kind=c['kind'], level=c['lvl'],
                         call='Message(name, reference=profile)', name=c['name'], profile=c['term'][:1500],
                         implementation={'code': c['code']})
        for i in lists[0]:
            c = sh[i]
            run.disagree('message-profile', version=c['v'], structure=c['structure'], profile_kind=c['kind'],
                         level=c['lvl'], find_groups=c['fg'], text=c['text'], profile=c['term'][:1500],
                         implementation={'code': c['code'], 'dump': c['dump'][:1500], 'ecode': c['ecode'],
                                         'enc': c['enc'][:400], 'vcode': c['vcode'], 'errors': c['keys'][:8]})
    dist['mp_cases'] = evaluated
    return evaluated


def message_profile_correspondence(run, dist):
    """prepare + evaluate + collect in one go (main() overlaps the coqc runs with the oracle work instead)"""
    from common import coq_eval_many
    files, index = message_profile_prepare(run, dist)
    return message_profile_collect(run, dist, index, coq_eval_many(files, timeout=1500))

# ======================================== end of MESSAGE-LEVEL CORRESPONDENCE ===============================


def main(argv=None):
    run = Run('C18', argv)
    # the model files the two correspondence runs load besides the dependencies of Properties/C18.vo are built too, so that a
    # change of coq/Gen (regenerated from the tree under test) cannot leave them stale
    ok = run.build(['Properties/C18.vo', 'Model/LeafFull.vo', 'Model/Dump.vo', 'Model/Encode.vo', 'Model/Validate.vo'],
                   gen=('params', 'tables'), obligation_files=['Properties/C18.v'])
    if ok:
        run.print_assumptions('Properties.C18', [n for n, _ in theorems_of('Properties/C18.v')])
    rng = run.rng
    dist = {'segment_profiles': 0, 'edits_card': 0, 'edits_dt': 0, 'restating': 0, 'message_profiles': 0,
            'datatype_readbacks': 0}
    # message-level correspondence (Model/MessageProf.v): the implementation side runs now, the coqc runs go on in the
    # background while the oracles below work, the results are collected before the segment-level model run
    from concurrent.futures import ThreadPoolExecutor
    from common import coq_eval_many
    mp_files, mp_index = message_profile_prepare(run, dist)
    run.log('message-profile cases prepared: %d case files' % len(mp_files))
    mp_pool = ThreadPoolExecutor(max_workers=1)
    mp_future = mp_pool.submit(coq_eval_many, mp_files, 1500)
    cases = []
    nseg = 14 if not run.thorough else 60
    distinct = set()
    for v in S.VERSIONS:
        lib = hl7apy.load_library(v)
        ec = S.default_ec(v)
        names = [s for s in sorted(lib.SEGMENTS) if S.ok_segment(lib, s) and s != 'MSH' and lib.SEGMENTS[s][1]]
        rng.shuffle(names)
        for sname in names[:nseg]:
            std = lib.SEGMENTS[sname]
            prof, edits = edit_reference(rng, std, lib)
            if not edits:
                continue
            dist['segment_profiles'] += 1
            for ed in edits:
                dist['edits_card' if ed[0] == 'card' else 'edits_dt'] += 1
            distinct.add((v, sname, tuple(map(str, edits))))
            import gen_tables
            gen_tables._EQ.clear()     # see mp_profile_term: the memo is keyed by id() and profiles are short-lived
            ref_term = '(%s)%%Z' % S.sref_term(lib, prof)
            for k in range(3):
                text = S.gen_segment_line(rng, lib, ec, sname, messy=(k == 2))
                for lvl in (S.TOLERANT, S.STRICT):
                    c = S.case_of(text, v, lvl, ec, reference=prof, ref_term=ref_term, edits=edits)
                    cases.append(c)
                    seg = c['obj']
                    if seg is None:
                        continue
                    # (a) datatypes of created children come from the profile
                    for path, got, want, nkids in walk_datatypes(seg, prof, ec):
                        dist['datatype_readbacks'] += 1
                        base = want in lib.get_base_datatypes()
                        # TOLERANT resets a base datatype to None when the text has several components
                        if got != want and not (lvl == S.TOLERANT and got is None and base and nkids > 1):
                            run.fail('child-datatype-not-from-profile', 'a child created by the parser does not take its '
                                     'datatype from the profile', version=v, segment=sname, path=list(path), got=got,
                                     profile=want, text=text, level=lvl, edits=[str(e) for e in edits])
                    # (b) validate() judges against the profile
                    try:
                        rep = seg.validate(return_errors=True)
                        errs = [str(e) for e in rep.errors]
                    except Exception as ex:  # noqa
                        run.fail('validate-raises', 'validate(return_errors=True) raised on a profiled segment',
                                 version=v, segment=sname, text=text, exc=repr(ex))
                        continue
                    present = {}
                    for f in seg.children:
                        present[f.name] = present.get(f.name, 0) + 1
                    for row in prof[1]:
                        nm, (mn, mx) = row[0], row[2]
                        n = present.get(nm, 0)
                        if n < mn and not any('Missing required child' in e and nm in e for e in errs):
                            run.fail('profile-required-not-enforced', 'validate() does not report a child the profile '
                                     'requires', version=v, segment=sname, child=nm, text=text, errors=errs[:5],
                                     edits=[str(e) for e in edits])
                        if mx != -1 and n > mx and not any('Child limit exceeded' in e and nm in e for e in errs):
                            run.fail('profile-limit-not-enforced', 'validate() does not report a child exceeding the '
                                     'profile\'s maximum', version=v, segment=sname, child=nm, text=text, errors=errs[:5],
                                     edits=[str(e) for e in edits])
            # (c) restating the standard reference changes nothing
            text = S.gen_segment_line(rng, lib, ec, sname, messy=True)
            for lvl in (S.TOLERANT, S.STRICT):
                dist['restating'] += 1
                a = S.impl_obs(text, v, lvl, ec)[:3]
                b = S.impl_obs(text, v, lvl, ec, reference=std)[:3]
                if a != b:
                    run.fail('restating-profile-changes-result', 'a profile that restates the standard structure changes '
                             'the result', version=v, segment=sname, text=text, level=lvl, without=str(a)[:400],
                             with_profile=str(b)[:400])
    run.log('segment profiles: %s, %d failures' % (dist, len(run.failures)))
    # ---- message level
    nmsg = 5 if not run.thorough else 40
    for v in S.VERSIONS:
        lib = hl7apy.load_library(v)
        ec = S.default_ec(v)
        mnames = [m for m in sorted(lib.MESSAGES) if isinstance(lib.MESSAGES[m], tuple) and len(lib.MESSAGES[m]) == 2
                  and lib.MESSAGES[m][1] and '_' in m and not m.endswith('nn')]
        rng.shuffle(mnames)
        for m in mnames[:nmsg]:
            std = lib.MESSAGES[m]
            try:
                names = c01.instance_names(std, 'req')
            except Exception:  # noqa
                continue
            if not names or names[0] != 'MSH' or 'ANYHL7SEGMENT' in names:
                continue
            top_segs = [row for row in std[1] if row[3] == 'SEG' and row[0] != 'MSH' and S.ok_segment(lib, row[0])
                        and lib.SEGMENTS[row[0]][1]]
            if not top_segs:
                continue
            target = rng.choice(top_segs)
            r = thaw(std)
            for row in r[1]:
                if row[0] == target[0]:
                    row[2] = [1, 1] if target[2][0] == 0 else [0, 0]
                    newcard = tuple(row[2])
            prof = {m: freeze(r)}
            dist['message_profiles'] += 1
            lines = [c01.msh_line(m, v)]
            good = True
            for sname in names[1:]:
                if not S.ok_segment(lib, sname) or not lib.SEGMENTS[sname][1]:
                    good = False
                    break
                lines.append(c01.canonical_line(rng, lib, ec, sname))
            if not good:
                continue
            text = '\r'.join(lines)
            present = names.count(target[0])
            try:
                msg = parse_message(text, validation_level=S.TOLERANT, message_profile=prof)
                rep = msg.validate(return_errors=True)
                errs = [str(e) for e in rep.errors]
                # the message keeps the profile as its reference
                if msg.reference != prof[m]:
                    run.fail('message-reference-not-profile', 'parse_message(..., message_profile=p) does not keep '
                             'p[structure] as the message reference', version=v, structure=m)
                if newcard == (1, 1) and present == 0 and not any('Missing required child' in e and target[0] in e
                                                                     for e in errs):
                    run.fail('profile-required-not-enforced', 'validate() does not report a segment the profile requires',
                             version=v, structure=m, child=target[0], text=text, errors=errs[:5], segment=None, edits=None)
                if newcard == (0, 0) and present > 0 and not any('Child limit exceeded' in e and target[0] in e
                                                                    for e in errs):
                    run.fail('profile-limit-not-enforced', 'validate() does not report a segment the profile forbids',
                             version=v, structure=m, child=target[0], text=text, errors=errs[:5], segment=None, edits=None)
                # same message against the standard structure: the edited constraint must NOT be applied
                rep0 = parse_message(text, validation_level=S.TOLERANT).validate(return_errors=True)
                # a restating profile changes nothing
                m1 = parse_message(text, validation_level=S.TOLERANT, message_profile={m: std})
                if m1.to_er7() != parse_message(text, validation_level=S.TOLERANT).to_er7() or \
                        sorted(map(str, m1.validate(return_errors=True).errors)) != sorted(map(str, rep0.errors)):
                    run.fail('restating-profile-changes-result', 'a message profile that restates the standard structure '
                             'changes the result', version=v, structure=m, text=text, segment=None, level=2,
                             without='', with_profile='')
                # ... with group finding off as well: same tree shape, same encoding, same report
                def shape(el):
                    return [(ch.classname, ch.name, shape(ch) if ch.classname == 'Group' else None) for ch in el.children]
                f0 = parse_message(text, validation_level=S.TOLERANT, find_groups=False)
                f1 = parse_message(text, validation_level=S.TOLERANT, find_groups=False, message_profile={m: std})
                if shape(f0) != shape(f1) or f0.to_er7() != f1.to_er7() or \
                        sorted(map(str, f0.validate(return_errors=True).errors)) != \
                        sorted(map(str, f1.validate(return_errors=True).errors)):
                    run.fail('restating-profile-changes-result', 'a message profile that restates the standard structure '
                             'changes the result of parse_message(find_groups=False)', version=v, structure=m, text=text,
                             segment=None, level=2, without=str(shape(f0))[:300], with_profile=str(shape(f1))[:300])
                # a minimum cardinality above 1: a child present fewer times than the profile requires is reported
                r2 = thaw(std)
                rep_rows = [row for row in r2[1] if row[3] == 'SEG' and row[0] != 'MSH' and names.count(row[0]) == 1
                            and (row[2][1] == -1 or row[2][1] >= 2)]
                if rep_rows:
                    row2 = rng.choice(rep_rows)
                    row2[2] = [2, row2[2][1]]
                    dist['min2_profiles'] = dist.get('min2_profiles', 0) + 1
                    e2 = [str(e) for e in parse_message(text, validation_level=S.TOLERANT, message_profile={m: freeze(r2)}
                                                        ).validate(return_errors=True).errors]
                    if not any('Missing required child' in e and row2[0] in e for e in e2):
                        run.fail('profile-required-not-enforced', 'validate() does not report a segment that occurs once where the '
                                 'profile requires it twice', version=v, structure=m, child=row2[0], text=text, errors=e2[:5],
                                 segment=None, edits=['%s min 2' % row2[0]])
            except HL7apyException as ex:
                run.fail('profiled-parse-raises', 'parsing a conforming message with a one-edit profile raised',
                         version=v, structure=m, text=text, exc=repr(ex))
            # profile lacking the structure
            for call in ('parse', 'ctor'):
                try:
                    if call == 'parse':
                        parse_message(text, message_profile={'OTHER_X01': std})
                    else:
                        Message(m, version=v, reference={'OTHER_X01': std})
                    run.fail('missing-profile-not-reported', 'a profile lacking the message structure does not raise '
                             'MessageProfileNotFound', version=v, structure=m, call=call)
                except MessageProfileNotFound:
                    pass
                except Exception as ex:  # noqa
                    run.fail('missing-profile-not-reported', 'a profile lacking the message structure raises something '
                             'else than MessageProfileNotFound', version=v, structure=m, call=call, exc=repr(ex))
    # ---- profiles that differ INSIDE (repeating) groups; every creation path must thread the profile
    def same_ref(a, b):
        if isinstance(a, (tuple, list)) and isinstance(b, (tuple, list)):
            return len(a) == len(b) and all(same_ref(x, y) for x, y in zip(a, b))
        return a == b

    def check_threading(el, v, m, route):
        """every child that its parent's reference declares carries exactly that sub-reference"""
        ref = getattr(el, 'reference', None)
        if ref is None or ref[0] not in ('sequence', 'choice'):
            return
        rows = {}
        for row in ref[1]:
            rows.setdefault(row[0], row)
        for ch in el.children:
            row = rows.get(ch.name)
            if row is None or ch.classname not in ('Group', 'Segment', 'Field', 'Component', 'SubComponent'):
                continue
            dist['threading_checks'] = dist.get('threading_checks', 0) + 1
            chref = getattr(ch, 'reference', None)
            if ch.classname == 'SubComponent':
                # a leaf: what it takes from the profile is its datatype (length and table are read from the parent's row)
                if ch.datatype != row[1][2]:
                    run.fail('child-datatype-not-from-profile', 'a subcomponent does not take the datatype its parent\'s '
                             '(profile) reference declares for it', version=v, structure=m, parent=el.name, child=ch.name,
                             got=ch.datatype, profile=row[1][2], route=route, segment=None, path=None, text=None, level=None,
                             edits=None)
                continue
            if chref is None or not same_ref(chref, row[1]):
                run.fail('child-reference-not-from-profile', 'a child does not carry the sub-reference its parent\'s '
                         '(profile) reference declares for it', version=v, structure=m, parent=el.name, child=ch.name,
                         cls=ch.classname, route=route)
                continue
            if ch.classname in ('Group', 'Segment', 'Field', 'Component'):
                check_threading(ch, v, m, route)

    def deep_edit(ref):
        """change a field inside a nested group (datatype swap or cardinality) - returns (profile, path) or None"""
        r = thaw(ref)
        groups = [row for row in r[1] if row[3] == 'GRP' and (row[2][1] == -1 or row[2][1] > 1)]
        if not groups:
            return None
        g = rng.choice(groups)
        path = [g[0]]
        node = g[1]
        while True:
            sub = [row for row in node[1] if row[3] == 'GRP']
            segs = [row for row in node[1] if row[3] == 'SEG' and row[1] is not None and row[1][1]]
            if segs and (not sub or rng.random() < .6):
                srow = rng.choice(segs)
                path.append(srow[0])
                frow = rng.choice(srow[1][1])
                path.append(frow[0])
                frow[2] = [1, 1] if frow[2][0] == 0 else [0, 1]
                if frow[1][0] == 'leaf' and frow[1][2] in BASE_SWAP:
                    frow[1][2] = BASE_SWAP[frow[1][2]]
                return freeze(r), path
            if not sub:
                return None
            gg = rng.choice(sub)
            path.append(gg[0])
            node = gg[1]

    def instance_rep2(ref):
        out = []
        for row in ref[1]:
            name, cref, (mn, mx), kind = row
            n = 2 if (kind == 'GRP' and (mx == -1 or mx > 1)) else (1 if mn >= 1 or kind == 'GRP' else 0)
            for _ in range(n):
                if kind == 'SEG':
                    out.append(name)
                elif cref is not None:
                    out.extend(c01.instance_names(cref, 'req') or c01.instance_names(cref, 'all')[:1])
        return out

    ngrp = 4 if not run.thorough else 30
    for v in S.VERSIONS:
        lib = hl7apy.load_library(v)
        ec = S.default_ec(v)
        mnames = [m for m in sorted(lib.MESSAGES) if isinstance(lib.MESSAGES[m], tuple) and len(lib.MESSAGES[m]) == 2
                  and lib.MESSAGES[m][1] and '_' in m and not m.endswith('nn')
                  and any(row[3] == 'GRP' for row in lib.MESSAGES[m][1])]
        rng.shuffle(mnames)
        done = 0
        for m in mnames:
            if done >= ngrp:
                break
            std = lib.MESSAGES[m]
            try:
                ed = deep_edit(std)
                names = instance_rep2(std)
            except Exception:  # noqa
                continue
            if ed is None or not names or names[0] != 'MSH' or 'ANYHL7SEGMENT' in names or len(names) > 40:
                continue
            if any(not S.ok_segment(lib, n) or not lib.SEGMENTS[n][1] for n in names[1:]):
                continue
            prof = {m: ed[0]}
            done += 1
            dist['group_profiles'] = dist.get('group_profiles', 0) + 1
            text = '\r'.join([c01.msh_line(m, v)] + [c01.canonical_line(rng, lib, ec, n) for n in names[1:]])
            try:
                msg = parse_message(text, validation_level=S.TOLERANT, message_profile=prof)
                check_threading(msg, v, m, 'parse_message')
                rep_a = sorted(str(e) for e in msg.validate(return_errors=True).errors)
                # the same through the constructor + value assignment
                m2 = Message(m, version=v, reference=prof, validation_level=S.TOLERANT)
                m2.value = text
                if not same_ref(getattr(m2, 'reference', None), prof[m]):
                    run.fail('message-reference-not-profile', 'after Message(name, reference=p); m.value = text the message '
                             'no longer carries p[name]', version=v, structure=m)
                else:
                    check_threading(m2, v, m, 'Message.value')
                    rep_b = sorted(str(e) for e in m2.validate(return_errors=True).errors)
                    if rep_a != rep_b:
                        run.fail('profile-verdict-differs-by-path', 'validate() gives different reports for the same text '
                                 'and profile depending on the creation path (parse_message vs Message.value)',
                                 version=v, structure=m, parse_message=rep_a[:4], message_value=rep_b[:4])
                # children created through the helpers take the profile's sub-reference
                m3 = Message(m, version=v, reference=prof, validation_level=S.TOLERANT)
                for row in prof[m][1]:
                    if row[0] == 'MSH':
                        continue
                    try:
                        ch = m3.add_group(row[0]) if row[3] == 'GRP' else m3.add_segment(row[0])
                    except HL7apyException:
                        continue
                    if not same_ref(getattr(ch, 'reference', None), row[1]):
                        run.fail('child-reference-not-from-profile', 'a child created by add_group/add_segment does not '
                                 'carry the profile\'s sub-reference', version=v, structure=m, parent=m, child=row[0],
                                 cls=ch.classname, route='add_helper')
                check_threading(m3, v, m, 'add_helper')
                # children copied from a message built WITHOUT the profile (message.pid = other.pid): the copy is rebuilt
                # under the target's profile
                src = parse_message(text, validation_level=S.TOLERANT)
                m4 = Message(m, version=v, reference=prof, validation_level=S.TOLERANT)
                for row in prof[m][1]:
                    if row[0] == 'MSH':
                        continue
                    px = getattr(src, row[0].lower())
                    if len(px) == 0:
                        continue
                    try:
                        setattr(m4, row[0].lower(), px)
                    except HL7apyException:
                        continue
                    dist['proxy_copies'] = dist.get('proxy_copies', 0) + 1
                check_threading(m4, v, m, 'proxy-assignment')
            except HL7apyException as ex:
                run.note('group profile %s %s skipped: %r' % (v, m, ex))
            except Exception as ex:  # noqa
                run.fail('profiled-parse-crashes', 'parsing / building a conforming message under a profile that differs '
                         'inside a repeating group raised a non-library exception', version=v, structure=m,
                         path=ed[1], text=text, exc=repr(ex))
    # ---- find_groups=False: parse_segments(..., references, find_groups=False) does not use `references` (parser.py:155),
    # so the segments of a flat parse are built on the standard tables whatever the profile says (recorded finding; the
    # model reproduces it: Properties/C18.v C18_flat_nodes_take_profile_subreference_refuted).  The same text parsed with
    # find_groups=True must thread the profile (route 'parse_message').
    nflat = 2 if not run.thorough else 12
    for v in S.VERSIONS:
        lib = hl7apy.load_library(v)
        ec = S.default_ec(v)
        base = lib.get_base_datatypes()
        mnames = [m for m in sorted(lib.MESSAGES) if isinstance(lib.MESSAGES[m], tuple) and len(lib.MESSAGES[m]) == 2
                  and lib.MESSAGES[m][1] and '_' in m and not m.endswith('nn')]
        rng.shuffle(mnames)
        done = 0
        for m in mnames:
            if done >= nflat:
                break
            std = lib.MESSAGES[m]
            try:
                names = c01.instance_names(std, 'req')
            except Exception:  # noqa
                continue
            if not names or names[0] != 'MSH' or 'ANYHL7SEGMENT' in names or len(names) > 30:
                continue
            if any(not S.ok_segment(lib, n) or not lib.SEGMENTS[n][1] for n in names[1:]):
                continue
            # a required top-level segment with a swappable leaf field
            cands = []
            for row in std[1]:
                if row[3] == 'SEG' and row[0] != 'MSH' and row[2][0] >= 1 and row[1] is not None and row[1][1]:
                    fs = [f for f in row[1][1] if f[1] is not None and f[1][0] == 'leaf' and BASE_SWAP.get(f[1][2]) in base]
                    if fs:
                        cands.append((row[0], rng.choice(fs)[0]))
            if not cands:
                continue
            sname, fname = rng.choice(cands)
            r = thaw(std)
            for row in r[1]:
                if row[0] == sname and row[3] == 'SEG':
                    for f in row[1][1]:
                        if f[0] == fname:
                            f[1][2] = BASE_SWAP[f[1][2]]
                            f[2] = [1, 1] if f[2][0] == 0 else [0, 1]
            prof = {m: freeze(r)}
            done += 1
            dist['flat_profile_probes'] = dist.get('flat_profile_probes', 0) + 1
            text = '\r'.join([c01.msh_line(m, v)] + [c01.canonical_line(rng, lib, ec, n) for n in names[1:]])
            for fg, route in ((True, 'parse_message'), (False, 'parse_message/find_groups=False')):
                try:
                    msg = parse_message(text, validation_level=S.TOLERANT, find_groups=fg, message_profile=prof)
                    check_threading(msg, v, m, route)
                except HL7apyException as ex:
                    run.note('flat-mode profile probe %s %s skipped: %r' % (v, m, ex))
                except Exception as ex:  # noqa
                    run.fail('profiled-parse-crashes', 'parsing a conforming message under a profile that retypes a field of a '
                             'top-level segment raised a non-library exception', version=v, structure=m, path=[sname, fname],
                             text=text, exc=repr(ex))
    # ---- a minimum cardinality of 2 (segment and field level) on ADT_A01 of every version
    for v in S.VERSIONS:
        lib = hl7apy.load_library(v)
        ec = S.default_ec(v)
        std = lib.MESSAGES['ADT_A01']
        r2 = thaw(std)
        segrow = [row for row in r2[1] if row[0] == 'NK1']
        if not segrow or segrow[0][1] is None:
            continue
        segrow[0][2] = [2, -1]
        frows = [fr for fr in segrow[0][1][1] if fr[2][1] == -1 or fr[2][1] >= 2]
        if frows:
            frows[0][2] = [2, frows[0][2][1]]
        names = [n for n in c01.instance_names(std, 'req') if n not in ('MSH', 'NK1')]
        lines = [c01.msh_line('ADT_A01', v)] + [c01.canonical_line(rng, lib, ec, n) for n in names]
        fidx = int(frows[0][0].split('_')[1]) if frows else 1
        one = 'NK1' + '|' * fidx + 'x'
        for nk1_lines, want_seg, want_field in (([one], True, bool(frows)), ([one, one], False, bool(frows)),
                                                 (['NK1' + '|' * fidx + 'x~y'] * 2, False, False)):
            text = '\r'.join(lines + nk1_lines)
            dist['min2_profiles'] = dist.get('min2_profiles', 0) + 1
            try:
                errs = [str(e) for e in parse_message(text, validation_level=S.TOLERANT, message_profile={'ADT_A01': freeze(r2)}
                                                      ).validate(return_errors=True).errors]
            except HL7apyException as ex:
                run.note('min-2 profile %s skipped: %r' % (v, ex))
                continue
            got_seg = any('Missing required child' in e and e.rstrip().endswith('.NK1') for e in errs)
            got_field = bool(frows) and any('Missing required child' in e and frows[0][0] in e for e in errs)
            if got_seg != want_seg or got_field != want_field:
                run.fail('profile-required-not-enforced', 'validate() does not judge a minimum cardinality of 2 set by the profile '
                         '(occurrences below it are missing, at or above it are not)', version=v, structure='ADT_A01',
                         child='NK1' if got_seg != want_seg else frows[0][0], text=text, errors=errs[:6], segment='NK1',
                         edits=['NK1 min 2', '%s min 2' % (frows[0][0] if frows else None)],
                         expected=[want_seg, want_field], observed=[got_seg, got_field])
    # ---- a profile that retypes a complex field as a base datatype: a standard-conforming value with components is not
    # profile-conforming, and validate() says so (under TOLERANT the parser resets the datatype of such a field to None)
    for v in S.VERSIONS:
        lib = hl7apy.load_library(v)
        ec = S.default_ec(v)
        std = lib.MESSAGES['ADT_A01']
        r3 = thaw(std)
        prow = [row for row in r3[1] if row[0] == 'PID'][0]
        frow = [fr for fr in prow[1][1] if fr[1][0] == 'sequence' and fr[0] == 'PID_5']
        if not frow:
            continue
        fr = frow[0]
        fr[1] = ['leaf', None, 'ST', fr[1][3] if len(fr[1]) > 3 else None, None, -1]
        names = [n for n in c01.instance_names(std, 'req') if n not in ('MSH', 'PID')]
        lines = [c01.msh_line('ADT_A01', v)] + [c01.canonical_line(rng, lib, ec, n) for n in names]
        for val, bad in (('EVERYMAN^ADAM', True), ('EVERYMAN', False)):
            text = '\r'.join(lines + ['PID|1||1||' + val])
            dist['complex_to_base_profiles'] = dist.get('complex_to_base_profiles', 0) + 1
            try:
                errs = [str(e) for e in parse_message(text, validation_level=S.TOLERANT, message_profile={'ADT_A01': freeze(r3)}
                                                      ).validate(return_errors=True).errors]
            except HL7apyException as ex:
                run.note('complex-to-base profile %s skipped: %r' % (v, ex))
                continue
            flagged = any('PID_5' in e for e in errs)
            if flagged != bad:
                run.fail('profile-datatype-not-enforced', 'validate() does not judge PID-5 by the base datatype the profile gives it '
                         '(a value with components must be reported, a plain one must not)', version=v, structure='ADT_A01',
                         child='PID_5', text=text, errors=[e for e in errs if 'PID' in e][:5], segment='PID',
                         edits=['PID_5 XPN -> ST'], value=val)
    # ---- a profile that constrains ONE of two same-named components (the same datatype at two positions of a segment)
    def twin_fields(seg_ref):
        """(field row a, field row b, component name): two fields of one complex datatype that has a complex component"""
        by_dt = {}
        for frow in seg_ref[1]:
            fr = frow[1]
            if fr[0] == 'sequence' and any(c[1][0] == 'sequence' and len(c[1][1]) >= 2 for c in fr[1]):
                by_dt.setdefault(fr[2], []).append(frow)
        pairs = [(rows[0], rows[1]) for rows in by_dt.values() if len(rows) >= 2]
        if not pairs:
            return None
        a, b = rng.choice(pairs)
        comp = rng.choice([c for c in a[1][1] if c[1][0] == 'sequence' and len(c[1][1]) >= 2])
        return a, b, comp[0]

    def fill(fref, ec, only=None):
        """every complex component with all its subcomponents; only=<name>: that component alone, first subcomponent alone"""
        parts = []
        for j, c in enumerate(fref[1]):
            if only is not None:
                parts.append('1' if c[0] == only else '')
            elif c[1][0] == 'sequence':
                parts.append(ec['SUBCOMPONENT'].join('s%d' % k for k in range(len(c[1][1]))))
            else:
                parts.append('')
        return ec['COMPONENT'].join(parts).rstrip(ec['COMPONENT'])

    for v in S.VERSIONS:
        lib = hl7apy.load_library(v)
        ec = S.default_ec(v)
        m = 'ADT_A01'
        std = lib.MESSAGES[m]
        done = 0
        for srow in std[1]:
            if srow[3] != 'SEG' or srow[0] == 'MSH' or srow[1] is None or done >= (2 if not run.thorough else 50):
                continue
            tw = twin_fields(srow[1])
            if tw is None:
                continue
            a, b, cname = tw
            r = thaw(std)
            tsrow = [x for x in r[1] if x[0] == srow[0]][0]
            # the edit sits inside the component of the SECOND of the two fields: its subcomponents become required and,
            # where possible, change datatype; the first field (built first by the parser) keeps the standard ones
            tfb = [x for x in tsrow[1][1] if x[0] == b[0]][0]
            tc = [x for x in tfb[1][1] if x[0] == cname][0]
            for sr in tc[1][1]:
                sr[2] = [1, 1]
                if sr[1][0] == 'leaf' and sr[1][2] in BASE_SWAP and BASE_SWAP[sr[1][2]] in lib.get_base_datatypes():
                    sr[1][2] = BASE_SWAP[sr[1][2]]
            prof = {m: freeze(r)}
            done += 1
            dist['twin_component_profiles'] = dist.get('twin_component_profiles', 0) + 1
            ia, ib = int(a[0].split('_')[1]), int(b[0].split('_')[1])
            flds = [''] * max(ia, ib)
            flds[ia - 1] = fill(a[1], ec)
            flds[ib - 1] = fill(b[1], ec)
            others = [n for n in c01.instance_names(std, 'req') if n != 'MSH']
            lines = [c01.msh_line(m, v)]
            for n in others:
                lines.append(n + '|' + '|'.join(flds) if n == srow[0] else c01.canonical_line(rng, lib, ec, n))
            if srow[0] not in others:
                lines.append(srow[0] + '|' + '|'.join(flds))
            text = '\r'.join(lines)
            where = dict(version=v, structure=m, segment=srow[0], fields=[a[0], b[0]], component=cname)
            try:
                # the standard structure of the component has been built in this process before (first field, earlier runs)
                msg = parse_message(text, validation_level=S.TOLERANT, message_profile=prof)
                check_threading(msg, v, m, 'parse_message/twin-components')
                # traversal and the add_* helpers, the constrained position first
                m2 = Message(m, version=v, reference=prof, validation_level=S.TOLERANT)
                seg2 = m2.add_segment(srow[0])
                for frow in (b, a):
                    comp = getattr(getattr(seg2, frow[0].lower()), cname.lower())
                    subname = [x for x in frow[1][1] if x[0] == cname][0][1][1][1][0]
                    setattr(comp, subname.lower(), 'x')
                check_threading(m2, v, m, 'traversal/twin-components')
                m3 = Message(m, version=v, reference=prof, validation_level=S.TOLERANT)
                seg3 = m3.add_segment(srow[0])
                for frow in (a, b):
                    fld = seg3.add_field(frow[0])
                    comp = fld.add_component(cname)
                    subname = [x for x in frow[1][1] if x[0] == cname][0][1][1][0][0]
                    comp.add_subcomponent(subname).value = 'x'
                check_threading(m3, v, m, 'add_helper/twin-components')
                # the same traversal assignment under STRICT: the subcomponent is created with the datatype the profile
                # gives it (a swap is the profile's datatype, not an override)
                m4 = Message(m, version=v, reference=prof, validation_level=S.STRICT)
                seg4 = m4.add_segment(srow[0])
                comp4 = getattr(getattr(seg4, b[0].lower()), cname.lower())
                for sr in tc[1][1][:2]:
                    try:
                        setattr(comp4, sr[0].lower(), '1')
                    except (HL7apyException, ValueError) as ex:
                        if sr[1][0] == 'leaf' and sr[1][2] in ('ST', 'NM', 'SI', 'ID', 'IS', 'TX', 'FT'):
                            run.fail('child-datatype-not-from-profile', 'under STRICT a subcomponent cannot be assigned as text at a '
                                     'position whose datatype the profile sets', version=v, segment=srow[0], path=[b[0], cname, sr[0]],
                                     got=repr(ex)[:200], profile=sr[1][2], text=None, level=S.STRICT, edits=None,
                                     route='traversal/twin-components/STRICT')
                check_threading(m4, v, m, 'traversal/twin-components/STRICT')
                # validate() judges each position by the profile: leave the component of each field with its first
                # subcomponent only - the profile requires the others in the second field alone
                flds2 = list(flds)
                flds2[ia - 1] = fill(a[1], ec, only=cname)
                flds2[ib - 1] = fill(b[1], ec, only=cname)
                text2 = text.replace(srow[0] + '|' + '|'.join(flds), srow[0] + '|' + '|'.join(flds2))
                msg2 = parse_message(text2, validation_level=S.TOLERANT, message_profile=prof)
                errs = [str(e) for e in msg2.validate(return_errors=True).errors]
                want = 'Missing required child %s.' % cname
                n_missing = len([e for e in errs if e.startswith(want)])
                n_req = len(tc[1][1]) - 1
                if n_missing != n_req:
                    run.fail('profile-required-not-enforced', 'validate() does not report exactly the subcomponents the profile '
                             'requires at the one constrained position (the same component elsewhere is unconstrained)',
                             expected_missing=n_req, reported=[e for e in errs if cname in e][:6], text=text2, **where)
            except HL7apyException as ex:
                run.note('twin-component profile %s %s skipped: %r' % (v, srow[0], ex))
            except Exception as ex:  # noqa
                run.fail('profiled-parse-crashes', 'parsing / building under a profile that constrains one of two same-named '
                         'components raised a non-library exception', exc=repr(ex), text=text, **where)
    # shipped profiles
    base = os.path.join(REPO, 'tests', 'profiles')
    try:
        iti = hl7apy.load_message_profile(os.path.join(base, 'iti_21'))
        text = ('MSH|^~\\&|SENDING APP|SENDING FAC|REC APP|REC FAC|20110708162817||RSP^K22^RSP_K21|1|P|2.5|||||ITA||EN\r'
                'MSA|AA|26775702551812240|\rQAK|1|OK||1|1|0\r'
                'QPD|IHE PDQ Query|111069|@PID.3.1^1010110909194822~@PID.5.1.1^SMITH||||\r'
                'PID|1||10101109091948^^^GATEWAY&1.3.6.1.4.1.21367.2011.2.5.17&ISO||JOHN^SMITH^^^^^A||19690113|M\r')
        for lvl in (S.TOLERANT, S.STRICT):
            msg = parse_message(text, message_profile=iti, validation_level=lvl)
            if msg.qpd.qpd_3.datatype != 'QIP' or msg.qpd.allow_infinite_children:
                run.fail('child-datatype-not-from-profile', 'ITI-21 profile: QPD-3 does not take the profile datatype QIP',
                         version='2.5', segment='QPD', path=['QPD_3'], got=msg.qpd.qpd_3.datatype, profile='QIP',
                         text=text, level=lvl, edits=None)
        for lvl in (S.TOLERANT, S.STRICT):
            src = parse_message(text, validation_level=S.TOLERANT)             # no profile: QPD-3 is varies
            tgt = Message('RSP_K21', version='2.5', reference=iti, validation_level=lvl)
            try:
                tgt.qpd = src.qpd
                got = tgt.qpd.qpd_3.datatype
                if got != 'QIP' or tgt.qpd.allow_infinite_children:
                    run.fail('child-datatype-not-from-profile', 'ITI-21 profile: a QPD copied from a message without the profile '
                             '(target.qpd = source.qpd) does not take the profile datatype QIP for QPD-3', version='2.5',
                             segment='QPD', path=['QPD_3'], got=got, profile='QIP', text=text, level=lvl, edits=None)
                # (the MSH-1/MSH-2... fields pre-populated by the Message constructor are not in the property's scope)
                qrow = [row for row in tgt.reference[1] if row[0] == 'QPD'][0]
                if not same_ref(tgt.qpd[0].reference, qrow[1]):
                    run.fail('child-reference-not-from-profile', 'a child does not carry the sub-reference its parent\'s '
                             '(profile) reference declares for it', version='2.5', structure='RSP_K21', parent='RSP_K21',
                             child='QPD', cls='Segment', route='proxy-assignment/iti-21')
                check_threading(tgt.qpd[0], '2.5', 'RSP_K21', 'proxy-assignment/iti-21')
            except HL7apyException as ex:
                run.note('ITI-21 proxy copy refused: %r' % (ex,))
        for lvl in (S.TOLERANT, S.STRICT):
            # segment text in lower case keeps the profile's sub-reference
            tgt = Message('RSP_K21', version='2.5', reference=iti, validation_level=lvl)
            try:
                tgt.qpd = 'qpd|IHE PDQ Query|111069|@PID.3.1^1010110909194822'
                got = tgt.qpd.qpd_3.datatype
                if got != 'QIP' or tgt.qpd.allow_infinite_children:
                    run.fail('child-datatype-not-from-profile', 'ITI-21 profile: a QPD assigned as lower-case text does not take the '
                             'profile datatype QIP for QPD-3', version='2.5', segment='QPD', path=['QPD_3'], got=got,
                             profile='QIP', text='qpd|...', level=lvl, edits=None, route='text-assignment/lower-case')
            except HL7apyException as ex:
                run.note('ITI-21 lower-case text assignment refused: %r' % (ex,))
        legacy = hl7apy.load_message_profile(os.path.join(base, 'old_pharm_h4' + ('_win' if os.name == 'nt' else '')))
        try:
            Message('RAS_O17', reference=legacy)
            run.fail('legacy-profile-not-reported', 'a legacy-format profile does not raise LegacyMessageProfile',
                     call='Message(name, reference=profile)')
        except LegacyMessageProfile:
            pass
        # the same through the parser, in all four modes (fixed in aff5963: the parser looks the structure up itself)
        ltext = 'MSH|^~\\&|A|B|C|D|20110708162817||RAS^O17^RAS_O17|1|P|2.5\rPID|1||X||N\r'
        for lvl in (S.TOLERANT, S.STRICT):
            for fg in (True, False):
                dist['legacy_parses'] = dist.get('legacy_parses', 0) + 1
                try:
                    parse_message(ltext, validation_level=lvl, find_groups=fg, message_profile=legacy)
                    run.fail('legacy-profile-not-reported', 'parse_message with a legacy-format profile does not raise '
                             'LegacyMessageProfile', call='parse_message', level=lvl, find_groups=fg, text=ltext)
                except LegacyMessageProfile:
                    pass
                except Exception as ex:  # noqa
                    run.fail('legacy-profile-not-reported', 'parse_message with a legacy-format profile raises something '
                             'else than LegacyMessageProfile', call='parse_message', level=lvl, find_groups=fg, text=ltext,
                             exc=repr(ex))
    except (OSError, pickle.UnpicklingError) as ex:
        run.note('shipped profiles not readable: %r' % (ex,))
    run.log('message level done: %d failures' % len(run.failures))
    mp_evaluated = message_profile_collect(run, dist, mp_index, mp_future.result())
    mp_pool.shutdown()
    run.log('message-profile model evaluated %d profiled message parses, %d disagreements' % (mp_evaluated, len(run.disagreements)))
    evaluated = S.run_model(run, cases, 'c18', per_file=500)
    run.log('model evaluated %d profiled parses, %d disagreements' % (evaluated, len(run.disagreements)))
    samples = [{'version': c['v'], 'text': c['text'][:120], 'edits': [str(e) for e in c.get('edits', [])],
                'code': c['code']} for c in cases[:: max(1, len(cases) // 5)][:5]]
    run.finish({
        'evaluations': len(cases) + dist['restating'] + dist['message_profiles'] * 4 + mp_evaluated,
        'distinct_nontrivial': len(distinct),
        'rule': 'segment profiles = standard segment references of every version with 1-3 random edits (cardinality '
                'changes; base-datatype swaps at field, component or subcomponent depth), given to parse_segment in both '
                'levels on generated lines and to the Coq model as inline srefs; message profiles = one-edit (required / '
                'forbidden segment) copies of standard structures + the shipped ITI-21 and legacy profiles; message-level '
                'model correspondence (Model/MessageProf.v) = per version message structures with groups x profiles {None, '
                'empty, restating, lacking, required/forbidden segment, retyped field of a top-level segment, edit inside '
                'nested groups, differently-cased key, legacy entry} x both levels x both find_groups modes (outcome, full '
                'tree dump, encoding, validate() error keys) + Message(name, reference=profile) outcomes; distinct = '
                'distinct (version, segment, edit list)',
        'samples': samples,
        'traces_validated_against_impl': evaluated + mp_evaluated,
        'input_distribution': dist,
    }, assumptions=['profiles are Python references of the standard shape; creation through traversal/add_* helpers is '
                    'exercised by the heap checks'])


if __name__ == '__main__':
    from common import run_guarded
    run_guarded('C18', main)
