"""Heap correspondence shared by C09, C10, C11, C12: histories of public API calls over element
HANDLES, executed on hl7apy and replayed in coq/Model/Heap.v.

  * operations are plain lists (JSON-able): ['setattr', x, [names...], value] ...; elements are named
    by handle = position in the table of elements the client holds (never by object id);
  * after EVERY step the whole state reachable from the handles is dumped in a canonical form
    (breadth-first numbering from the handles; per element: class, name, datatype, level, parent
    and traversal-parent back-pointers, child order, by-name indexes, traversal indexes, leaf
    text, segment counters; per handle: to_er7) - the same format as `dump` in Model/Heap.v;
  * the Coq case files replay the histories in the model and compare a 61-bit hash of
    (outcome code, result, dump) per step INSIDE Coq, printing (history, step) of the first
    difference of each failing history;
  * shrinking = delta debugging of the operation list.
"""
import os
import sys

sys.path.insert(0, os.path.dirname(__file__))
from common import use_repo, coq_eval, coq_eval_many, parse_nat_lists, shard
from coqgen import coq_str, coq_byte, coq_opt, is_model_str

use_repo()
import hl7apy
from hl7apy.core import Segment, Field, Component, SubComponent, Element, ElementProxy, Message, Group
from hl7apy.exceptions import HL7apyException
import segcorr

STRICT, TOLERANT = 1, 2
P61 = 2 ** 61 - 1                  # folding modulo a Mersenne number is cheap inside Coq

CLS_LETTER = {'Segment': 'S', 'Field': 'F', 'Component': 'C', 'SubComponent': 's', 'Message': 'M', 'Group': 'G'}


def hash_str(s):
    return int.from_bytes(s.encode('latin-1'), 'big') % P61


def ec_for(version):
    return dict(hl7apy.get_default_encoding_chars(version))


# ------------------------------------------------------------------------------------------
# implementation side


def dopt(x):
    return '-' if x is None else "'%s'" % x


def okey(k):
    return (0, '') if k is None else (1, k)


def value_text(v, ec):
    """canonical text of the result of reading `.value`"""
    if v is None:
        return ''
    if isinstance(v, str):
        return v
    return v.to_er7(ec)


class Impl(object):
    """The implementation-side executor: a table of live elements and one method per operation."""

    def __init__(self, version):
        self.v = version
        self.ec = ec_for(version)
        self.I = []
        self.lib = hl7apy.load_library(version)

    # -- values
    def dt_obj(self, dt, text, lvl):
        cls = self.lib.get_base_datatypes()[dt]
        if dt in ('NM', 'SI'):
            text = int(text)
        try:
            return cls(text, validation_level=lvl)
        except TypeError:
            return cls(text)

    def val(self, v, lvl=TOLERANT):
        k = v[0]
        if k == 't':
            return v[1]
        if k == 'e':
            return self.I[v[1]]
        if k == 'p':
            # getattr(owner, name); name may be a dotted chain (owner.pid.pid_5): oracle-only histories
            t = self.I[v[1]]
            for n in v[2].split('.'):
                t = getattr(t, n)
            return t
        if k == 'd':
            return self.dt_obj(v[1], v[2], lvl)
        raise ValueError(v)

    def chain(self, x, names):
        t = self.I[x]
        for n in names:
            t = getattr(t, n)
        return t

    def handles_ok(self, op):
        hs = []
        k = op[0]
        if k in ('add', 'remove'):
            hs = [op[1], op[2]]
        elif k == 'insert':
            hs = [op[1], op[3]]
        elif k == 'setparent':
            hs = [op[1]] + ([op[2]] if op[2] is not None else [])
        elif k.startswith('new'):
            hs = []
        else:
            hs = [op[1]]
        for a in op:
            if isinstance(a, (list, tuple)) and a and a[0] in ('e', 'p') and isinstance(a[1], int):
                hs.append(a[1])
        return all(0 <= h < len(self.I) for h in hs)

    def apply(self, op):
        """-> (outcome code, printable result).  Effects of a raising call persist, as in Python."""
        if not self.handles_ok(op):
            self.last_code = 50
            return 50, ''
        try:
            res = self._apply(op)
            self.last_code = 0
            return 0, (res or '')
        except Exception as ex:  # noqa
            self.last_exc = ex
            self.last_code = segcorr.outcome_code(ex)
            return self.last_code, ''

    def _apply(self, op):
        I = self.I
        k = op[0]
        if k == 'newseg':
            I.append(Segment(op[2], version=self.v, validation_level=op[1]))
        elif k == 'newmsg':
            kw = {}
            if len(op) > 3 and op[3]:
                self.ec = None                # every element is encoded with the delimiters of its own message
                f, c, r, e, sc = op[3]
                kw['encoding_chars'] = {'FIELD': f, 'COMPONENT': c, 'REPETITION': r, 'ESCAPE': e, 'SUBCOMPONENT': sc,
                                        'SEGMENT': '\r', 'GROUP': '\r'}
            m = Message(op[2], version=self.v, validation_level=op[1], **kw)
            m.msh.msh_7 = '20200101'          # the constructor stamps the current time
            I.append(m)
        elif k == 'removebyname':
            I[op[1]].children.remove_by_name(op[2], op[3])
        elif k == 'insert':
            # x.children.insert(i, c): the MutableSequence API (outside the model)
            I[op[1]].children.insert(op[2], I[op[3]])
        elif k == 'addhelperchain':
            # h = x.n1...nk.add_<child>(name): the helper called on whatever the chain resolves to (outside the model)
            t = self.chain(op[1], op[2])
            f = {'Segment': 'add_field', 'Field': 'add_component', 'Component': 'add_subcomponent',
                 'Message': 'add_segment', 'Group': 'add_segment'}[t.classname if hasattr(t, 'classname') else t[0].classname]
            I.append(getattr(t, f)(op[3]))
        elif k == 'newchild':
            # Field / Component / SubComponent(name, datatype=..., parent=x): construction with a parent (outside the model)
            cls = {'Segment': Field, 'Field': Component, 'Component': SubComponent}[I[op[1]].classname]
            I.append(cls(op[2], datatype=op[3], parent=I[op[1]], version=self.v, validation_level=I[op[1]].validation_level))
        elif k == 'setvaluenone':
            t = self.chain(op[1], op[2])
            t.value = None
        elif k == 'addsegment':
            I.append(I[op[1]].add_segment(op[2]))
        elif k == 'addgroup':
            I.append(I[op[1]].add_group(op[2]))
        elif k == 'newfield':
            I.append(Field(op[2], datatype=op[3], version=self.v, validation_level=op[1]))
        elif k == 'newcomp':
            I.append(Component(op[2], datatype=op[3], version=self.v, validation_level=op[1]))
        elif k == 'newsub':
            I.append(SubComponent(op[2], datatype=op[3], value=(op[4] or None), version=self.v, validation_level=op[1]))
        elif k == 'add':
            I[op[1]].add(I[op[2]])
        elif k == 'setattr':
            v = self.val(op[3], I[op[1]].validation_level)
            t = self.chain(op[1], op[2][:-1])
            setattr(t, op[2][-1], v)
        elif k == 'setindex':
            v = self.val(op[4], I[op[1]].validation_level)
            t = self.chain(op[1], op[2])
            t[op[3]] = v
        elif k == 'setlistindex':
            v = self.val(op[3], I[op[1]].validation_level)
            I[op[1]].children[op[2]] = v
        elif k == 'delattr':
            t = self.chain(op[1], op[2][:-1])
            delattr(t, op[2][-1])
        elif k == 'delindex':
            t = self.chain(op[1], op[2])
            del t[op[3]]
        elif k == 'dellistindex':
            del I[op[1]].children[op[2]]
        elif k == 'remove':
            I[op[1]].children.remove(I[op[2]])
        elif k == 'addhelper':
            x = I[op[1]]
            f = {'Segment': 'add_field', 'Field': 'add_component', 'Component': 'add_subcomponent'}[x.classname]
            I.append(getattr(x, f)(op[2]))
        elif k == 'grab':
            t = self.chain(op[1], op[2])
            I.append(t[op[3]])
        elif k == 'grablist':
            I.append(I[op[1]].children[op[2]])
        elif k == 'read':
            t = self.chain(op[1], op[2])
            repr(t)
            return ','.join(str(c.name) for c in t.list)
        elif k == 'readvalue':
            t = self.chain(op[1], op[2])
            return value_text(t.value, self.ec)
        elif k == 'len':
            t = self.chain(op[1], op[2])
            return '%d:%s' % (len(t), ','.join(str(c.name) for c in t))
        elif k == 'lenlist':
            ch = I[op[1]].children
            return '%d:%s' % (len(ch), ','.join(str(c.name) for c in ch))
        elif k == 'toer7':
            return I[op[1]].to_er7(self.ec) + '\\' + I[op[1]].to_er7(self.ec, trailing_children=True)
        elif k == 'setvaluechain':
            t = self.chain(op[1], op[2])
            t.value = op[3]
        elif k == 'setvalue':
            I[op[1]].value = op[2]
        elif k == 'setvaluedt':
            I[op[1]].value = self.dt_obj(op[2], op[3], I[op[1]].validation_level)
        elif k == 'setdatatype':
            I[op[1]].datatype = op[2]
        elif k == 'setparent':
            I[op[1]].parent = None if op[2] is None else I[op[2]]
        else:
            raise ValueError('unknown op %r' % (op,))
        return ''

    # -- canonical dump (format of Model/Heap.v `dump`)
    def order(self):
        order, seen = [], {}
        for x in self.I:
            if id(x) not in seen:
                seen[id(x)] = len(order)
                order.append(x)
        i = 0
        while i < len(order) and i < 2000:
            x = order[i]
            nb = []
            if x._parent is not None:
                nb.append(x._parent)
            if getattr(x, '_traversal_parent', None) is not None:
                nb.append(x._traversal_parent)
            ch = x.children
            nb.extend(ch.list)
            for kk in sorted(ch.indexes, key=okey):
                nb.extend(ch.indexes[kk])
            for kk in sorted(ch.traversal_indexes, key=okey):
                nb.extend(ch.traversal_indexes[kk])
            for y in nb:
                if id(y) not in seen:
                    seen[id(y)] = len(order)
                    order.append(y)
            i += 1
        return order, seen

    def dump(self):
        order, seen = self.order()
        num = lambda y: str(seen[id(y)]) if id(y) in seen else '?'
        nums = lambda l: ','.join(num(y) for y in l)
        dmap = lambda m: ''.join('%s=%s;' % (dopt(kk), nums(m[kk])) for kk in sorted(m, key=okey))
        out = []
        for x in order:
            cn = x.classname
            ch = x.children
            tail = ''
            if cn == 'SubComponent':
                try:
                    tail = 'V{%s}' % x.to_er7(self.ec)
                except Exception as ex:  # noqa
                    tail = 'V{!%d}' % segcorr.outcome_code(ex)
            elif cn == 'Segment':
                tail = 'N(%s,%d,%d)' % ('inf' if x.allow_infinite_children else 'fin', x._last_allowed_child_index,
                                        x._last_child_index)
            out.append('%s:%s(%s,%s,%d)P%sT%sL[%s]I{%s}X{%s}%s\n' % (
                num(x), CLS_LETTER.get(cn, '?'), dopt(x.name), dopt(None if cn in ('Segment', 'Message', 'Group') else x.datatype),
                x.validation_level, '-' if x._parent is None else num(x._parent),
                '-' if getattr(x, '_traversal_parent', None) is None else num(x._traversal_parent),
                nums(ch.list), dmap(ch.indexes), dmap(ch.traversal_indexes), tail))
        for h in self.I:
            try:
                e = h.to_er7(self.ec)
                if h.classname == 'Segment':
                    e += '\\' + h.to_er7(self.ec, trailing_children=True)
            except Exception as ex:  # noqa
                e = '!%d' % segcorr.outcome_code(ex)
            out.append('E%s{%s}\n' % (num(h), e))
        return ''.join(out)

    def observe(self, code, res):
        return '%d|%s\n%s' % (code, res, self.dump())


def run_history(version, ops, hook=None):
    """Execute ops on a fresh implementation state.  hook(impl, k, op, phase, data) is called with
    phase 'before' and 'after' (data = (code, res) for 'after').  Returns (impl, observations)."""
    impl = Impl(version)
    obs = []
    for k, op in enumerate(ops):
        if hook:
            hook(impl, k, op, 'before', None)
        code, res = impl.apply(op)
        if hook:
            hook(impl, k, op, 'after', (code, res))
        obs.append(impl.observe(code, res))
    return impl, obs


# ------------------------------------------------------------------------------------------
# generator

CANON = {
    'DT': ['20200101', '2020'], 'DTM': ['20200101', '2020'], 'TM': ['1200', '12'], 'NM': ['1', '15'],
    'SI': ['1', '12'], 'ST': ['a', 'bc', 'x y', 'a\\F\\b', 'q'], 'ID': ['A', 'Y'], 'IS': ['A', 'B'],
    'TX': ['text'], 'FT': ['ft'], 'WD': ['w'], 'GTS': ['g'], 'SNM': ['s1'], 'CM': ['cm'], 'TN': ['5551234'],
}
TEXTUAL = ('ST', 'ID', 'IS', 'TX', 'FT', 'WD', 'GTS', 'SNM', 'CM')


def leaf_pool(dt):
    return CANON.get(dt, ['q', 'r'])


def gen_text(rng, ref, depth, ec, messy):
    """text for one field repetition (depth 0), component (1) or subcomponent (2) described by ref"""
    seps = (ec['COMPONENT'], ec['SUBCOMPONENT'])
    if ref is None:
        return rng.choice(['n', 'm'])
    if ref[0] == 'leaf' or depth >= 2 or not ref[1]:
        dt = ref[2] if len(ref) > 2 else 'ST'
        if dt == 'varies':
            return rng.choice(['v', 'w', 'v' + seps[0] + 'w']) if depth == 0 else rng.choice(['v', 'w'])
        t = rng.choice(leaf_pool(dt))
        if messy and depth < 2 and rng.random() < .15:
            t += seps[depth] + rng.choice(['e', 'f'])
        return t
    n = len(ref[1])
    k = rng.randint(1, min(n, 5))
    parts = []
    for j in range(k):
        if rng.random() < .65 or j == k - 1:
            parts.append(gen_text(rng, ref[1][j][1], depth + 1, ec, messy))
        else:
            parts.append('')
    return seps[depth].join(parts)


def first_leaf_dt(ref):
    """datatype of the first leaf below a reference (the position a delimiter-free text lands on)"""
    for _ in range(4):
        if ref is None:
            return 'ST'
        if ref[0] == 'leaf' or not ref[1]:
            return ref[2] if len(ref) > 2 else 'ST'
        ref = ref[1][0][1]
    return None


class Gen(object):
    """Random histories.  The generator looks at the live implementation state to choose applicable
    operands (handles, child names, indices); the recorded history is replayable from scratch."""

    SEGMENTS = {
        '2.5': ['PID', 'PID', 'PID', 'OBX', 'QPD', 'ZXX', 'NK1'],
    }

    def __init__(self, rng, version, lvl, profile='segment', nsteps=14):
        self.rng = rng
        self.v = version
        self.lvl = lvl
        self.profile = profile
        self.nsteps = nsteps
        self.impl = Impl(version)
        self.lib = self.impl.lib
        self.ops = []
        self.obs = []
        self.codes = []
        self.segname = rng.choice(self.SEGMENTS.get(version, ['PID', 'OBX', 'ZXX']))
        if profile == 'open':
            # segments that take fields beyond their structure: Z-segments and (2.5) the query segment QPD
            self.segname = rng.choice(['ZXX', 'ZIN'] + (['QPD'] if 'QPD' in self.impl.lib.SEGMENTS else []))
        self.pool = {}
        self.pending = []

    # -- structure knowledge
    def child_rows(self, x):
        """[(name, ref, long_name)] of the children the structure of x defines"""
        sbn = getattr(x, 'structure_by_name', None)
        rows = []
        if isinstance(sbn, dict):
            for k in x.ordered_children:
                r = sbn[k]['ref']
                rows.append((k, r, r[3] if len(r) > 3 else None))
        return rows

    def names_for(self, x):
        """candidate child names (canonical) of x with their references, a small stable pool per element name"""
        key = (x.classname, x.name, None if x.classname == 'Segment' else x.datatype)
        if key in self.pool:
            return self.pool[key]
        rng = self.rng
        rows = self.child_rows(x)
        out = []
        if x.classname == 'Segment':
            if rows:
                idx = list(range(len(rows)))
                # prefer the first fields and the repeatable ones
                rep = [i for i in idx if x.repetitions.get(rows[i][0], (0, 1))[1] != 1]
                pick = set(idx[:3]) | set(rng.sample(rep, min(2, len(rep)))) | set(rng.sample(idx, min(2, len(idx))))
                out = [rows[i] for i in sorted(pick)]
            if x.allow_infinite_children:
                n = x._last_allowed_child_index
                for i in ((n + 1, n + 2, n + 3, n + 5) if self.profile == 'open' else (n + 1, n + 3)):
                    nm = '%s_%d' % (x.name, i)
                    dt = 'ST' if x.name.startswith('Z') else 'varies'
                    out.append((nm, ('leaf', None, dt, None, None, -1), None))
        else:
            dt = x.datatype
            if dt == 'varies':
                out = [('VARIES_%d' % i, ('leaf', None, 'varies', None, None, -1), None) for i in (1, 2, 3)]
            elif dt is not None and self.lib.is_base_datatype(dt):
                out = [(dt, ('leaf', None, dt, None, None, -1), None)]
            elif rows:
                idx = list(range(len(rows)))
                cx = [i for i in idx if rows[i][1][0] == 'sequence']
                pick = set(idx[:3]) | set(cx[:2])
                out = [rows[i] for i in sorted(pick)]
        self.pool[key] = out
        return out

    def style(self, x, row):
        """a way of writing the child name `row` of x: lower / upper / long name / positional"""
        rng = self.rng
        nm, ref, long_name = row
        r = rng.random()
        if r < .12:
            return nm
        if r < .27 and long_name:
            cand = long_name.lower() if rng.random() < .8 else long_name
            # a long name that is also an attribute of the class (NK1.name, OBX.value...) is shadowed
            if cand not in dir(x) and cand not in x.cls_attrs:
                return cand
        if r < .40 and x.classname == 'Field' and x.name and '_' in nm:
            try:
                return ('%s_%d' % (x.name, int(nm.rsplit('_', 1)[1]))).lower()
            except ValueError:
                pass
        return nm.lower()

    def bad_name(self, x):
        if x.classname == 'Segment' and x.name and self.rng.random() < .35:
            # positions that are not plainly written numbers starting at 1 name no child (fix f798674)
            return '%s_%s' % (x.name.lower(), self.rng.choice(['0', '07', '-1', '01', '1x', '+2']))
        return self.rng.choice(['msh_3', 'foo', 'evn_1', 'cx_1', 'hd_2', 'zzz_1', 'pid_99', 'xpn_77', 'pid_3_99', 'si'])

    def text_for(self, row, depth, lvl):
        rng = self.rng
        r = rng.random()
        if r < .05:
            return ''
        if r < .12 and first_leaf_dt(row[1]) in TEXTUAL:
            return 'X' * 210
        if r < .18 and depth < 2:
            # more parts than the structure has (rejected under STRICT at some position)
            sep = (self.impl.ec['COMPONENT'], self.impl.ec['SUBCOMPONENT'])[depth]
            return sep.join([('k' if lvl == TOLERANT else '2020')] * rng.choice([2, 3, 12]))
        return gen_text(rng, row[1], depth, self.impl.ec, messy=(lvl == TOLERANT and rng.random() < .3))

    def depth_of(self, x):
        return {'Segment': 0, 'Field': 1, 'Component': 2}.get(x.classname, 3)

    def value_for(self, x, row):
        """a right-hand side for an assignment to child `row` of x"""
        rng = self.rng
        I = self.impl.I
        r = rng.random()
        d = self.depth_of(x)
        child_cls = {0: Field, 1: Component, 2: SubComponent}.get(d)
        if r < .62 or child_cls is None:
            return ['t', self.text_for(row, d, x.validation_level)]
        if r < .80:
            cands = [i for i, y in enumerate(I) if type(y) is child_cls]
            if cands:
                same = [i for i in cands if I[i].name == row[0]]
                return ['e', rng.choice(same) if same and rng.random() < .8 else rng.choice(cands)]
        if r < .92:
            owners = [i for i, y in enumerate(I) if type(y) is type(x)]
            if owners:
                return ['p', rng.choice(owners), self.style(x, row)]
        if r < .97:
            dt = row[1][2] if row[1] is not None and len(row[1]) > 2 else None
            if (dt in TEXTUAL or dt in ('NM', 'SI')) and self.lib.is_base_datatype(dt):
                return ['d', dt, rng.choice(leaf_pool(dt))]
            return ['d', 'ST', 'z']
        return ['t', self.text_for(row, d, x.validation_level)]

    def other_lvl(self):
        return STRICT if self.lvl == TOLERANT else TOLERANT

    # -- one step
    def pop_pending(self):
        op = self.pending.pop(0)
        return op(self) if callable(op) else op

    def gen_op(self):
        if self.pending:
            return self.pop_pending()
        op = self.gen_op_()
        rng = self.rng
        # read first, then write through the same chain (or to an element in the middle of it): what the
        # read created lazily must not change what the write produces
        if op[0] in ('readvalue', 'len') and rng.random() < .45:
            names = op[2]
            x = op[1]
            X = self.impl.I[x]
            if len(names) >= 2 and rng.random() < .6:
                cut = rng.randint(1, len(names) - 1) if rng.random() < .5 else len(names)
            else:
                cut = len(names)
            txt = '2020' if X.validation_level == STRICT else rng.choice(['w', 'v^u', 'q'])
            if len(names) == 1 and rng.random() < .55 and isinstance(X, (Segment, Field, Component)):
                # the read left a traversal placeholder; real repetitions are now created with add_<child>
                # (which does not consume it) and then addressed from the end
                nm = names[0]
                last = lambda g: len(g.impl.I) - 1
                for val in ('2020', '2021'):
                    self.pending.append(['addhelper', x, nm])
                    self.pending.append(lambda g, val=val: (['setvalue', last(g), val]
                                                            if not isinstance(g.impl.I[last(g)], Segment) else ['lenlist', 0]))
                k2 = -rng.randint(1, 2)
                if rng.random() < .6:
                    self.pending.append(['setindex', x, [nm], k2, ['t', txt]])
                else:
                    self.pending.append(['removebyname', x, nm.upper() if rng.random() < .7 else nm, k2])
            elif rng.random() < .35:
                # ... or through .value: the read-created element is promoted by the proxy
                self.pending.append(['setvaluechain', x, names[:cut], txt.replace('^', '')])
            else:
                self.pending.append(['setattr', x, names[:cut], ['t', txt]])
        elif ((op[0] == 'setattr' and op[3][0] == 't') or op[0] == 'setvaluechain') and rng.random() < .4 \
                and (len(op[2]) >= 2 or op[0] == 'setvaluechain'):
            # a write through a chain, then the whole-element assignment / deletion of an element of that chain:
            # what the write created is an ordinary child (replaced in place, deleted)
            names = op[2]
            x = op[1]
            X = self.impl.I[x]
            top = len(names) - 1 if op[0] == 'setattr' else len(names)
            cut = rng.randint(1, max(1, top))
            # a value every base datatype takes under both levels: the element may later be copied (as text) into a STRICT
            # tree, and the numeric / date layer of STRICT is not part of the leaf function of this correspondence
            txt = '2020' if X.validation_level == STRICT else rng.choice(['2020', '12'])
            r = rng.random()
            if r < .55:
                self.pending.append(['setattr', x, names[:cut], ['t', txt]])
            elif r < .8:
                self.pending.append(['delattr', x, names[:cut]])
            else:
                self.pending.append(['delindex', x, names[:cut], 0])
        return op

    def gen_op_(self):
        rng = self.rng
        I = self.impl.I
        parents = [i for i, y in enumerate(I) if isinstance(y, (Segment, Field, Component))]
        segs = [i for i, y in enumerate(I) if isinstance(y, Segment)]
        lvl = self.lvl if rng.random() < .9 else self.other_lvl()
        if not segs or (len(segs) < 2 and rng.random() < .12):
            return ['newseg', self.lvl if rng.random() < .95 else self.other_lvl(), self.segname]
        if self.profile == 'reps' and not getattr(self, 'seeded', False):
            # the 'reps' profile starts from a child with four repetitions (A~B~C~D), so that inner repetitions
            # can be addressed from both ends
            self.seeded = True
            X = I[segs[0]]
            rows = [r for r in self.child_rows(X) if X.repetitions.get(r[0], (0, 1))[1] != 1]
            if rows:
                row = rng.choice(rows[:4])
                self.pool[(X.classname, X.name, None)] = [row] + [r for r in self.names_for(X) if r[0] != row[0]][:2]
                for j in range(4):
                    self.pending.append(['setindex', segs[0], [row[0].lower()], j,
                                         ['t', gen_text(rng, row[1], 0, self.impl.ec, False)]])
                return self.pending.pop(0)
        # the target: mostly a segment in the 'segment' profile, anything in the 'deep' profile
        if self.profile in ('segment', 'reps') and rng.random() < .8:
            x = rng.choice(segs)
        else:
            x = rng.choice(parents)
        X = I[x]
        kind = rng.choices(
            ['setattr', 'setindex', 'setlistindex', 'add', 'new', 'addhelper', 'delattr', 'delindex', 'dellistindex',
             'remove', 'grab', 'grablist', 'read', 'readvalue', 'len', 'lenlist', 'toer7', 'setvaluechain', 'setvalue',
             'chainset', 'setdatatype', 'setparent', 'setvaluedt', 'removebyname', 'setvaluenone'],
            [20, 9, 4, 8, 7, 5, 4, 4, 2,
             3, 7, 4, 2, 5, 2, 1.5, 1, 6, 4,
             9, 1.5, 1.5, 1.5, 2.5, 2])[0]
        rows = self.names_for(X)
        row = rng.choice(rows) if rows else ('FOO_1', None, None)
        # prefer names the element already has children for (collisions are where the bugs are)
        have = [c.name for c in X.children.list if c.name]
        p_have = .9 if kind in ('grab', 'delindex', 'delattr', 'removebyname') else .5
        if have and rng.random() < p_have:
            nm = rng.choice(have)
            multi = [n for n in have if have.count(n) >= 2]
            if multi and kind in ('setindex', 'delindex', 'grab') and rng.random() < .7:
                nm = rng.choice(multi)
            for cand in rows + self.child_rows(X):
                if cand[0] == nm:
                    row = cand
                    break
        name = self.style(X, row) if rng.random() < .93 else self.bad_name(X)
        n_have = len(X.children.indexes.get(row[0], []))
        if n_have and rng.random() < .7:
            i = rng.randrange(0, n_have)
        else:
            i = rng.choice([n_have, n_have, n_have + 1, 0])
        if kind in ('setindex', 'delindex', 'grab', 'removebyname') and n_have and rng.random() < .3:
            # Python's negative indexes: -1 is the last repetition; one beyond the first is absent
            i = -rng.randint(1, n_have + 1)
        if kind == 'setindex' and n_have < 4 and rng.random() < .35:
            # grow the repetitions of a repeatable child (negative indexes need something to count from)
            i = n_have
        if kind in ('setindex', 'delindex') and n_have >= 3 and rng.random() < .5:
            # an inner repetition addressed from the end: -2 ... -n
            i = -rng.randint(2, n_have)
        d = self.depth_of(X)
        if kind == 'delattr' and n_have and d < 2 and rng.random() < .5 and row[1] is not None:
            # every repetition of the name is deleted by name, the child is created again, and then written below
            # THROUGH the name: the write lands in the one repetition there is
            txt = self.text_for(row, d, X.validation_level)
            ref = row[1]
            if ref[0] == 'sequence' and ref[1]:
                c = rng.choice(ref[1][:4])
                sub, subtxt = c[0].lower(), gen_text(rng, c[1], d + 1, self.impl.ec, False)
            else:
                sub = (ref[2] if len(ref) > 2 and ref[2] else 'ST').lower()
                subtxt = rng.choice(leaf_pool(sub.upper()))
            self.pending += [['delattr', x, [name]]] * (n_have - 1)
            self.pending.append(['setattr', x, [name], ['t', txt]])
            self.pending.append(['setattr', x, [name, sub], ['t', subtxt]])
            if rng.random() < .5:
                self.pending.append(['delindex', x, [name], 0])
            return ['delattr', x, [name]]
        if kind == 'addhelper' and X.classname == 'Field' and rng.random() < .6 and row[0] and '_' in row[0]:
            # a component repeated with add_component, then assigned by POSITION at field level (pid_5_2 = ...): the
            # first repetition is the one addressed
            last = lambda g: len(g.impl.I) - 1
            cname = row[0]
            try:
                pos = ('%s_%d' % (X.name, int(cname.rsplit('_', 1)[1]))).lower() if X.name else cname.lower()
            except ValueError:
                pos = cname.lower()
            for val in ('u', 'w'):
                self.pending.append(['addhelper', x, cname])
                self.pending.append(lambda g, val=val: (['setvalue', last(g), val if g.impl.I[last(g)].validation_level != STRICT
                                                          else '2020'] if not isinstance(g.impl.I[last(g)], Segment)
                                                        else ['lenlist', 0]))
            self.pending.append(['setattr', x, [pos if rng.random() < .8 else cname.lower()],
                                 ['t', gen_text(rng, row[1], 1, self.impl.ec, False)]])
            return self.pending.pop(0)
        if kind == 'new' and d == 1 and rng.random() < .3:
            # a component without a name of its own (called like its datatype), attached, whose datatype changes
            # afterwards - directly, or from the field
            last = lambda g: len(g.impl.I) - 1
            dt0 = rng.choice(['ST', 'ST', 'ID'])
            c = len(I)                   # the handle the component below is going to get
            isc = lambda g: c < len(g.impl.I) and isinstance(g.impl.I[c], Component)
            self.pending.append(lambda g: ['add', x, c] if isc(g) else ['lenlist', x])
            if rng.random() < .7:
                self.pending.append(lambda g: ['setdatatype', c, rng.choice(['ID', 'NM', 'ST', 'IS'])] if isc(g) else ['lenlist', x])
            else:
                self.pending.append(['setdatatype', x, rng.choice(['NM', 'ID', 'ST'])])
            self.pending.append(['lenlist', x])
            return ['newcomp', lvl, None, dt0]
        if kind == 'setattr':
            return ['setattr', x, [name], self.value_for(X, row)]
        if kind == 'setindex':
            return ['setindex', x, [name], i, self.value_for(X, row)]
        if kind == 'setlistindex':
            n = len(X.children)
            j = rng.randrange(0, n) if n and rng.random() < .85 else n
            if j < len(X.children):
                # a value that suits the child actually stored at that position
                nm = X.children[j].name
                for cand in self.child_rows(X) + rows:
                    if cand[0] == nm:
                        row = cand
                        break
                else:
                    return ['setlistindex', x, j, ['t', rng.choice(['1', '12'])]]
            return ['setlistindex', x, j, self.value_for(X, row)]
        if kind == 'new':
            if d == 0:
                return ['newfield', lvl, row[0] if rng.random() < .9 else None, None]
            if d == 1:
                if rng.random() < .2:
                    return ['newcomp', lvl, None, rng.choice(['ST', 'CX', 'HD'])]
                return ['newcomp', lvl, row[0], None]
            if rng.random() < .3:
                return ['newsub', lvl, None, 'ST', rng.choice(['', 'u'])]
            return ['newsub', lvl, row[0], None, rng.choice(['', 'u'])]
        if kind == 'add':
            child_cls = {0: Field, 1: Component, 2: SubComponent}.get(d)
            cands = [j for j, y in enumerate(I) if type(y) is child_cls]
            if not cands or rng.random() < .05:
                cands = [j for j in range(len(I)) if j != x] or cands
            if not cands:
                return ['newfield', lvl, row[0], None]
            return ['add', x, rng.choice(cands)]
        if kind == 'addhelper':
            return ['addhelper', x, rng.choice([row[0], row[0].lower(), name])]
        if kind == 'delattr':
            return ['delattr', x, [name]]
        if kind == 'delindex':
            return ['delindex', x, [name], i]
        if kind == 'removebyname':
            return ['removebyname', x, row[0] if rng.random() < .7 else name, i]
        if kind == 'dellistindex':
            n = len(X.children)
            return ['dellistindex', x, rng.randrange(0, n) if n and rng.random() < .85 else n]
        if kind == 'remove':
            cands = [j for j, y in enumerate(I) if y._parent is X or rng.random() < .1]
            if not cands:
                return ['lenlist', x]
            return ['remove', x, rng.choice(cands)]
        if kind == 'grab':
            return ['grab', x, [name], i]
        if kind == 'grablist':
            n = len(X.children)
            return ['grablist', x, rng.randrange(0, n) if n and rng.random() < .85 else n]
        if kind == 'lenlist':
            return ['lenlist', x]
        if kind == 'toer7':
            return ['toer7', x]
        if kind == 'setvalue':
            if d == 0:
                return ['toer7', x]
            ref = X.__dict__.get('reference')
            if ref is None and d < 3:
                ref = ('leaf', None, X.datatype or 'ST', None, None, -1)
            if d == 3:
                return ['setvalue', x, rng.choice(['u', 'w', '', 'X' * 210] if X.datatype in TEXTUAL else ['1', '12', ''])]
            return ['setvalue', x, self.text_for((X.name, ref, None), d - 1, X.validation_level)]
        if kind == 'setvaluedt':
            if d == 0:
                return ['toer7', x]
            return ['setvaluedt', x, rng.choice(['ST', 'ST', 'ID', 'NM']), rng.choice(['1', '2'])]
        if kind == 'setdatatype':
            if d == 0:
                return ['toer7', x]
            return ['setdatatype', x, rng.choice(['ST', 'CX', 'HD', 'CE', None, 'varies', 'ID', 'XPN'])]
        if kind == 'setparent':
            # only class-correct pairs: a back-pointer cycle (f.parent = f is refused but keeps the
            # pointer) makes hl7apy recurse forever in encoding_chars, which is outside the model
            child_cls = {0: Field, 1: Component, 2: SubComponent}.get(d)
            cands = [j for j, y in enumerate(I) if type(y) is child_cls]
            if not cands:
                return ['lenlist', x]
            c = rng.choice(cands)
            if rng.random() < .4:
                return ['setparent', c, None]
            return ['setparent', c, x]
        # chains: read / readvalue / len / setvaluechain / chainset walk 1-3 links below x
        names = [name]
        cur_rows = rows
        cur_row = row
        depth = d
        nlinks = rng.choice([1, 1, 2, 2, 3]) if kind != 'chainset' else rng.choice([2, 2, 3])
        if kind == 'setvaluenone':
            nlinks = 3 - d if d < 3 else 1        # aim at a subcomponent: x.field.component.subcomponent.value = None
        # descend through the structure of the references (no live elements needed)
        while len(names) < nlinks and depth < 2 and cur_row[1] is not None:
            ref = cur_row[1]
            if ref[0] != 'sequence' or not ref[1]:
                dt = ref[2] if len(ref) > 2 else None
                if dt == 'varies' and depth == 0:
                    n = rng.choice([1, 2, 2])
                    names.append('varies_%d' % n)
                    cur_row = ('VARIES_%d' % n, ('leaf', None, 'varies', None, None, -1), None)
                    depth += 1
                    break
                if dt is None or dt == 'varies':
                    break
                sub = (dt, ('leaf', None, dt, None, None, -1), None)
                names.append(dt.lower() if rng.random() < .8 else self.bad_name(X))
                cur_row = sub
                depth += 1
                continue
            kids = ref[1][:4]
            c = rng.choice(kids)
            cur_row = (c[0], c[1], c[1][3] if len(c[1]) > 3 else None)
            r = rng.random()
            if r < .15 and cur_row[2] and cur_row[2].lower() not in dir(X) and cur_row[2].lower() not in Element.cls_attrs \
                    and cur_row[2].lower() not in ('datatype', 'max_length'):
                names.append(cur_row[2].lower())
            elif r < .30 and depth == 0 and X.classname == 'Segment':
                # positional path below the field: pid_3_1
                names.append(('%s_%s' % (row[0], c[0].rsplit('_', 1)[1])).lower())
            elif r < .36:
                names.append(self.bad_name(X))
            else:
                names.append(c[0].lower())
            depth += 1
        if kind == 'read':
            return ['read', x, names]
        if kind == 'len':
            return ['len', x, names]
        if kind == 'readvalue':
            return ['readvalue', x, names]
        if kind == 'setvaluechain':
            return ['setvaluechain', x, names, self.text_for(cur_row, min(depth, 2), X.validation_level)]
        if kind == 'setvaluenone':
            return ['setvaluenone', x, names]
        # chainset
        if len(names) < 2:
            return ['setattr', x, [name], self.value_for(X, row)]
        return ['setattr', x, names, ['t', self.text_for(cur_row, min(depth, 2), X.validation_level)]]

    def step(self, hook=None):
        op = self.gen_op()
        k = len(self.ops)
        if hook:
            hook(self.impl, k, op, 'before', None)
        code, res = self.impl.apply(op)
        if hook:
            hook(self.impl, k, op, 'after', (code, res))
        self.ops.append(op)
        self.codes.append(code)
        self.obs.append(self.impl.observe(code, res))
        return op, code, res

    def run(self, hook=None):
        for _ in range(self.nsteps):
            self.step(hook)
        return self


class MsgGen(object):
    """Random histories on Message / Group parents (ADT_A01, ORU_R01, OML_O33 ...): segments and groups are
    assigned, replaced, deleted and copied by name / index / proxy, read lazily and then written.  These
    parents are outside the Coq model: the histories are judged by the implementation-side oracles only."""

    STRUCTS = ['ADT_A01', 'ORU_R01', 'OML_O33']

    def __init__(self, rng, version, lvl, nsteps=12):
        self.rng = rng
        self.v = version
        self.lvl = lvl
        self.nsteps = nsteps
        self.impl = Impl(version)
        self.ops = []
        self.codes = []
        self.pending = []
        self.struct = rng.choice(self.STRUCTS)
        # a third of the histories use a message with its own encoding characters (field, component,
        # repetition, escape, subcomponent)
        self.ecs = rng.choice([None, None, '#$*!@', '#$*!@', ';:+?%'])
        if self.ecs:
            self.impl.ec = None          # every element is encoded with the delimiters of its own message

    def pop_pending(self):
        op = self.pending.pop(0)
        return op(self) if callable(op) else op

    def delim(self, text, x=None):
        """rewrite a text written with the default delimiters into the delimiters of this history (of the message
        the element x belongs to, when given)"""
        ecs = self.ecs
        if x is not None:
            try:
                ec = x.encoding_chars
                ecs = ec['FIELD'] + ec['COMPONENT'] + ec['REPETITION'] + ec['ESCAPE'] + ec['SUBCOMPONENT']
                if ecs == '|^~\\&':
                    ecs = None
            except Exception:  # noqa
                pass
        if not ecs:
            return text
        f, c, r, e, sc = ecs
        return text.translate({ord('|'): f, ord('^'): c, ord('~'): r, ord('\\'): e, ord('&'): sc})

    def rows(self, x):
        sbn = x.__dict__.get('structure_by_name')
        out = []
        if isinstance(sbn, dict):
            for k in x.ordered_children:
                out.append((k, sbn[k]['cls'].__name__, sbn[k]['ref']))
        return out

    def seg_text(self, name, n, x=None):
        if name == 'MSH':
            return None
        return self.delim(self.rng.choice(['%s|%d', '%s|%d||x^y', '%s|%d|a&b^c']) % (name, n), x)

    def group_text(self, x, gname, gref):
        """ER7 of a few leading segments of a group"""
        rng = self.rng
        segs = []
        for row in gref[1][:3]:
            if row[3] == 'SEG' and rng.random() < .8:
                segs.append(self.delim(rng.choice(['%s|%d', '%s|%d', '%s|%d||a&b^c']) % (row[0], rng.randint(1, 9)), x))
        if not segs:
            segs = [self.delim('%s|1' % gref[1][0][0], x)] if gref[1][0][3] == 'SEG' else []
        return '\r'.join(segs)

    def gen_op(self):
        if self.pending:
            return self.pop_pending()
        rng = self.rng
        I = self.impl.I
        msgs = [i for i, y in enumerate(I) if isinstance(y, Message)]
        if not msgs or (len(msgs) < 2 and rng.random() < .25):
            ecs = self.ecs
            if msgs and rng.random() < .5:
                # a second message with OTHER delimiters: copies between the two are by value
                ecs = rng.choice([e for e in (None, '#$*!@', ';:+?%') if e != self.ecs])
                self.impl.ec = None
            return ['newmsg', self.lvl, self.struct, ecs]
        tops = [i for i, y in enumerate(I) if isinstance(y, (Message, Group))]
        x = rng.choice(tops) if rng.random() < .3 else rng.choice(msgs)
        X = I[x]
        rows = [r for r in self.rows(X) if r[0] != 'MSH']
        if not rows:
            return ['lenlist', x]
        have = [c.name for c in X.children.list if c.name and c.name != 'MSH']
        row = rng.choice(rows[:7])
        if have and rng.random() < .5:
            nm = rng.choice(have)
            row = next((r for r in rows if r[0] == nm), row)
        name, cls, ref = row
        n_have = len(X.children.indexes.get(name, []))
        i = rng.randrange(0, n_have) if n_have and rng.random() < .7 else rng.choice([n_have, n_have + 1, 0])
        if n_have and rng.random() < .2:
            i = -rng.randint(1, n_have + 1)
        text = self.seg_text(name, rng.randint(1, 9), X) if cls == 'Segment' else self.group_text(X, name, ref)
        kind = rng.choices(['set', 'setidx', 'addhelper', 'del', 'delidx', 'copy', 'setel', 'chain', 'readchain', 'grab',
                            'len', 'wrong', 'value', 'placeholder', 'rmname'],
                           [16, 8, 7, 5, 4, 7, 4, 10, 10, 5, 3, 3, 9, 6, 3])[0]
        nl = name.lower()
        if len(msgs) >= 2 and rng.random() < .12 and \
                any(I[j].encoding_chars != I[msgs[0]].encoding_chars for j in msgs[1:]):
            kind = 'copy'               # two messages with different delimiters: copies between them
        if kind == 'value' and text:
            # parent.child.value = text: replaces the content of the first repetition, or appends when absent
            return ['setvaluechain', x, [nl], text]
        if kind == 'rmname':
            return ['removebyname', x, name, i]
        if kind == 'placeholder' and cls == 'Segment':
            # read the name while no such child exists (leaves a traversal placeholder), create repetitions with
            # add_segment (which does not consume it), then address one from the end
            last = lambda g: len(g.impl.I) - 1
            for n in (1, 2):
                self.pending.append(['addsegment', x, name])
                self.pending.append(lambda g, n=n: ['setattr', last(g), ['%s_1' % nl], ['t', str(n)]])
            k2 = -rng.randint(1, 2)
            if rng.random() < .6:
                self.pending.append(['setindex', x, [nl], k2, ['t', self.delim('%s|3' % name, X)]])
            else:
                self.pending.append(['removebyname', x, name, k2])
            return ['readvalue', x, [nl, '%s_1' % nl]]
        if kind == 'set' and text:
            return ['setattr', x, [nl], ['t', text]]
        if kind == 'setidx' and text:
            return ['setindex', x, [nl], i, ['t', text]]
        if kind == 'addhelper':
            return ['addsegment' if cls == 'Segment' else 'addgroup', x, name]
        if kind == 'del':
            return ['delattr', x, [nl]]
        if kind == 'delidx':
            return ['delindex', x, [nl], i]
        if kind == 'copy':
            others = [j for j in tops if type(I[j]) is type(X)]
            o = rng.choice(others)
            if cls == 'Segment' and rng.random() < .5:
                # a field of a segment of another message / group of the same kind: x.seg.seg_n = o.seg.seg_n, the
                # source filled first
                fld = '%s_%d' % (nl, rng.choice([2, 3, 5]))
                self.pending.append(['setattr', x, [nl, fld], ['p', o, '%s.%s' % (nl, fld)]])
                return ['setattr', o, [nl, fld], ['t', self.delim(rng.choice(['SMITH^JOHN', 'a&b^c', 'q']), I[o])]]
            return ['setattr', x, [nl], ['p', o, nl]]
        if kind == 'setel' and cls == 'Segment':
            segs = [j for j, y in enumerate(I) if isinstance(y, Segment) and y.name == name]
            if segs:
                return ['setattr', x, [nl], ['e', rng.choice(segs)]]
            self.pending.append(['setattr', x, [nl], ['e', len(I)]])
            return ['newseg', self.lvl, name]
        if kind == 'grab':
            return ['grab', x, [nl], i]
        if kind == 'len':
            return ['len', x, [nl]]
        if kind == 'wrong' and text:
            return ['setattr', x, [nl], ['t', self.delim('EVN|9', X)]]
        # chains below a segment or a group: read lazily, write, or read and then write (to the end of the
        # chain or to an element in the middle of it)
        if cls == 'Segment':
            names = [nl, '%s_%d' % (nl, rng.choice([1, 2, 3, 5]))]
        else:
            inner = [r for r in ref[1] if r[3] == 'SEG']
            if not inner:
                return ['len', x, [nl]]
            sname = rng.choice(inner[:3])[0].lower()
            names = [nl, sname, '%s_%d' % (sname, rng.choice([1, 2, 3]))]
        txt = '2020' if self.lvl == STRICT else self.delim(rng.choice(['w', 'EVERYMAN^ADAM', '7']), X)
        if kind == 'chain' and rng.random() < .4:
            return ['setvaluechain', x, names, txt]
        if kind == 'readchain':
            cut = rng.randint(2, len(names)) if len(names) > 2 else len(names)
            if rng.random() < .7:
                if cut == len(names) or rng.random() < .5:
                    self.pending.append(['setattr', x, names[:cut], ['t', txt]])
                else:
                    # assign a whole segment to the intermediate link
                    self.pending.append(['setattr', x, names[:cut], ['t', self.delim('%s|3' % names[cut - 1].upper(), X)]])
            return ['readvalue', x, names]
        return ['setattr', x, names, ['t', txt]]

    def step(self, hook=None):
        op = self.gen_op()
        k = len(self.ops)
        if hook:
            hook(self.impl, k, op, 'before', None)
        code, res = self.impl.apply(op)
        if hook:
            hook(self.impl, k, op, 'after', (code, res))
        self.ops.append(op)
        self.codes.append(code)
        return op, code, res

    def run(self, hook=None):
        for _ in range(self.nsteps):
            self.step(hook)
        return self


def run_message_history(version, ops, hook=None):
    """replay of a message-level history (implementation only)"""
    impl = Impl(version)
    if any(o[0] == 'newmsg' and len(o) > 3 and o[3] for o in ops):
        impl.ec = None
    for k, op in enumerate(ops):
        if hook:
            hook(impl, k, op, 'before', None)
        r = impl.apply(op)
        if hook:
            hook(impl, k, op, 'after', r)
    return impl


def in_model_domain(ops, obs):
    for o in obs:
        if not is_model_str(o):
            return False
    return True


# ------------------------------------------------------------------------------------------
# Coq side


def coq_lvl(l):
    return 'STRICT' if l == STRICT else 'TOLERANT'


def coq_ostr(s):
    return coq_opt(s, coq_str)


def coq_names(ns):
    return '[' + '; '.join(coq_str(n) for n in ns) + ']'


def coq_nat(n):
    return '%d%%nat' % n


def coq_z(n):
    return '(%d)%%Z' % n


def coq_val(v):
    k = v[0]
    if k == 't':
        return '(HText %s)' % coq_str(v[1])
    if k == 'e':
        return '(HElem %s)' % coq_nat(v[1])
    if k == 'p':
        return '(HProxy %s %s)' % (coq_nat(v[1]), coq_str(v[2]))
    if k == 'd':
        return '(HDt %s %s)' % (coq_str(v[1]), coq_str(v[2]))
    raise ValueError(v)


def coq_op(op):
    k = op[0]
    if k == 'newseg':
        return 'ONewSeg %s %s' % (coq_lvl(op[1]), coq_str(op[2]))
    if k == 'newfield':
        return 'ONewField %s %s %s' % (coq_lvl(op[1]), coq_ostr(op[2]), coq_ostr(op[3]))
    if k == 'newcomp':
        return 'ONewComp %s %s %s' % (coq_lvl(op[1]), coq_ostr(op[2]), coq_ostr(op[3]))
    if k == 'newsub':
        return 'ONewSub %s %s %s %s' % (coq_lvl(op[1]), coq_ostr(op[2]), coq_ostr(op[3]), coq_str(op[4]))
    if k == 'add':
        return 'OAdd %s %s' % (coq_nat(op[1]), coq_nat(op[2]))
    if k == 'setattr':
        return 'OSetAttr %s %s %s' % (coq_nat(op[1]), coq_names(op[2]), coq_val(op[3]))
    if k == 'setindex':
        return 'OSetIndex %s %s %s %s' % (coq_nat(op[1]), coq_names(op[2]), coq_z(op[3]), coq_val(op[4]))
    if k == 'setlistindex':
        return 'OSetListIndex %s %s %s' % (coq_nat(op[1]), coq_nat(op[2]), coq_val(op[3]))
    if k == 'delattr':
        return 'ODelAttr %s %s' % (coq_nat(op[1]), coq_names(op[2]))
    if k == 'delindex':
        return 'ODelIndex %s %s %s' % (coq_nat(op[1]), coq_names(op[2]), coq_z(op[3]))
    if k == 'dellistindex':
        return 'ODelListIndex %s %s' % (coq_nat(op[1]), coq_nat(op[2]))
    if k == 'remove':
        return 'ORemove %s %s' % (coq_nat(op[1]), coq_nat(op[2]))
    if k == 'addhelper':
        return 'OAddHelper %s %s' % (coq_nat(op[1]), coq_str(op[2]))
    if k == 'grab':
        return 'OGrab %s %s %s' % (coq_nat(op[1]), coq_names(op[2]), coq_z(op[3]))
    if k == 'grablist':
        return 'OGrabList %s %s' % (coq_nat(op[1]), coq_nat(op[2]))
    if k == 'read':
        return 'ORead %s %s' % (coq_nat(op[1]), coq_names(op[2]))
    if k == 'readvalue':
        return 'OReadValue %s %s' % (coq_nat(op[1]), coq_names(op[2]))
    if k == 'len':
        return 'OLen %s %s' % (coq_nat(op[1]), coq_names(op[2]))
    if k == 'lenlist':
        return 'OLenList %s' % coq_nat(op[1])
    if k == 'toer7':
        return 'OToEr7 %s' % coq_nat(op[1])
    if k == 'setvaluechain':
        return 'OSetValueChain %s %s %s' % (coq_nat(op[1]), coq_names(op[2]), coq_str(op[3]))
    if k == 'setvalue':
        return 'OSetValue %s %s' % (coq_nat(op[1]), coq_str(op[2]))
    if k == 'setvaluedt':
        return 'OSetValueDt %s %s %s' % (coq_nat(op[1]), coq_str(op[2]), coq_str(op[3]))
    if k == 'setdatatype':
        return 'OSetDatatype %s %s' % (coq_nat(op[1]), coq_ostr(op[2]))
    if k == 'setparent':
        return 'OSetParent %s %s' % (coq_nat(op[1]), coq_opt(op[2], coq_nat))
    if k == 'removebyname':
        return 'ORemoveByName %s %s %s' % (coq_nat(op[1]), coq_str(op[2]), coq_z(op[3]))
    if k == 'setvaluenone':
        return 'OSetValueNone %s %s' % (coq_nat(op[1]), coq_names(op[2]))
    raise ValueError(op)


PRELUDE = '''From Coq Require Import List NArith ZArith Init.Byte.
From HL7 Require Import Lib.Str Model.Ec Model.Result Model.Ref Model.Tree Model.Leaf Model.Heap Gen.Params.
From HL7 Require Gen.%(mod)s.
Import ListNotations. Open Scope bs_scope.
(* the generated tables with the entries these histories use moved to the front of each association
   list (a permutation of lists with unique keys: every lookup gives the same answer, sooner) *)
Definition reorder {B} (ps : list str) (l : list (str * B)) : list (str * B) :=
  let (a, b) := partition (fun kv => existsb (fun p => bstarts p (fst kv)) ps) l in a ++ b.
Definition retable (sp fp cp dp : list str) (t : tables) : tables :=
  mk_tables (t_version t) (reorder sp (t_segments t)) (reorder fp (t_fields t)) (reorder cp (t_components t))
            (reorder dp (t_structs t)) (t_messages t) (t_groups t) (t_base_datatypes t).
Definition t0 := Gen.%(mod)s.tables.
Definition tt := retable %(sp)s %(fp)s %(cp)s %(dp)s t0.
Definition v : str := %(v)s.
Definition e : ec := %(ec)s.
Definition lenc (l : level) := leaf_enc v l e.
Definition check (t : tables) (x : bool) (c : list op * list N) : option nat :=
  run_check t e lenc x init_rstate (fst c) (snd c) 0.
Fixpoint failing (t : tables) (x : bool) (n : nat) (l : list (list op * list N)) : list nat :=
  match l with
  | [] => []
  | c :: r => (match check t x c with Some k => [n; k] | None => [] end) ++ failing t x (S n) r
  end.
'''


def datatype_closure(lib, dts):
    seen = []
    todo = list(dts)
    while todo:
        d = todo.pop()
        if d in seen or d is None:
            continue
        seen.append(d)
        for row in lib.DATATYPES_STRUCTS.get(d, ()):
            ref = row[1]
            if len(ref) > 2 and ref[2] not in seen:
                todo.append(ref[2])
    return sorted(seen)


def prefixes_for(version, seg_names):
    lib = hl7apy.load_library(version)
    segs = sorted(set(n.upper() for n in seg_names))
    dts = []
    for sname in segs:
        ref = lib.SEGMENTS.get(sname)
        if ref and len(ref) > 1:
            for row in ref[1]:
                r = row[1]
                if len(r) > 2:
                    dts.append(r[2])
    dts = datatype_closure(lib, dts + ['ST', 'CX', 'HD', 'CE', 'XPN', 'ID'])
    return segs, [n + '_' for n in segs], [d + '_' for d in dts], dts


def prelude(version, seg_names=('PID', 'OBX', 'QPD', 'NK1', 'ZXX')):
    sp, fp, cp, dp = prefixes_for(version, seg_names)
    cl = lambda l: '[' + '; '.join(coq_str(x) for x in l) + ']'
    return PRELUDE % {'mod': segcorr.modname(version), 'v': coq_str(version), 'ec': segcorr.ec_term(ec_for(version)),
                      'sp': cl(sp), 'fp': cl(fp), 'cp': cl(cp), 'dp': cl(dp)}


def seg_names_of(cases):
    out = set()
    for ops, _ in cases:
        for o in ops:
            if o[0] == 'newseg':
                out.add(o[2])
    return sorted(out)


def case_text(ops, obs):
    return '([%s],\n [%s])' % (';\n  '.join(coq_op(o) for o in ops), '; '.join('%d%%N' % hash_str(o) for o in obs))


def run_model(run, version, cases, tag, per_file=40, component='heap', plain_every=0):
    """cases: list of (ops, observations).  Replays every history in the Coq model (exotic = true, i.e.
    hl7apy's behaviour) and compares (outcome, result, dump) hashes per step inside Coq.  With
    plain_every = k > 0 every k-th shard is also replayed with exotic = false: agreement shows that no
    history took one of the two exotic paths (the hypothesis hist_plain of the partial theorems).
    Returns (histories evaluated, steps evaluated, [(case index, step)] that differ, [(case, step)]
    where the plain replay differs, histories replayed plain)."""
    usable = [(i, c) for i, c in enumerate(cases) if in_model_domain(c[0], c[1])]
    shards = shard(usable, per_file)
    files = []
    for k, sh in enumerate(shards):
        L = [prelude(version, seg_names_of([c for _, c in sh])), 'Definition cases : list (list op * list N) := [']
        L.append(';\n'.join(case_text(ops, obs) for _, (ops, obs) in sh))
        L.append('].')
        L.append('Eval vm_compute in (let t := tt in failing t true 0 cases).')
        if plain_every and k % plain_every == 0:
            L.append('Eval vm_compute in (let t := tt in failing t false 0 cases).')
        files.append(('%s_%d_%d' % (tag, os.getpid(), k), '\n'.join(L) + '\n'))
    results = coq_eval_many(files, timeout=1500)
    evaluated = steps = nplain = 0
    bad, bad_plain = [], []
    for k, (sh, (rc, out)) in enumerate(zip(shards, results)):
        lists = parse_nat_lists(out)
        want = 2 if (plain_every and k % plain_every == 0) else 1
        if rc != 0 or len(lists) != want:
            run.disagree(component, why='case file did not evaluate', output=out[-1500:])
            continue
        evaluated += len(sh)
        steps += sum(len(c[0]) for _, c in sh)
        fl = lists[0]
        for j in range(0, len(fl), 2):
            idx, step = sh[fl[j]][0], fl[j + 1]
            bad.append((idx, step))
        if want == 2:
            nplain += len(sh)
            fl = lists[1]
            for j in range(0, len(fl), 2):
                bad_plain.append((sh[fl[j]][0], fl[j + 1]))
    return evaluated, steps, bad, bad_plain, nplain


def model_observations(version, ops, upto=None):
    """the model's observation strings for a history (diagnostics for a disagreement)"""
    ops = ops if upto is None else ops[:upto + 1]
    text = prelude(version, seg_names_of([(ops, None)])) + 'Definition ops : list op := [%s].\n' % ';\n  '.join(coq_op(o) for o in ops)
    text += 'Eval vm_compute in map BS (run_observe tt e lenc true init_rstate ops).\n'
    rc, out = coq_eval('heapdiag_%d' % os.getpid(), text, timeout=600)
    if rc != 0:
        return None, out
    # the printed value is a list of string literals [ "..." ; "..." ]
    body = out[out.index('= [') + 3:] if '= [' in out else out
    res, i = [], 0
    while True:
        a = body.find('"', i)
        if a < 0:
            break
        j = a + 1
        buf = []
        while j < len(body):
            if body[j] == '"':
                if j + 1 < len(body) and body[j + 1] == '"':
                    buf.append('"')
                    j += 2
                    continue
                break
            buf.append(body[j])
            j += 1
        res.append(''.join(buf))
        i = j + 1
    return res, out


def first_diff(a, b):
    la, lb = a.split('\n'), b.split('\n')
    for i in range(max(len(la), len(lb))):
        x = la[i] if i < len(la) else '<none>'
        y = lb[i] if i < len(lb) else '<none>'
        if x != y:
            return {'line': i, 'implementation': x, 'model': y}
    return None


def explain(version, ops, step):
    """implementation vs model observation at `step` of a history (first differing dump line)"""
    _, obs = run_history(version, ops[:step + 1])
    mobs, raw = model_observations(version, ops, step)
    if not mobs or len(mobs) <= step:
        return {'error': (raw or '')[-600:]}
    return first_diff(obs[step], mobs[step])


# ------------------------------------------------------------------------------------------
# shrinking


def ddmin(ops, failing):
    """delta debugging: a locally minimal sub-list of ops on which failing(ops) is still true"""
    n = 2
    ops = list(ops)
    while len(ops) >= 2:
        chunk = max(1, len(ops) // n)
        reduced = False
        for i in range(0, len(ops), chunk):
            cand = ops[:i] + ops[i + chunk:]
            if cand and failing(cand):
                ops = cand
                n = max(n - 1, 2)
                reduced = True
                break
        if not reduced:
            if chunk == 1:
                break
            n = min(len(ops), n * 2)
    return ops


def shrink_disagreement(version, ops, step, budget=24):
    """smallest history (by ddmin, at most `budget` model evaluations) on which model and implementation
    still differ.  Histories are replayed from scratch; an operation that names a handle which no longer
    exists is a no-op with outcome 50 on both sides, so removing operations never makes one invalid."""
    left = [budget]

    def failing(cand):
        if left[0] <= 0:
            return False
        left[0] -= 1
        _, obs = run_history(version, cand)
        mobs, _ = model_observations(version, cand)
        if mobs is None or len(mobs) != len(obs):
            return False          # did not evaluate: not a usable reduction
        return any(a != b for a, b in zip(obs, mobs))
    return ddmin(ops[:step + 1], failing)


def shrink_failure(version, ops, still_fails, budget=200):
    """ddmin of a history on the implementation side only: still_fails(ops) -> bool"""
    left = [budget]

    def failing(cand):
        if left[0] <= 0:
            return False
        left[0] -= 1
        try:
            return bool(still_fails(cand))
        except Exception:  # noqa
            return False
    return ddmin(list(ops), failing)


def report_disagreements(run, version, cases, bad, limit=12):
    """record model/implementation disagreements; the first one is explained and shrunk"""
    for n, (idx, step) in enumerate(bad[:limit]):
        ops = cases[idx][0]
        data = dict(version=version, step=step, ops=ops[:step + 1])
        if n < 3:
            data['first_difference'] = explain(version, ops, step)
        if n == 0:
            small = shrink_disagreement(version, ops, step)
            data['shrunk_ops'] = small
        run.disagree('heap', **data)


class Collector(object):
    """stands in for a Run while an oracle is re-evaluated on candidate histories during shrinking"""

    def __init__(self):
        self.failures = []

    def fail(self, kind, what, **data):
        self.failures.append({'kind': kind, 'what': what, 'data': data})


def shrink_oracle_failures(run, oracle_on_history, key_attrs, per_kind=1, budget=150):
    """replace the history of the first failure of every (kind, key attributes) family by a ddmin-minimal one
    that still makes the oracle report the same family; oracle_on_history(collector, version, ops)"""
    done = {}
    for f in run.failures:
        d = f['data']
        fam = (f['kind'],) + tuple(d.get(a) for a in key_attrs)
        if done.get(fam, 0) >= per_kind or 'ops' not in d:
            continue
        done[fam] = done.get(fam, 0) + 1
        v = d.get('version', '2.5')

        def still(cand, fam=fam, v=v):
            c = Collector()
            oracle_on_history(c, v, cand)
            return any((g['kind'],) + tuple(g['data'].get(a) for a in key_attrs) == fam for g in c.failures)
        small = shrink_failure(v, d['ops'], still, budget)
        if small and len(small) < len(d['ops']):
            d['original_length'] = len(d['ops'])
            d['ops'] = small
            d['step'] = len(small) - 1
