(* Name resolution (C14): which child a name designates.
   core.py: Segment.find_child_reference (1658), Field.find_child_reference (1399),
   SupportComplexDataType.find_child_reference (896), Group/Message.find_child_reference (1843/1959),
   ElementList._find_name / _default_child_lookup (443/457), the attribute-name guard of
   Element.__getattr__/__setattr__/__delattr__ (852-877) and the positional paths of
   Field._get_traversal_children / _do_traversal (1508-1566).
   The answer says which ENTRY of the parent's structure (canonical name key + reference + class)
   is addressed, or which exception is raised.  Definitions only. *)
From Coq Require Import List Bool ZArith NArith Init.Byte.
From HL7 Require Import Lib.Str Model.Result Model.Ref Model.Tree Model.Parser Gen.Params.
Import ListNotations.
Open Scope bs_scope.
Open Scope res_scope.

Definition US : byte := x5f.    (* '_' *)

(* ---------- int(x) and str(int) ---------- *)

(* int(x) on ASCII text that contains no '_' : blanks stripped, optional sign, digits *)
Definition py_int (x : str) : option Z :=
  match strip x with
  | c :: r =>
      if beqb c "+" then (if all_digits r then Some (Z.of_N (digits_val r)) else None)
      else if beqb c "-" then (if all_digits r then Some (- Z.of_N (digits_val r))%Z else None)
      else if all_digits (c :: r) then Some (Z.of_N (digits_val (c :: r))) else None
  | [] => None
  end.

(* '{0}'.format(z) *)
Definition Z_to_str (z : Z) : str :=
  match z with
  | Z0 => N_to_str 0
  | Zpos p => N_to_str (Npos p)
  | Zneg p => "-" ++ N_to_str (Npos p)
  end.

(* ---------- the two maps of a structure ---------- *)

(* structure_by_name / structure_by_longname exist (are dicts) only for sequence/choice references *)
Definition has_map_st (st : structure) : bool :=
  match st_ordered st with Some _ => true | None => false end.

(* structure_by_name.get(name) or structure_by_longname.get(name)   (entries are non-empty dicts) *)
Definition struct_lookup (st : structure) (n : str) : option sentry :=
  match by_name st n with
  | Some e => Some e
  | None => by_long st n
  end.

(* the outcome of addressing a child by attribute syntax *)
Inductive target :=
  | TAttr                          (* the name is one of the element's own attributes: no child is addressed *)
  | TChild (e : sentry)            (* the child entry `e` of the parent *)
  | TGrand (c : sentry) (s : sentry).   (* positional path from a field: subcomponent entry s of component entry c *)

(* `name in self.cls_attrs` -- exact (case-sensitive) membership; Gen/Params lists the attribute
   names upper-cased and the harness checks that every cls_attrs entry is lower-case in the code *)
Definition attr_guard (attrs : list str) (name : str) : bool := smem name (map lower attrs).

Section Resolve.
Variable t : tables.
Variable lvl : level.

(* ---------- Segment.find_child_reference ---------- *)
Definition seg_find_child_reference (s : seg) (name : str) : result sentry :=
  let n := upper name in
  if negb (has_map_st (s_st s)) then Err (Crash AttributeError)      (* None.get *)
  else
    match struct_lookup (s_st s) n with
    | Some e => Ok e
    | None =>
        if s_inf s && valid_child_name (Some n) (Some (s_name s)) then
          Ok (mk_sentry n (leaf_of (if valid_z_field_name n then unbs "ST" else unbs "varies")) FIE)
        else
          match slookup n (t_fields t) with        (* find_reference(name, (Field,), version) *)
          | Some _ => Err (HL7 EChildNotValid)
          | None => Err (HL7 EChildNotFound)
          end
    end.

(* ---------- SupportComplexDataType.find_child_reference (Field, Component) ---------- *)
Definition complex_find_child_reference (st : option structure) (name : str) : result sentry :=
  let n := upper name in
  let mapped := match st with Some s => has_map_st s | None => false end in
  let found := match st with
               | Some s => if has_map_st s then struct_lookup s n else None
               | None => None
               end in
  match found with
  | Some e => Ok e
  | None =>
      match slookup n (t_components t) with       (* find_reference(name, (Component|SubComponent,), version) *)
      | None => Err (HL7 EChildNotFound)
      | Some r => if mapped then Err (HL7 EChildNotValid) else Ok (mk_sentry n r CMP)
      end
  end.

(* ---------- Field.find_child_reference: the name is NOT upper-cased before the first two tests;
   every caller on the attribute paths (_find_name, ElementList.set) passes an upper-cased name *)
Definition field_find_child_reference (f : field) (name : str) : result sentry :=
  if base t (f_dt f) then
    if opt_eqb (Some name) (f_dt f)
    then Ok (mk_sentry name (SLeaf (mk_info (f_dt f) None None (-1))) CMP)
    else Err (HL7 EChildNotFound)
  else if is_varies (f_dt f) && valid_child_name (Some name) (f_dt f) then
    Ok (mk_sentry name varies_leaf CMP)
  else complex_find_child_reference (f_st f) name.

Definition comp_find_child_reference (c : comp) (name : str) : result sentry :=
  complex_find_child_reference (c_st c) name.

(* ---------- Group / Message .find_child_reference ---------- *)
(* refuse = STRICT (and, for a Message, not a Z-message) *)
Definition group_find_child_reference (refuse : bool) (st : option structure) (name : str) : result sentry :=
  let n := upper name in
  let found := match st with
               | Some s => if has_map_st s then struct_lookup s n else None
               | None => None
               end in
  match found with
  | Some e => Ok e
  | None =>
      if valid_z_segment_name n then Ok (mk_sentry n empty_seq SEG)
      else
        match slookup n (t_segments t) with
        | Some r => if refuse then Err (HL7 EChildNotValid) else Ok (mk_sentry n r SEG)
        | None =>
            match slookup n (t_groups t) with
            | Some r => if refuse then Err (HL7 EChildNotValid) else Ok (mk_sentry n r GRP)
            | None => Err (HL7 EChildNotFound)
            end
        end
  end.
Definition grp_find_child_reference (st : option structure) (name : str) : result sentry :=
  group_find_child_reference (is_strict lvl) st name.
Definition msg_find_child_reference (is_z_message : bool) (st : option structure) (name : str) : result sentry :=
  group_find_child_reference (negb is_z_message && is_strict lvl) st name.

(* ---------- ElementList._find_name / _default_child_lookup ---------- *)
Definition find_name (fcr : str -> result sentry) (name : str) : result str :=
  do e <- fcr (upper name); Ok (se_name e).
(* `present` = keys of children.indexes and children.traversal_indexes; the result is the key of the proxy *)
Definition default_child_lookup (fcr : str -> result sentry) (present : list str) (name : str) : result str :=
  if smem name present then Ok name else find_name fcr name.

(* ---------- attribute syntax on a Segment / Component (Element.__getattr__, __setattr__, __delattr__:
   the same resolution for reads, writes and deletes) ---------- *)
Definition seg_getattr (s : seg) (name : str) : result target :=
  if attr_guard cls_attrs_Segment name then Ok TAttr
  else do e <- seg_find_child_reference s (upper name); Ok (TChild e).

Definition comp_getattr (c : comp) (name : str) : result target :=
  if attr_guard cls_attrs_Component name then Ok TAttr
  else do e <- comp_find_child_reference c (upper name); Ok (TChild e).

(* ---------- Field._get_traversal_children ---------- *)
Definition get_traversal_children (self_name : option str) (name : str) : option (Z * option Z) :=
  match bsplit US (upper name) with
  | [a; b; c] =>
      match py_int c with
      | Some j => if opt_eqb (Some (a ++ "_" ++ b)) self_name then Some (j, None) else None
      | None => None
      end
  | [a; b; c; d] =>
      match py_int c, py_int d with
      | Some j, Some k => if opt_eqb (Some (a ++ "_" ++ b)) self_name then Some (j, Some k) else None
      | _, _ => None
      end
  | _ => None
  end.

(* self.structure_by_name[component_name]['ref'] *)
Definition designated_component_ref (f : field) (cname : str) : result sref :=
  match f_st f with
  | Some st =>
      if has_map_st st then
        match by_name st cname with
        | Some e => Ok (se_ref e)
        | None => Err (Crash KeyError)
        end
      else Err (Crash TypeError)       (* None[...] *)
  | None => Err (Crash TypeError)
  end.

(* the Component that the proxy creates for a child entry of the field
   (ElementList.create_element: cls(name, reference=ref, validation_level, version, traversal_parent)) *)
Definition component_of_entry (e : sentry) : result comp :=
  mk_component t lvl (Some (se_name e)) None (Some (se_ref e)).

(* ---------- Field._do_traversal (get / set / del share the resolution).  The Python recursion
   getattr(self, component_name) is bounded by fuel; OutOfFuel = RecursionError. ---------- *)
Fixpoint field_traverse (fuel : nat) (f : field) (name : str) : result target :=
  match fuel with
  | O => Err OutOfFuel
  | S fuel' =>
      if attr_guard cls_attrs_Field name then Ok TAttr else
      match field_find_child_reference f (upper name) with
      | Ok e => Ok (TChild e)
      | Err (HL7 EChildNotFound) =>
          match get_traversal_children (f_name f) name with
          | None => Err (HL7 EChildNotFound)
          | Some (j, sub) =>
              let b := base t (f_dt f) in
              if b && (opt_is_some sub || negb (j =? 1)%Z) then Err (HL7 EChildNotFound) else
              let cname := if b then str_of_opt (f_dt f)
                           else str_of_opt (f_dt f) ++ "_" ++ Z_to_str j in
              match sub with
              | None => field_traverse fuel' f cname
              | Some k =>
                  do r <- field_traverse fuel' f cname;
                  match r with
                  | TChild ce =>
                      do cref <- designated_component_ref f cname;
                      do cdt <- (match ref_info cref with
                                 | Some i => Ok (i_dt i)
                                 | None => Err (Crash IndexError)
                                 end);
                      let sname := str_of_opt cdt ++ "_" ++ Z_to_str k in
                      do c <- component_of_entry ce;
                      match comp_getattr c sname with
                      | Ok (TChild se) => Ok (TGrand ce se)
                      | Ok _ => Err (Crash AttributeError)
                      | Err x => Err x          (* ChildNotFound is re-raised under the path's name *)
                      end
                  | _ => Err (Crash AttributeError)
                  end
              end
          end
      | Err x => Err x
      end
  end.

(* user name -> component name -> (only for a table in which a field is named like its own
   datatype) the same component name again: fuel 3 is exact for every other case *)
Definition field_getattr (f : field) (name : str) : result target := field_traverse 3 f name.

(* ---------- parents, and the one entry point ---------- *)
Inductive parent := PSeg (s : seg) | PField (f : field) | PComp (c : comp).

Definition resolve (p : parent) (name : str) : result target :=
  match p with
  | PSeg s => seg_getattr s name
  | PField f => field_getattr f name
  | PComp c => comp_getattr c name
  end.

Definition cls_attrs_of (p : parent) : list str :=
  match p with PSeg _ => cls_attrs_Segment | PField _ => cls_attrs_Field | PComp _ => cls_attrs_Component end.
Definition reserved_of (p : parent) : list str :=
  match p with PSeg _ => reserved_Segment | PField _ => reserved_Field | PComp _ => reserved_Component end.

(* parents as the library builds them *)
Definition parent_segment (name : str) : result seg := mk_segment t name None.
Definition field_of_entry (e : sentry) : result field :=
  mk_field t lvl (Some (se_name e)) None (Some (se_ref e)).
Definition parent_field (s : seg) (fname : str) : result field :=
  do e <- seg_find_child_reference s fname; field_of_entry e.
Definition parent_component (f : field) (cname : str) : result comp :=
  do e <- field_find_child_reference f (upper cname); component_of_entry e.

End Resolve.

(* letter-case variants used by the finite obligations: all upper, all lower, alternating *)
Fixpoint alt_case (up : bool) (s : str) : str :=
  match s with
  | [] => []
  | c :: r => (if up then bupper c else blower c) :: alt_case (negb up) r
  end.
Definition case_variants (s : str) : list str := [s; upper s; lower s; alt_case false s; alt_case true s].

(* ---------- the finite per-version obligations (Oblig/C14_v2_X.v evaluate these by vm_compute) ---------- *)
Section Oblig.
Variable t : tables.

(* the rows of a sequence reference, when every row is well formed *)
Definition rows_of (r : sref) : option (list vchild) :=
  match view_of t r with
  | VSeq _ cs _ =>
      if forallb (fun o => match o with Some _ => true | None => false end) cs
      then Some (flat_map (fun o => match o with Some v => [v] | None => [] end) cs)
      else None
  | _ => None
  end.

Definition long_of (vc : vchild) : option str :=
  match ref_long (vc_ref vc) with Some (Some l) => Some l | _ => None end.

(* every letter-case variant of spelling n reaches the child entry whose key is `key` *)
Definition reaches (get : str -> result target) (key : str) (n : str) : bool :=
  forallb (fun n' => match get n' with
                     | Ok (TChild e) => streqb (se_name e) key
                     | _ => false
                     end) (case_variants n).

(* classification of one row's long name *)
Inductive long_class := LNone | LDup | LShadow | LReserved | LOk (l : str).
Definition classify_long (reserved : list str) (vcs : list vchild) (vc : vchild) : long_class :=
  match long_of vc with
  | None => LNone
  | Some l =>
      if Nat.ltb 1 (length (filter (fun v => match long_of v with Some l' => streqb l' l | None => false end) vcs))
      then LDup
      else if existsb (fun v => streqb (upper (vc_name v)) (upper l)) vcs then LShadow
      else if smem (upper l) reserved then LReserved
      else LOk l
  end.

(* counts: rows, rows whose long name is checked, exempt because the long name is shared, exempt
   because it is also a child name, exempt because it is an attribute name, rows without long name *)
Record tally := mk_tally { k_rows : N; k_long : N; k_dup : N; k_shadow : N; k_reserved : N; k_nolong : N }.
Definition tally0 := mk_tally 0 0 0 0 0 0.
Definition tally_add (a b : tally) : tally :=
  mk_tally (k_rows a + k_rows b) (k_long a + k_long b) (k_dup a + k_dup b) (k_shadow a + k_shadow b)
           (k_reserved a + k_reserved b) (k_nolong a + k_nolong b).
Definition tally_list (x : tally) : list N := [k_rows x; k_long x; k_dup x; k_shadow x; k_reserved x; k_nolong x].

(* all rows of one parent: (failing spellings, tally).  The HL7 name must reach its own row in every
   letter case and must not be an attribute name; the long name likewise unless exempt. *)
Definition check_rows (label : str) (get : str -> result target) (reserved : list str) (vcs : list vchild)
  : list str * tally :=
  fold_right
    (fun vc acc =>
       let '(bad, k) := acc in
       let key := vc_name vc in
       let bad1 := if reaches get key key && negb (smem (upper key) reserved) then [] else [label ++ "/" ++ key] in
       match classify_long reserved vcs vc with
       | LNone => (bad1 ++ bad, tally_add (mk_tally 1 0 0 0 0 1) k)
       | LDup => (bad1 ++ bad, tally_add (mk_tally 1 0 1 0 0 0) k)
       | LShadow => (bad1 ++ bad, tally_add (mk_tally 1 0 0 1 0 0) k)
       | LReserved => (bad1 ++ bad, tally_add (mk_tally 1 0 0 0 1 0) k)
       | LOk l => (bad1 ++ (if reaches get key l then [] else [label ++ "/" ++ key ++ "/" ++ l]) ++ bad,
                   tally_add (mk_tally 1 1 0 0 0 0) k)
       end)
    ([], tally0) vcs.

Definition names_distinct (vcs : list vchild) : bool := nodupb streqb (map vc_name vcs).

(* ---- segments and their field rows ---- *)
Definition check_segment (p : str * sref) : list str * tally :=
  match parent_segment t (fst p), rows_of (snd p) with
  | Ok s, Some vcs =>
      if names_distinct vcs && negb (bmem US (fst p))
      then check_rows (fst p) (seg_getattr t s) reserved_Segment vcs
      else ([fst p ++ "/names"], tally0)
  | _, _ => ([fst p], tally0)
  end.

(* ---- one component parent: its subcomponent rows by name / long name ---- *)
Definition check_component (label : str) (c : comp) : list str * tally :=
  match c_st c with
  | Some st =>
      match rows_of (st_reference st) with
      | Some vcs => if names_distinct vcs
                    then check_rows label (comp_getattr t c) reserved_Component vcs
                    else ([label ++ "/names"], tally0)
      | None => ([], tally0)          (* leaf component: no children to address *)
      end
  | None => ([label], tally0)
  end.

(* expected outcome of positional paths *)
Definition path_variants (p : str) : list str := [p; lower p].
Definition reaches_pos (f : field) (lvl : level) (key : str) (p : str) : bool :=
  forallb (fun n => match field_getattr t lvl f n with
                    | Ok (TChild e) => streqb (se_name e) key
                    | _ => false end) (path_variants p).
Definition reaches_sub (f : field) (lvl : level) (ckey skey : str) (p : str) : bool :=
  forallb (fun n => match field_getattr t lvl f n with
                    | Ok (TGrand c s) => streqb (se_name c) ckey && streqb (se_name s) skey
                    | _ => false end) (path_variants p).
Definition misses (f : field) (lvl : level) (p : str) : bool :=
  forallb (fun n => match field_getattr t lvl f n with
                    | Err (HL7 EChildNotFound) | Err (HL7 EChildNotValid) => true
                    | _ => false end) (path_variants p).

(* positional counts: component paths, subcomponent paths, paths that must miss *)
Record ptally := mk_ptally { p_comp : N; p_sub : N; p_miss : N }.
Definition ptally_add (a b : ptally) := mk_ptally (p_comp a + p_comp b) (p_sub a + p_sub b) (p_miss a + p_miss b).

(* ---- one field parent (named `fname`, reference r): component rows by name / long name /
   <fname>_<j>; subcomponents <fname>_<j>_<k>; the first index beyond each list misses ---- *)
Definition check_field (lvl : level) (fname : str) (r : sref)
  : list str * (tally * tally * ptally) :=
  match mk_field t lvl (Some fname) None (Some r) with
  | Err _ => ([fname], (tally0, tally0, mk_ptally 0 0 0))
  | Ok f =>
      match rows_of r with
      | None =>
          (* leaf field: base datatype -> only <fname>_1 (the component named like the datatype);
             varies -> <fname>_<j> is VARIES_<j> *)
          let ok :=
            match f_dt f with
            | Some d =>
                if base t (f_dt f)
                then reaches_pos f lvl d (name_idx fname 1) && reaches (field_getattr t lvl f) d d
                     && misses f lvl (name_idx fname 2) && misses f lvl (name_idx (name_idx fname 1) 1)
                else if is_varies (f_dt f)
                then reaches_pos f lvl (unbs "VARIES_1") (name_idx fname 1)
                     && reaches_pos f lvl (unbs "VARIES_7") (name_idx fname 7)
                else false
            | None => false
            end in
          (if ok then [] else [fname ++ "/leaf"], (tally0, tally0, mk_ptally 1 0 2))
      | Some vcs =>
          if negb (names_distinct vcs) then ([fname ++ "/names"], (tally0, tally0, mk_ptally 0 0 0)) else
          let '(bad, k) := check_rows fname (field_getattr t lvl f) reserved_Field vcs in
          let n := length vcs in
          let per :=
            map (fun jv =>
                   let '(j, vc) := jv in
                   let p := name_idx fname j in
                   let bad_p := if reaches_pos f lvl (vc_name vc) p then [] else [p] in
                   match component_of_entry t lvl (mk_sentry (vc_name vc) (vc_ref vc) (vc_kind vc)) with
                   | Err _ => (p :: bad_p, tally0, mk_ptally 1 0 0)
                   | Ok c =>
                       let '(bad_c, kc) := check_component (fname ++ "/" ++ vc_name vc) c in
                       let subs := match c_st c with
                                   | Some st => match rows_of (st_reference st) with Some l => l | None => [] end
                                   | None => [] end in
                       let bad_s :=
                         flat_map (fun kv => let '(k', sv) := kv in
                                             if reaches_sub f lvl (vc_name vc) (vc_name sv) (name_idx p k')
                                             then [] else [name_idx p k'])
                                  (indexed subs) in
                       let bad_m := if misses f lvl (name_idx p (S (length subs))) then [] else [name_idx p (S (length subs))] in
                       (bad_p ++ bad_c ++ bad_s ++ bad_m, kc,
                        mk_ptally 1 (N.of_nat (length subs)) 1)
                   end) (indexed vcs) in
          let bad_m := if misses f lvl (name_idx fname (S n)) && misses f lvl (name_idx fname 0)
                       then [] else [name_idx fname (S n)] in
          (bad ++ flat_map (fun x => fst (fst x)) per ++ bad_m,
           (k, fold_right (fun x a => tally_add (snd (fst x)) a) tally0 per,
            fold_right (fun x a => ptally_add (snd x) a) (mk_ptally 0 0 2) per))
      end
  end.

(* the field parents of a version: every FIELDS entry, and every segment row that carries its own
   (inline) reference instead of the FIELDS entry of its name *)
Definition inline_rows (r : sref) : list (str * sref) :=
  match r with
  | SSeqIn false rows _ =>
      flat_map (fun x => match x with SIn FIE n r' _ _ => [(n, r')] | _ => [] end) rows
  | _ => []
  end.
Definition field_parents : list (str * sref) :=
  t_fields t ++ flat_map (fun p => inline_rows (snd p)) (t_segments t).

(* order- and position-sensitive digest of the alias maps (child position -> long name), so that
   a change of which long name belongs to which child is noticed *)
Definition str_hash (s : str) : N := fold_left (fun acc b => ((acc * 131 + code b) mod 1000000007)%N) s 7%N.
Definition rows_digest (pname : str) (longs : list (option str)) : N :=
  fst (fold_left (fun (a : N * N) l =>
                    let '(acc, i) := a in
                    (((acc + (i + str_hash pname) * match l with Some x => str_hash x | None => 3 end) mod 1000000007)%N,
                     (i + 1)%N)) longs (0%N, 1%N)).
Definition alias_digest : N :=
  let seg := fold_left (fun acc p => match rows_of (snd p) with
                                    | Some vcs => ((acc * 3 + rows_digest (fst p) (map long_of vcs)) mod 1000000007)%N
                                    | None => acc end) (t_segments t) 0%N in
  fold_left (fun acc p => ((acc * 3 + rows_digest (fst p)
                               (map (fun x => match row_view t x with Some vc => long_of vc | None => None end) (snd p)))
                            mod 1000000007)%N) (t_structs t) seg.

Record c14_report := mk_report {
  r_bad_segments : list str;        (* failing segment-level spellings *)
  r_bad_fields : list str;          (* failing field / component level spellings and paths *)
  r_seg : list N;                   (* tally of the segment rows *)
  r_field : list N;                 (* tally of the component rows under field parents *)
  r_comp : list N;                  (* tally of the subcomponent rows under component parents *)
  r_pos : list N;                   (* positional: component paths, subcomponent paths, must-miss paths *)
  r_digest : N
}.

Definition report (lvl : level) : c14_report :=
  let segs := map check_segment (t_segments t) in
  let flds := map (fun p => check_field lvl (fst p) (snd p)) field_parents in
  let kf := fold_right (fun x a => let '(k1, k2, kp) := snd x in
                                   let '(a1, a2, ap) := a in (tally_add k1 a1, tally_add k2 a2, ptally_add kp ap))
                       (tally0, tally0, mk_ptally 0 0 0) flds in
  let '(k1, k2, kp) := kf in
  mk_report (flat_map fst segs) (flat_map fst flds)
            (tally_list (fold_right (fun x a => tally_add (snd x) a) tally0 segs))
            (tally_list k1) (tally_list k2) [p_comp kp; p_sub kp; p_miss kp] alias_digest.

End Oblig.

(* ---------- observation codes shared by the correspondence case files and the obligations ---------- *)

(* outcome of a query as (code, name1, name2): 0 child / 1 grandchild / 2 attribute / exception code + 100 *)
Definition target_obs (r : result target) : nat * str * str :=
  match r with
  | Ok TAttr => (2, [], [])
  | Ok (TChild e) => (0, se_name e, [])
  | Ok (TGrand c s) => (1, se_name c, se_name s)
  | Err x => (100 + exn_code x, [], [])
  end.

