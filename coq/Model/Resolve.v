(* Name resolution (C14): which child a name designates.
   core.py: Segment.find_child_reference (1658), Field.find_child_reference (1399),
   SupportComplexDataType.find_child_reference (896), Group/Message.find_child_reference (1843/1959),
   ElementList._find_name / _default_child_lookup (443/457), the attribute-name guard of
   Element.__getattr__/__setattr__/__delattr__ (852-877) and the positional paths of
   Field._get_traversal_children / _do_traversal (1508-1566).
   The answer says which ENTRY of the parent's structure (canonical name key + reference + class)
   is addressed, or which exception is raised.  Definitions only. *)
From Coq Require Import List Bool ZArith NArith Init.Byte.
From HL7 Require Import Lib.Str Model.Result Model.Ref Model.Tree Model.Parser Gen.Params.
Import ListNotations.
Open Scope bs_scope.
Open Scope res_scope.

Definition US : byte := x5f.    (* '_' *)

(* ---------- int(x) and str(int) ---------- *)

(* int(x) on ASCII text that contains no '_' : blanks stripped, optional sign, digits *)
Definition py_int (x : str) : option Z :=
  match strip x with
  | c :: r =>
      if beqb c "+" then (if all_digits r then Some (Z.of_N (digits_val r)) else None)
      else if beqb c "-" then (if all_digits r then Some (- Z.of_N (digits_val r))%Z else None)
      else if all_digits (c :: r) then Some (Z.of_N (digits_val (c :: r))) else None
  | [] => None
  end.

(* '{0}'.format(z) *)
Definition Z_to_str (z : Z) : str :=
  match z with
  | Z0 => N_to_str 0
  | Zpos p => N_to_str (Npos p)
  | Zneg p => "-" ++ N_to_str (Npos p)
  end.

(* ---------- the two maps of a structure ---------- *)

(* structure_by_name / structure_by_longname exist (are dicts) only for sequence/choice references *)
Definition has_map_st (st : structure) : bool :=
  match st_ordered st with Some _ => true | None => false end.

(* structure_by_name.get(name) or structure_by_longname.get(name)   (entries are non-empty dicts) *)
Definition struct_lookup (st : structure) (n : str) : option sentry :=
  match by_name st n with
  | Some e => Some e
  | None => by_long st n
  end.

(* the outcome of addressing a child by attribute syntax *)
Inductive target :=
  | TAttr                          (* the name is one of the element's own attributes: no child is addressed *)
  | TChild (e : sentry)            (* the child entry `e` of the parent *)
  | TGrand (c : sentry) (s : sentry).   (* positional path from a field: subcomponent entry s of component entry c *)

(* `name in self.cls_attrs` -- exact (case-sensitive) membership; Gen/Params lists the attribute
   names upper-cased and the harness checks that every cls_attrs entry is lower-case in the code *)
Definition attr_guard (attrs : list str) (name : str) : bool := smem name (map lower attrs).
(* the lists are constants of the run: lower-case them once *)
Definition lower_attrs_Segment : list str := Eval vm_compute in map lower cls_attrs_Segment.
Definition lower_attrs_Field : list str := Eval vm_compute in map lower cls_attrs_Field.
Definition lower_attrs_Component : list str := Eval vm_compute in map lower cls_attrs_Component.
Definition guard_Segment (name : str) : bool := smem name lower_attrs_Segment.
Definition guard_Field (name : str) : bool := smem name lower_attrs_Field.
Definition guard_Component (name : str) : bool := smem name lower_attrs_Component.

Section Resolve.
Variable t : tables.
Variable lvl : level.

(* ---------- Segment.find_child_reference ---------- *)
Definition seg_find_child_reference (s : seg) (name : str) : result sentry :=
  let n := upper name in
  if negb (has_map_st (s_st s)) then Err (Crash AttributeError)      (* None.get *)
  else
    match struct_lookup (s_st s) n with
    | Some e => Ok e
    | None =>
        if s_inf s && valid_child_name (Some n) (Some (s_name s)) then
          Ok (mk_sentry n (leaf_of (if valid_z_field_name n then unbs "ST" else unbs "varies")) FIE)
        else
          match slookup n (t_fields t) with        (* find_reference(name, (Field,), version) *)
          | Some _ => Err (HL7 EChildNotValid)
          | None => Err (HL7 EChildNotFound)
          end
    end.

(* ---------- SupportComplexDataType.find_child_reference (Field, Component) ---------- *)
Definition complex_find_child_reference (st : option structure) (name : str) : result sentry :=
  let n := upper name in
  let mapped := match st with Some s => has_map_st s | None => false end in
  let found := match st with
               | Some s => if has_map_st s then struct_lookup s n else None
               | None => None
               end in
  match found with
  | Some e => Ok e
  | None =>
      match slookup n (t_components t) with       (* find_reference(name, (Component|SubComponent,), version) *)
      | None => Err (HL7 EChildNotFound)
      | Some r => if mapped then Err (HL7 EChildNotValid) else Ok (mk_sentry n r CMP)
      end
  end.

(* ---------- Field.find_child_reference: the name is NOT upper-cased before the first two tests;
   every caller on the attribute paths (_find_name, ElementList.set) passes an upper-cased name *)
Definition field_find_child_reference (f : field) (name : str) : result sentry :=
  if base t (f_dt f) then
    if opt_eqb (Some name) (f_dt f)
    then Ok (mk_sentry name (SLeaf (mk_info (f_dt f) None None (-1))) CMP)
    else Err (HL7 EChildNotFound)
  else if is_varies (f_dt f) && valid_child_name (Some name) (f_dt f) then
    Ok (mk_sentry name varies_leaf CMP)
  else complex_find_child_reference (f_st f) name.

Definition comp_find_child_reference (c : comp) (name : str) : result sentry :=
  complex_find_child_reference (c_st c) name.

(* ---------- Group / Message .find_child_reference ---------- *)
(* refuse = STRICT (and, for a Message, not a Z-message) *)
Definition group_find_child_reference (refuse : bool) (st : option structure) (name : str) : result sentry :=
  let n := upper name in
  let found := match st with
               | Some s => if has_map_st s then struct_lookup s n else None
               | None => None
               end in
  match found with
  | Some e => Ok e
  | None =>
      if valid_z_segment_name n then Ok (mk_sentry n empty_seq SEG)
      else
        match slookup n (t_segments t) with
        | Some r => if refuse then Err (HL7 EChildNotValid) else Ok (mk_sentry n r SEG)
        | None =>
            match slookup n (t_groups t) with
            | Some r => if refuse then Err (HL7 EChildNotValid) else Ok (mk_sentry n r GRP)
            | None => Err (HL7 EChildNotFound)
            end
        end
  end.
Definition grp_find_child_reference (st : option structure) (name : str) : result sentry :=
  group_find_child_reference (is_strict lvl) st name.
Definition msg_find_child_reference (is_z_message : bool) (st : option structure) (name : str) : result sentry :=
  group_find_child_reference (negb is_z_message && is_strict lvl) st name.

(* ---------- ElementList._find_name / _default_child_lookup ---------- *)
Definition find_name (fcr : str -> result sentry) (name : str) : result str :=
  do e <- fcr (upper name); Ok (se_name e).
(* `present` = keys of children.indexes and children.traversal_indexes; the result is the key of the proxy *)
Definition default_child_lookup (fcr : str -> result sentry) (present : list str) (name : str) : result str :=
  if smem name present then Ok name else find_name fcr name.

(* ---------- attribute syntax on a Segment / Component (Element.__getattr__, __setattr__, __delattr__:
   the same resolution for reads, writes and deletes) ---------- *)
Definition seg_getattr (s : seg) (name : str) : result target :=
  if guard_Segment name then Ok TAttr
  else do e <- seg_find_child_reference s (upper name); Ok (TChild e).

Definition comp_getattr (c : comp) (name : str) : result target :=
  if guard_Component name then Ok TAttr
  else do e <- comp_find_child_reference c (upper name); Ok (TChild e).

(* ---------- Field._get_traversal_children ---------- *)
Definition get_traversal_children (self_name : option str) (name : str) : option (Z * option Z) :=
  match bsplit US (upper name) with
  | [a; b; c] =>
      match py_int c with
      | Some j => if opt_eqb (Some (a ++ "_" ++ b)) self_name then Some (j, None) else None
      | None => None
      end
  | [a; b; c; d] =>
      match py_int c, py_int d with
      | Some j, Some k => if opt_eqb (Some (a ++ "_" ++ b)) self_name then Some (j, Some k) else None
      | _, _ => None
      end
  | _ => None
  end.

(* self.structure_by_name[component_name]['ref'], with  except (KeyError, TypeError): raise
   ChildNotFound(name)  -- a field without component structure (e.g. of type varies) has no
   subcomponent paths *)
Definition designated_component_ref (f : field) (cname : str) : result sref :=
  match f_st f with
  | Some st =>
      if has_map_st st then
        match by_name st cname with
        | Some e => Ok (se_ref e)
        | None => Err (HL7 EChildNotFound)     (* KeyError *)
        end
      else Err (HL7 EChildNotFound)            (* None[...]: TypeError *)
  | None => Err (HL7 EChildNotFound)
  end.

(* the Component that the proxy creates for a child entry of the field
   (ElementList.create_element: cls(name, reference=ref, validation_level, version, traversal_parent)) *)
Definition component_of_entry (e : sentry) : result comp :=
  mk_component t lvl (Some (se_name e)) None (Some (se_ref e)).

(* ---------- Field._do_traversal (get / set / del share the resolution).  The Python recursion
   getattr(self, component_name) is bounded by fuel; OutOfFuel = RecursionError. ---------- *)
Fixpoint field_traverse (fuel : nat) (f : field) (name : str) : result target :=
  match fuel with
  | O => Err OutOfFuel
  | S fuel' =>
      if guard_Field name then Ok TAttr else
      match field_find_child_reference f (upper name) with
      | Ok e => Ok (TChild e)
      | Err (HL7 EChildNotFound) =>
          match get_traversal_children (f_name f) name with
          | None => Err (HL7 EChildNotFound)
          | Some (j, sub) =>
              let b := base t (f_dt f) in
              if b && (opt_is_some sub || negb (j =? 1)%Z) then Err (HL7 EChildNotFound) else
              let cname := if b then str_of_opt (f_dt f)
                           else str_of_opt (f_dt f) ++ "_" ++ Z_to_str j in
              match sub with
              | None => field_traverse fuel' f cname
              | Some k =>
                  do r <- field_traverse fuel' f cname;
                  match r with
                  | TChild ce =>
                      do cref <- designated_component_ref f cname;
                      do cdt <- (match ref_info cref with
                                 | Some i => Ok (i_dt i)
                                 | None => Err (Crash IndexError)
                                 end);
                      let sname := str_of_opt cdt ++ "_" ++ Z_to_str k in
                      do c <- component_of_entry ce;
                      match comp_getattr c sname with
                      | Ok (TChild se) => Ok (TGrand ce se)
                      | Ok _ => Err (Crash AttributeError)
                      | Err x => Err x          (* ChildNotFound is re-raised under the path's name *)
                      end
                  | _ => Err (Crash AttributeError)
                  end
              end
          end
      | Err x => Err x
      end
  end.

(* user name -> component name -> (only for a table in which a field is named like its own
   datatype) the same component name again: fuel 3 is exact for every other case *)
Definition field_getattr (f : field) (name : str) : result target := field_traverse 3 f name.

(* ---------- parents, and the one entry point ---------- *)
Inductive parent := PSeg (s : seg) | PField (f : field) | PComp (c : comp).

Definition resolve (p : parent) (name : str) : result target :=
  match p with
  | PSeg s => seg_getattr s name
  | PField f => field_getattr f name
  | PComp c => comp_getattr c name
  end.

Definition cls_attrs_of (p : parent) : list str :=
  match p with PSeg _ => cls_attrs_Segment | PField _ => cls_attrs_Field | PComp _ => cls_attrs_Component end.
Definition reserved_of (p : parent) : list str :=
  match p with PSeg _ => reserved_Segment | PField _ => reserved_Field | PComp _ => reserved_Component end.

(* parents as the library builds them *)
Definition parent_segment (name : str) : result seg := mk_segment t name None.
Definition field_of_entry (e : sentry) : result field :=
  mk_field t lvl (Some (se_name e)) None (Some (se_ref e)).
Definition parent_field (s : seg) (fname : str) : result field :=
  do e <- seg_find_child_reference s fname; field_of_entry e.
Definition parent_component (f : field) (cname : str) : result comp :=
  do e <- field_find_child_reference f (upper cname); component_of_entry e.

End Resolve.

(* examples of ASCII re-casings (C14_recasings: they all have the same `upper`) *)
Fixpoint alt_case (up : bool) (s : str) : str :=
  match s with
  | [] => []
  | c :: r => (if up then bupper c else blower c) :: alt_case (negb up) r
  end.
Definition case_variants (s : str) : list str := [s; upper s; lower s; alt_case false s; alt_case true s].

(* ---------- the finite per-version obligations (Oblig/C14_v2_X.v evaluate these by vm_compute).
   Letter case is not enumerated here: C14_case shows that resolution depends on the spelling only
   through `upper`, so each spelling is evaluated once (and must not be an attribute name).
   Positional paths are not enumerated either: C14_positional reduces them to the component /
   subcomponent names, under the hygiene conditions checked here. ---------- *)
Section Oblig.
Variable t : tables.
Variable lvl : level.

(* the child entries of a structure, in table order *)
Definition entries (st : structure) : list sentry := map snd (st_by_name st).
Definition long_of (e : sentry) : option str :=
  match ref_long (se_ref e) with Some (Some l) => Some l | _ => None end.

(* spelling n reaches the child entry whose key is `key` *)
Definition reaches (get : str -> result target) (key : str) (n : str) : bool :=
  match get n with
  | Ok (TChild e) => streqb (se_name e) key
  | _ => false
  end.

(* classification of one row's long name: absent / shared with another row of the parent / equal to
   a child name of the parent / an attribute name of the parent's class / eligible *)
Inductive long_class := LNone | LDup | LShadow | LReserved | LOk (l : str).
Definition classify_long (reserved : list str) (es : list sentry) (e : sentry) : long_class :=
  match long_of e with
  | None => LNone
  | Some l =>
      let ul := upper l in
      if Nat.ltb 1 (length (filter (fun v => match long_of v with Some l' => streqb l' l | None => false end) es))
      then LDup
      else if existsb (fun v => streqb (se_name v) ul) es then LShadow
      else if smem ul reserved then LReserved
      else LOk l
  end.

(* counts: rows, rows whose long name is checked, exempt because the long name is shared, exempt
   because it is also a child name, exempt because it is an attribute name, rows without long name *)
Record tally := mk_tally { k_rows : N; k_long : N; k_dup : N; k_shadow : N; k_reserved : N; k_nolong : N }.
Definition tally0 := mk_tally 0 0 0 0 0 0.
Definition tally_add (a b : tally) : tally :=
  mk_tally (k_rows a + k_rows b) (k_long a + k_long b) (k_dup a + k_dup b) (k_shadow a + k_shadow b)
           (k_reserved a + k_reserved b) (k_nolong a + k_nolong b).
Definition tally_list (x : tally) : list N := [k_rows x; k_long x; k_dup x; k_shadow x; k_reserved x; k_nolong x].
Definition tally_sum (l : list tally) : tally := fold_right tally_add tally0 l.
Definition class_tally (c : long_class) : tally :=
  match c with
  | LNone => mk_tally 1 0 0 0 0 1
  | LDup => mk_tally 1 0 1 0 0 0
  | LShadow => mk_tally 1 0 0 1 0 0
  | LReserved => mk_tally 1 0 0 0 1 0
  | LOk _ => mk_tally 1 1 0 0 0 0
  end.

(* one row of a parent: the HL7 name must reach its own row and must not be an attribute name; the
   long name likewise unless the row is exempt *)
Definition row_check (get : str -> result target) (reserved : list str) (es : list sentry) (e : sentry)
  : bool * tally :=
  let key := se_name e in
  let c := classify_long reserved es e in
  (streqb (upper key) key && reaches get key key && negb (smem key reserved)
   && match c with LOk l => reaches get key l | _ => true end,
   class_tally c).
Definition check_rows (label : str) (get : str -> result target) (reserved : list str) (es : list sentry)
  : list str * tally :=
  let rs := map (fun e => (e, row_check get reserved es e)) es in
  (flat_map (fun x : sentry * (bool * tally) =>
               if fst (snd x) then [] else [label ++ "/" ++ se_name (fst x)]) rs,
   tally_sum (map (fun x : sentry * (bool * tally) => snd (snd x)) rs)).

(* keys are the entries' own names, pairwise distinct *)
Definition keys_ok (st : structure) : bool :=
  forallb (fun p => streqb (fst p) (se_name (snd p))) (st_by_name st)
  && nodupb streqb (map fst (st_by_name st)).

(* digest of the alias map: which long name belongs to which child name *)
Definition wsum (s : str) : N :=
  fst (fold_left (fun (a : N * N) b => let '(acc, i) := a in ((acc + i * code b)%N, (i + 1)%N)) s (0%N, 1%N)).
Definition alias_pair (name : str) (long : option str) : N :=
  (wsum name * match long with Some x => wsum x | None => 3 end)%N.
Definition entries_digest (es : list sentry) : N :=
  fold_left (fun acc e => (acc + alias_pair (se_name e) (long_of e))%N) es 0%N.

(* ---- positions start at 1 and are written plainly (core.py:93): <SEG>_0, <SEG>_-1, <SEG>_07 and
   <SEG>_+1 designate nothing -- on an open-ended segment too -- in upper and in lower case ---- *)
Definition refused (r : result target) : bool :=
  match r with Err (HL7 EChildNotFound) | Err (HL7 EChildNotValid) => true | _ => false end.
Definition unplain_probes : list str := [unbs "_0"; unbs "_-1"; unbs "_07"; unbs "_+1"].
Definition unplain_refused (s : seg) (name : str) : bool :=
  forallb (fun sfx => refused (seg_getattr t s (name ++ sfx)) && refused (seg_getattr t s (lower name ++ sfx)))
          unplain_probes.

(* ---- a segment and its field rows ---- *)
Definition check_segment (p : str * sref) : list str * tally * N :=
  match parent_segment t (fst p) with
  | Ok s =>
      if has_map_st (s_st s) && keys_ok (s_st s)
      then (let rows := check_rows (fst p) (seg_getattr t s) reserved_Segment (entries (s_st s)) in
            (fst rows ++ (if unplain_refused s (fst p) then [] else [fst p ++ "/unplain-index"]), snd rows),
            entries_digest (entries (s_st s)))
      else ([fst p ++ "/shape"], tally0, 0%N)
  | Err _ => ([fst p], tally0, 0%N)
  end.

(* ---- positional hygiene: a name has the shape of a positional path of one of `fields` ---- *)
Definition path_shaped (fields : list str) (x : str) : bool :=
  match bsplit US (upper x) with
  | [a; b; c] => opt_is_some (py_int c) && smem (a ++ "_" ++ b) fields
  | [a; b; c; d] => opt_is_some (py_int c) && opt_is_some (py_int d) && smem (a ++ "_" ++ b) fields
  | _ => false
  end.
(* ---- a complex datatype seen from a field of that datatype: its component rows.  Resolution by
   name / long name depends on the field only through its datatype and the two maps of its structure
   (ResolveFacts.field_find_same_maps), which are those of this representative ---- *)
Definition struct_field (d : str) : result field :=
  match parse_structure t (SSeqDt (mk_info (Some d) None None (-1))) with
  | Ok st => Ok (mk_field_rec None (Some d) (Some st) [])
  | Err x => Err x
  end.
(* no child name and no long name of the datatype is a positional path of any field parent *)
Definition struct_clean (fields : list str) (st : structure) : bool :=
  forallb (fun p => negb (path_shaped fields (fst p))) (st_by_name st)
  && forallb (fun p => match fst p with Some l => negb (path_shaped fields l) | None => true end) (st_by_long st).
Definition check_struct (fields : list str) (p : str * list srow) : list str * tally :=
  match struct_field (fst p) with
  | Ok f =>
      match f_st f with
      | Some st =>
          if has_map_st st && keys_ok st && negb (base t (f_dt f)) && negb (is_varies (f_dt f))
             && streqb (upper (fst p)) (fst p) && struct_clean fields st
          then check_rows (fst p) (field_getattr t lvl f) reserved_Field (entries st)
          else ([fst p ++ "/shape"], tally0)
      | None => ([fst p], tally0)
      end
  | Err _ => ([fst p], tally0)
  end.

(* ---- a component parent (a DATATYPES entry, as the field creates it) and its subcomponent rows ---- *)
Definition check_component (p : str * sref) : list str * tally :=
  match component_of_entry t lvl (mk_sentry (fst p) (snd p) CMP) with
  | Err _ => ([fst p], tally0)
  | Ok c =>
      match c_st c with
      | Some st =>
          if has_map_st st then
            if keys_ok st
            then check_rows (fst p) (comp_getattr t c) reserved_Component (entries st)
            else ([fst p ++ "/shape"], tally0)
          else ([], tally0)
      | None => ([fst p], tally0)
      end
  end.

(* ---- the field parents of a version: every FIELDS entry, and every segment row that carries its
   own (inline) reference instead of the FIELDS entry of its name ---- *)
Definition inline_rows (r : sref) : list (str * sref) :=
  match r with
  | SSeqIn false rows _ =>
      flat_map (fun x => match x with SIn FIE n r' _ _ => [(n, r')] | _ => [] end) rows
  | _ => []
  end.
Definition field_parents : list (str * sref) :=
  t_fields t ++ flat_map (fun p => inline_rows (snd p)) (t_segments t).
(* a field parent is <SEG>_<i> in upper case, and is a leaf or has the components of a complex datatype *)
Definition field_parent_ok (p : str * sref) : bool :=
  streqb (upper (fst p)) (fst p)
  && Nat.eqb (length (bsplit US (fst p))) 2
  && match snd p with
     | SLeaf _ => true
     | SSeqDt i => match i_dt i with
                   | Some d => has_struct t d && negb (base t (Some d)) && negb (is_varies (Some d))
                   | None => false
                   end
     | _ => false
     end.

(* no DATATYPES key is a positional path of a field parent: such a path would be refused as
   ChildNotValid instead of being decoded (child names and long names: struct_clean above) *)
Definition paths_clean : bool :=
  let fields := map fst field_parents in
  forallb (fun k => negb (path_shaped fields k)) (map fst (t_components t)).

Definition components_digest : N :=
  fold_left (fun acc p => (acc + alias_pair (fst p) (long_of (mk_sentry [] (snd p) CMP)))%N) (t_components t) 0%N.

Record c14_report := mk_report {
  r_bad_segments : list str;        (* failing segment-level spellings *)
  r_bad_structs : list str;         (* failing spellings of component rows under a field *)
  r_bad_components : list str;      (* failing spellings of subcomponent rows under a component *)
  r_bad_field_parents : list str;   (* field parents of unexpected shape *)
  r_seg : list N;                   (* tally of the field rows of all segments *)
  r_struct : list N;                (* tally of the component rows of all complex datatypes *)
  r_comp : list N;                  (* tally of the subcomponent rows of all component parents *)
  r_parents : list N;               (* segments, complex datatypes, component parents, field parents *)
  r_paths_clean : bool;
  r_digest : N
}.

(* ANYHL7SEGMENT is a structure wildcard (a choice of bare names), not a segment: it is skipped *)
Definition real_segments : list (str * sref) :=
  filter (fun p => negb (streqb (fst p) "ANYHL7SEGMENT")) (t_segments t).

Definition report : c14_report :=
  let segs := map check_segment real_segments in
  let fps := field_parents in
  let fields := map fst fps in
  let sts := map (check_struct fields) (t_structs t) in
  let cmps := map check_component (t_components t) in
  mk_report (flat_map (fun x => fst (fst x)) segs) (flat_map fst sts) (flat_map fst cmps)
            (map fst (filter (fun p => negb (field_parent_ok p)) fps))
            (tally_list (tally_sum (map (fun x => snd (fst x)) segs)))
            (tally_list (tally_sum (map snd sts)))
            (tally_list (tally_sum (map snd cmps)))
            [N.of_nat (length segs); N.of_nat (length sts); N.of_nat (length cmps); N.of_nat (length fps)]
            paths_clean
            ((fold_left (fun acc x => (acc + snd x)%N) segs 0%N + components_digest) mod 1000000007)%N.

(* the part of the report that must hold of any version; the counts are pinned per version *)
Definition is_nil {A} (l : list A) : bool := match l with [] => true | _ => false end.
Definition report_fine (r : c14_report) : bool :=
  is_nil (r_bad_segments r) && is_nil (r_bad_structs r) && is_nil (r_bad_components r)
  && is_nil (r_bad_field_parents r) && r_paths_clean r.
(* exempt rows = rows whose long name is not claimed to address them (shared / shadowed / reserved),
   at the three levels: fields of segments, components of datatypes, subcomponents of components *)
Definition exempt_of (l : list N) : N := (nth 2 l 0 + nth 3 l 0 + nth 4 l 0)%N.
Definition exempt_rows (r : c14_report) : N * N * N := (exempt_of (r_seg r), exempt_of (r_struct r), exempt_of (r_comp r)).

(* what an obligation file pins: the verdict, the tallies, the parent counts and the alias digest *)
Definition summary (r : c14_report) : bool * list N * list N * list N * list N * N :=
  (report_fine r, r_seg r, r_struct r, r_comp r, r_parents r, r_digest r).

End Oblig.

(* ---------- observation codes shared by the correspondence case files and the obligations ---------- *)

(* outcome of a query as (code, name1, name2): 0 child / 1 grandchild / 2 attribute / exception code + 100 *)
Definition target_obs (r : result target) : nat * str * str :=
  match r with
  | Ok TAttr => (2, [], [])
  | Ok (TChild e) => (0, se_name e, [])
  | Ok (TGrand c s) => (1, se_name c, se_name s)
  | Err x => (100 + exn_code x, [], [])
  end.

